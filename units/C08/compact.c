/* C08: the final argv compaction of spifopt_parse (REMOVE_ARGS set, not the pre-parse pass).
 *
 * Claim (property statement): afterwards argv is the program name followed by the surviving
 * (non-NULL) words in their original order, NULL-terminated.  Stated without quantifiers through
 * arbitrary ghosts:  source indices vg_k < vg_k2 (old values vg_old_ptr, vg_old_ptr2), a slot vg_n3.
 *   - every surviving word A[k] sits in a slot jk with 1 <= jk < J          (nothing lost)
 *   - k < k2 surviving  =>  jk < jk2                                         (order kept, no two in one slot)
 *   - every slot 1 <= s < J holds a non-NULL word that came from a source src(s) < argc, and the
 *     slot recorded for that source is s                                     (nothing invented)
 *   - argv[J] == NULL, argv[0] untouched                                      (terminated)
 * J (= vg_exit) is the loop's final write position.  Ghost recordings are inserted by the annotator
 * (body_top / after), see the VOPT_COMPACT_* macros below.
 *
 * The main loop in front of the compaction is closed in this unit by the precondition
 * argv[1] == NULL (the parser stops at the first NULL word, so the main loop does nothing and
 * argv[2..] reach the compaction in an arbitrary state); the loop-contract induction step of the
 * compaction itself is over an arbitrary i >= 1 and arbitrary argv contents.  The composition with
 * a main loop that really ran is covered (bounded) by the B units in parse_b.c.
 */

/*@unit
name: spifopt_parse.compaction
define: U_COMPACT
src: options.c
native: options
native_includes: options.c
enforce: spifopt_parse
replace: find_long_option, find_short_option, handle_arglist
giflags: --restrict-function-pointer spifopt_parse.function_pointer_call.1/vopt_help --restrict-function-pointer spifopt_parse.function_pointer_call.2/vopt_abstract --restrict-function-pointer handle_integer.function_pointer_call.1/vopt_help
objbits: 10
backend: sat
loops: 1
timeout: 300
*/
#define VERIF_OWN_STRLEN
#define VERIF_OWN_STRCMP
#define VERIF_OWN_STRCHR
#define VERIF_OWN_STRDUP
#include "vprelude.h"

size_t vg_jk, vg_jk2, vg_src;          /* slot of source k, slot of source k2, source of slot vg_n3 */
const char *vg_old_ptr2, *vg_prog;

#define VOPT_MAINLOOP_CLAUSES \
    __CPROVER_assigns(i, j, opt) \
    __CPROVER_loop_invariant(i == 1 && opt == NULL) \
    __CPROVER_decreases((long) argc - (long) i)

/* the loop that clears the words of a list option (inside the main loop, unreachable in this unit;
 * the invariant is the true one) */
#define VOPT_REMOVE_REST_CLAUSES \
    __CPROVER_assigns(i, __CPROVER_object_whole(argv)) \
    __CPROVER_loop_invariant(1 <= i && i <= argc) \
    __CPROVER_decreases((long) argc - (long) i)

#define SURV_K   (vg_old_ptr != NULL)
#define SURV_K2  (vg_old_ptr2 != NULL)
#define VOPT_COMPACT_CLAUSES \
    __CPROVER_assigns(i, j, vg_jk, vg_jk2, vg_src, __CPROVER_object_whole(argv)) \
    __CPROVER_loop_invariant(1 <= j && j <= i && i <= argc) \
    __CPROVER_loop_invariant(argv[0] == (char *) vg_prog) \
    /* slots >= j have not been written yet */ \
    __CPROVER_loop_invariant(!(vg_k >= (size_t) j) || argv[vg_k] == (char *) vg_old_ptr) \
    __CPROVER_loop_invariant(!(vg_k2 >= (size_t) j) || argv[vg_k2] == (char *) vg_old_ptr2) \
    /* survivors already passed sit in their recorded slot */ \
    __CPROVER_loop_invariant(!(vg_k < (size_t) i && SURV_K) || (1 <= vg_jk && vg_jk < (size_t) j && vg_jk <= vg_k && argv[vg_jk] == (char *) vg_old_ptr)) \
    __CPROVER_loop_invariant(!(vg_k2 < (size_t) i && SURV_K2) || (1 <= vg_jk2 && vg_jk2 < (size_t) j && vg_jk2 <= vg_k2 && argv[vg_jk2] == (char *) vg_old_ptr2)) \
    /* order */ \
    __CPROVER_loop_invariant(!(vg_k < vg_k2 && vg_k2 < (size_t) i && SURV_K && SURV_K2) || vg_jk < vg_jk2) \
    /* every filled slot has a source, non-NULL, consistent with the source's record */ \
    __CPROVER_loop_invariant(!(1 <= vg_n3 && vg_n3 < (size_t) j) || \
        (argv[vg_n3] != NULL && vg_n3 <= vg_src && vg_src < (size_t) i && \
         (vg_src != vg_k || (SURV_K && vg_jk == vg_n3)) && (vg_src != vg_k2 || (SURV_K2 && vg_jk2 == vg_n3)))) \
    __CPROVER_decreases((long) argc - (long) i)
#define VOPT_COMPACT_GHOST_TOP \
    if ((size_t) i == vg_k) vg_jk = (size_t) j; \
    if ((size_t) i == vg_k2) vg_jk2 = (size_t) j; \
    if (argv[i] && (size_t) j == vg_n3) vg_src = (size_t) i;
#define VOPT_COMPACT_GHOST_AFTER  vg_exit = (size_t) j;

#include "env_options.h"
#include "src/options.c"
#include "options.h"

long w_argc, w_k, w_k2, w_s;

/* callees that contain loops are represented by their contracts (proved in lookup.c / handlers.c):
 * cbmc 6.11 DFCC aborts (goto_inline invariant) when it instruments a loop contract inside a callee
 * of the enforced function.  In this unit their call sites are unreachable (main loop stops at once). */
static spif_int32_t find_short_option(char opt) CONTRACT_find_short_option(opt != 0);
static spif_int32_t find_long_option(spif_charptr_t opt) CONTRACT_find_long_option;
static void handle_arglist(spif_int32_t n, spif_charptr_t val_ptr, unsigned char hasequal, spif_int32_t i, int argc, char *argv[])
CONTRACT_handle_arglist_rest(argc - i <= 65535);

void spifopt_parse(int argc, char *argv[])
__CPROVER_requires(2 <= argc && argc <= 0x7ffffff0 && __CPROVER_rw_ok(argv, ((size_t) argc + 1) * sizeof(char *)))
__CPROVER_requires((spifopt_settings.flags & SPIFOPT_SETTING_PREPARSE) == 0 && (spifopt_settings.flags & SPIFOPT_SETTING_REMOVE_ARGS) != 0)
__CPROVER_requires(argv[1] == NULL)          /* see file comment */
__CPROVER_requires(1 <= vg_k && vg_k <= vg_k2 && vg_k2 < (size_t) argc && 1 <= vg_n3 && vg_n3 < (size_t) argc)
__CPROVER_requires(argv[vg_k] == (char *) vg_old_ptr && argv[vg_k2] == (char *) vg_old_ptr2 && argv[0] == (char *) vg_prog)
__CPROVER_assigns(__CPROVER_object_whole(argv), vg_jk, vg_jk2, vg_src, vg_exit)
__CPROVER_ensures(1 <= vg_exit && vg_exit <= (size_t) argc)
__CPROVER_ensures(argv[0] == (char *) vg_prog)
/* terminated (for vg_exit == 1 nothing was stored: every word was NULL, in particular word 1) */
__CPROVER_ensures((vg_exit == 1 && vg_k != 1) || argv[vg_exit] == NULL)
/* nothing lost, order kept */
__CPROVER_ensures(!SURV_K || (1 <= vg_jk && vg_jk < vg_exit && argv[vg_jk] == (char *) vg_old_ptr))
__CPROVER_ensures(!SURV_K2 || (1 <= vg_jk2 && vg_jk2 < vg_exit && argv[vg_jk2] == (char *) vg_old_ptr2))
__CPROVER_ensures(!(vg_k < vg_k2 && SURV_K && SURV_K2) || vg_jk < vg_jk2)
/* nothing invented */
__CPROVER_ensures(!(vg_n3 < vg_exit) || (argv[vg_n3] != NULL && 1 <= vg_src && vg_src < (size_t) argc &&
                  (vg_src != vg_k || (SURV_K && vg_jk == vg_n3)) && (vg_src != vg_k2 || (SURV_K2 && vg_jk2 == vg_n3))))
/* settings untouched */
__CPROVER_ensures(spifopt_settings.flags == __CPROVER_old(spifopt_settings.flags))
;

void harness(void)
{
    int argc = nondet_int(); char **argv;
    vopt_env_init();
    __CPROVER_assume(2 <= argc && argc <= 0x7ffffff0);
    argv = malloc(((size_t) argc + 1) * sizeof(char *));
    __CPROVER_assume(1 <= vg_k && vg_k <= vg_k2 && vg_k2 < (size_t) argc && 1 <= vg_n3 && vg_n3 < (size_t) argc);
    argv[1] = NULL;
    vg_old_ptr = argv[vg_k]; vg_old_ptr2 = argv[vg_k2]; vg_prog = argv[0];
    w_argc = argc; w_k = vg_k; w_k2 = vg_k2; w_s = vg_n3;
    spifopt_parse(argc, argv);
    VERIF_CANARY();
}
