/* C08, tier B: spifopt_parse against an executable IDEAL READING of the command line.
 *
 * Bound: EVERY argument vector of 1 .. VB_ARGC-1 words whose words are taken from a token family (a
 * list of concrete words covering the spellings, below), the 9-entry table below, one of the four
 * {pre-parse, remove-args} settings per unit; the initial values of the boolean variable (low 32 bits)
 * and of the integer variable are symbolic.  The vectors are enumerated concretely by the harness
 * (cbmc executes them one after the other); units `parse.*` take argc <= 3, units `parse4.*`
 * (thorough tier) argc <= 4.  Inside the bound the check is exhaustive; outside it says nothing.
 * (Symbolic characters / symbolic word selection were probed first: cbmc's pointer encoding needs
 * > 30 GB already for one 3-character word.)  libc string functions are executable byte loops
 * (VOPT_CONCRETE), strtol is a decimal model, strings.c (--list=TEXT) is the real code.
 *
 * The reference reading (ref_parse) is written from the property statement:
 *   word not starting with '-', lone "-"  non-option word, untouched, survives removal
 *   --NAME  --NAME=VALUE  --NAME VALUE    NAME must equal a long name (case-insensitive)
 *   -xyz                                  letters left to right; a letter that takes a value ends the word:
 *   -xVALUE  -x VALUE                     the value is the rest of the word, else the next word
 *   boolean: the long form honours a boolean word given with '=' or as the next word (consumed); any other
 *            next word is not touched; the short form takes no value: it sets the bits.  Only mask bits change.
 *   integer / string: last occurrence wins; list: --e=TEXT splits TEXT into words, otherwise the list is the
 *            value plus the rest of the line and parsing stops; abstract: handler called with the value, or
 *            NULL when the next word is missing or a known option word
 *   options of the other pass: recognised and skipped exactly the same way, variables untouched
 *   removal (normal pass only): argv == program name, non-option words in order, NULL; otherwise argv untouched
 *   pre-parse flag cleared by the pre-parse pass; nothing else in the settings changes; bad_opts unchanged
 * Vectors with an unknown option, an empty long name or an option-looking candidate value of an abstract
 * option (class UNKNOWN) or with an option that needs a value as the last word (class MISSING) are irregular:
 * for them (and for every vector) memory safety, termination, "only mask bits of the boolean variable
 * change", "bad options are counted, not fatal" are required, plus at least one bad option.  A vector
 * belongs to a unit iff its class word is exactly the unit's (0 = regular).
 *
 * The small families SBV / ATT / EQE / PPL / DASH / MISS hold the spellings that used to hit the defects
 * C08-shortbool-swallow, -arglist-attached, -arglist-eq-overflow, -prepass-arglist, -lone-dash,
 * -missing-value-loop (all fixed); they are ordinary units now and must pass.
 */

/*@unit
name: parse.bool.pp0rm0
tier: B
native: self
define: TOK_BOOL, VB_ARGC=3, VB_PRE=0, VB_RM=0, CLS_WANT=0
src: options.c
bound: argc <= 3 (all 110 vectors of 1..2 words over the 10-token family BOOL), 9-entry table, setting pre-parse=0 remove-args=0, class 0; boolean/integer initial values symbolic
unwind: 102
objbits: 16
backend: sat
timeout: 300
mem: 12
*/
/*@unit
name: parse.bool.pp0rm1
tier: B
native: self
define: TOK_BOOL, VB_ARGC=3, VB_PRE=0, VB_RM=1, CLS_WANT=0
src: options.c
bound: argc <= 3 (all 110 vectors of 1..2 words over the 10-token family BOOL), 9-entry table, setting pre-parse=0 remove-args=1, class 0; boolean/integer initial values symbolic
unwind: 102
objbits: 16
backend: sat
timeout: 300
mem: 12
*/
/*@unit
name: parse.bool.pp1rm0
tier: B
native: self
define: TOK_BOOL, VB_ARGC=3, VB_PRE=1, VB_RM=0, CLS_WANT=0
src: options.c
bound: argc <= 3 (all 110 vectors of 1..2 words over the 10-token family BOOL), 9-entry table, setting pre-parse=1 remove-args=0, class 0; boolean/integer initial values symbolic
unwind: 102
objbits: 16
backend: sat
timeout: 300
mem: 12
*/
/*@unit
name: parse.bool.pp1rm1
tier: B
native: self
define: TOK_BOOL, VB_ARGC=3, VB_PRE=1, VB_RM=1, CLS_WANT=0
src: options.c
bound: argc <= 3 (all 110 vectors of 1..2 words over the 10-token family BOOL), 9-entry table, setting pre-parse=1 remove-args=1, class 0; boolean/integer initial values symbolic
unwind: 102
objbits: 16
backend: sat
timeout: 300
mem: 12
*/
/*@unit
name: parse.value.pp0rm0
tier: B
native: self
define: TOK_VALUE, VB_ARGC=3, VB_PRE=0, VB_RM=0, CLS_WANT=0
src: options.c
bound: argc <= 3 (all 110 vectors of 1..2 words over the 10-token family VALUE), 9-entry table, setting pre-parse=0 remove-args=0, class 0; boolean/integer initial values symbolic
unwind: 102
objbits: 16
backend: sat
timeout: 300
mem: 12
*/
/*@unit
name: parse.value.pp0rm1
tier: B
native: self
define: TOK_VALUE, VB_ARGC=3, VB_PRE=0, VB_RM=1, CLS_WANT=0
src: options.c
bound: argc <= 3 (all 110 vectors of 1..2 words over the 10-token family VALUE), 9-entry table, setting pre-parse=0 remove-args=1, class 0; boolean/integer initial values symbolic
unwind: 102
objbits: 16
backend: sat
timeout: 300
mem: 12
*/
/*@unit
name: parse.value.pp1rm0
tier: B
native: self
define: TOK_VALUE, VB_ARGC=3, VB_PRE=1, VB_RM=0, CLS_WANT=0
src: options.c
bound: argc <= 3 (all 110 vectors of 1..2 words over the 10-token family VALUE), 9-entry table, setting pre-parse=1 remove-args=0, class 0; boolean/integer initial values symbolic
unwind: 102
objbits: 16
backend: sat
timeout: 300
mem: 12
*/
/*@unit
name: parse.value.pp1rm1
tier: B
native: self
define: TOK_VALUE, VB_ARGC=3, VB_PRE=1, VB_RM=1, CLS_WANT=0
src: options.c
bound: argc <= 3 (all 110 vectors of 1..2 words over the 10-token family VALUE), 9-entry table, setting pre-parse=1 remove-args=1, class 0; boolean/integer initial values symbolic
unwind: 102
objbits: 16
backend: sat
timeout: 300
mem: 12
*/
/*@unit
name: parse.list.pp0rm0
tier: B
native: self
define: TOK_LIST, VB_ARGC=3, VB_PRE=0, VB_RM=0, CLS_WANT=0
src: options.c
bound: argc <= 3 (all 110 vectors of 1..2 words over the 10-token family LIST), 9-entry table, setting pre-parse=0 remove-args=0, class 0; boolean/integer initial values symbolic
unwind: 102
objbits: 16
backend: sat
timeout: 300
mem: 12
*/
/*@unit
name: parse.list.pp0rm1
tier: B
native: self
define: TOK_LIST, VB_ARGC=3, VB_PRE=0, VB_RM=1, CLS_WANT=0
src: options.c
bound: argc <= 3 (all 110 vectors of 1..2 words over the 10-token family LIST), 9-entry table, setting pre-parse=0 remove-args=1, class 0; boolean/integer initial values symbolic
unwind: 102
objbits: 16
backend: sat
timeout: 300
mem: 12
*/
/*@unit
name: parse.list.pp1rm0
tier: B
native: self
define: TOK_LIST, VB_ARGC=3, VB_PRE=1, VB_RM=0, CLS_WANT=0
src: options.c
bound: argc <= 3 (all 110 vectors of 1..2 words over the 10-token family LIST), 9-entry table, setting pre-parse=1 remove-args=0, class 0; boolean/integer initial values symbolic
unwind: 102
objbits: 16
backend: sat
timeout: 300
mem: 12
*/
/*@unit
name: parse.list.pp1rm1
tier: B
native: self
define: TOK_LIST, VB_ARGC=3, VB_PRE=1, VB_RM=1, CLS_WANT=0
src: options.c
bound: argc <= 3 (all 110 vectors of 1..2 words over the 10-token family LIST), 9-entry table, setting pre-parse=1 remove-args=1, class 0; boolean/integer initial values symbolic
unwind: 102
objbits: 16
backend: sat
timeout: 300
mem: 12
*/
/*@unit
name: parse.unknown.pp0rm0
tier: B
native: self
define: TOK_UNK, VB_ARGC=3, VB_PRE=0, VB_RM=0, CLS_WANT=CLS_UNKNOWN
src: options.c
bound: argc <= 3 (all 110 vectors of 1..2 words over the 10-token family UNK), 9-entry table, setting pre-parse=0 remove-args=0, class CLS_UNKNOWN; boolean/integer initial values symbolic
unwind: 102
objbits: 16
backend: sat
timeout: 300
mem: 12
*/
/*@unit
name: parse.unknown.pp0rm1
tier: B
native: self
define: TOK_UNK, VB_ARGC=3, VB_PRE=0, VB_RM=1, CLS_WANT=CLS_UNKNOWN
src: options.c
bound: argc <= 3 (all 110 vectors of 1..2 words over the 10-token family UNK), 9-entry table, setting pre-parse=0 remove-args=1, class CLS_UNKNOWN; boolean/integer initial values symbolic
unwind: 102
objbits: 16
backend: sat
timeout: 300
mem: 12
*/
/*@unit
name: parse.unknown.pp1rm0
tier: B
native: self
define: TOK_UNK, VB_ARGC=3, VB_PRE=1, VB_RM=0, CLS_WANT=CLS_UNKNOWN
src: options.c
bound: argc <= 3 (all 110 vectors of 1..2 words over the 10-token family UNK), 9-entry table, setting pre-parse=1 remove-args=0, class CLS_UNKNOWN; boolean/integer initial values symbolic
unwind: 102
objbits: 16
backend: sat
timeout: 300
mem: 12
*/
/*@unit
name: parse.unknown.pp1rm1
tier: B
native: self
define: TOK_UNK, VB_ARGC=3, VB_PRE=1, VB_RM=1, CLS_WANT=CLS_UNKNOWN
src: options.c
bound: argc <= 3 (all 110 vectors of 1..2 words over the 10-token family UNK), 9-entry table, setting pre-parse=1 remove-args=1, class CLS_UNKNOWN; boolean/integer initial values symbolic
unwind: 102
objbits: 16
backend: sat
timeout: 300
mem: 12
*/
/*@unit
name: parse.missing.pp0rm0
tier: B
native: self
define: TOK_MISS, VB_ARGC=3, VB_PRE=0, VB_RM=0, CLS_WANT=CLS_MISSING
src: options.c
bound: argc <= 3 (all 42 vectors of 1..2 words over the 6-token family MISS), 9-entry table, setting pre-parse=0 remove-args=0, class CLS_MISSING; boolean/integer initial values symbolic
unwind: 60
objbits: 16
backend: sat
timeout: 300
mem: 12
*/
/*@unit
name: parse.missing.pp0rm1
tier: B
native: self
define: TOK_MISS, VB_ARGC=3, VB_PRE=0, VB_RM=1, CLS_WANT=CLS_MISSING
src: options.c
bound: argc <= 3 (all 42 vectors of 1..2 words over the 6-token family MISS), 9-entry table, setting pre-parse=0 remove-args=1, class CLS_MISSING; boolean/integer initial values symbolic
unwind: 60
objbits: 16
backend: sat
timeout: 300
mem: 12
*/
/*@unit
name: parse.missing.pp1rm0
tier: B
native: self
define: TOK_MISS, VB_ARGC=3, VB_PRE=1, VB_RM=0, CLS_WANT=CLS_MISSING
src: options.c
bound: argc <= 3 (all 42 vectors of 1..2 words over the 6-token family MISS), 9-entry table, setting pre-parse=1 remove-args=0, class CLS_MISSING; boolean/integer initial values symbolic
unwind: 60
objbits: 16
backend: sat
timeout: 300
mem: 12
*/
/*@unit
name: parse.missing.pp1rm1
tier: B
native: self
define: TOK_MISS, VB_ARGC=3, VB_PRE=1, VB_RM=1, CLS_WANT=CLS_MISSING
src: options.c
bound: argc <= 3 (all 42 vectors of 1..2 words over the 6-token family MISS), 9-entry table, setting pre-parse=1 remove-args=1, class CLS_MISSING; boolean/integer initial values symbolic
unwind: 60
objbits: 16
backend: sat
timeout: 300
mem: 12
*/
/*@unit
name: parse.shortbool_val.pp0rm0
tier: B
native: self
define: TOK_SBV, VB_ARGC=3, VB_PRE=0, VB_RM=0, CLS_WANT=0
src: options.c
bound: argc <= 3 (all 42 vectors of 1..2 words over the 6-token family SBV), 9-entry table, setting pre-parse=0 remove-args=0, class 0; boolean/integer initial values symbolic
unwind: 38
objbits: 16
backend: sat
timeout: 300
mem: 12
*/
/*@unit
name: parse.shortbool_val.pp0rm1
tier: B
native: self
define: TOK_SBV, VB_ARGC=3, VB_PRE=0, VB_RM=1, CLS_WANT=0
src: options.c
bound: argc <= 3 (all 42 vectors of 1..2 words over the 6-token family SBV), 9-entry table, setting pre-parse=0 remove-args=1, class 0; boolean/integer initial values symbolic
unwind: 38
objbits: 16
backend: sat
timeout: 300
mem: 12
*/
/*@unit
name: parse.shortbool_val.pp1rm0
tier: B
native: self
define: TOK_SBV, VB_ARGC=3, VB_PRE=1, VB_RM=0, CLS_WANT=0
src: options.c
bound: argc <= 3 (all 42 vectors of 1..2 words over the 6-token family SBV), 9-entry table, setting pre-parse=1 remove-args=0, class 0; boolean/integer initial values symbolic
unwind: 38
objbits: 16
backend: sat
timeout: 300
mem: 12
*/
/*@unit
name: parse.shortbool_val.pp1rm1
tier: B
native: self
define: TOK_SBV, VB_ARGC=3, VB_PRE=1, VB_RM=1, CLS_WANT=0
src: options.c
bound: argc <= 3 (all 42 vectors of 1..2 words over the 6-token family SBV), 9-entry table, setting pre-parse=1 remove-args=1, class 0; boolean/integer initial values symbolic
unwind: 38
objbits: 16
backend: sat
timeout: 300
mem: 12
*/
/*@unit
name: parse.args_attached.pp0rm0
tier: B
native: self
define: TOK_ATT, VB_ARGC=3, VB_PRE=0, VB_RM=0, CLS_WANT=0
src: options.c
bound: argc <= 3 (all 20 vectors of 1..2 words over the 4-token family ATT), 9-entry table, setting pre-parse=0 remove-args=0, class 0; boolean/integer initial values symbolic
unwind: 18
objbits: 16
backend: sat
timeout: 300
mem: 12
*/
/*@unit
name: parse.args_attached.pp0rm1
tier: B
native: self
define: TOK_ATT, VB_ARGC=3, VB_PRE=0, VB_RM=1, CLS_WANT=0
src: options.c
bound: argc <= 3 (all 20 vectors of 1..2 words over the 4-token family ATT), 9-entry table, setting pre-parse=0 remove-args=1, class 0; boolean/integer initial values symbolic
unwind: 18
objbits: 16
backend: sat
timeout: 300
mem: 12
*/
/*@unit
name: parse.args_attached.pp1rm0
tier: B
native: self
define: TOK_ATT, VB_ARGC=3, VB_PRE=1, VB_RM=0, CLS_WANT=0
src: options.c
bound: argc <= 3 (all 20 vectors of 1..2 words over the 4-token family ATT), 9-entry table, setting pre-parse=1 remove-args=0, class 0; boolean/integer initial values symbolic
unwind: 18
objbits: 16
backend: sat
timeout: 300
mem: 12
*/
/*@unit
name: parse.args_attached.pp1rm1
tier: B
native: self
define: TOK_ATT, VB_ARGC=3, VB_PRE=1, VB_RM=1, CLS_WANT=0
src: options.c
bound: argc <= 3 (all 20 vectors of 1..2 words over the 4-token family ATT), 9-entry table, setting pre-parse=1 remove-args=1, class 0; boolean/integer initial values symbolic
unwind: 18
objbits: 16
backend: sat
timeout: 300
mem: 12
*/
/*@unit
name: parse.args_eq_empty.pp0rm0
tier: B
native: self
define: TOK_EQE, VB_ARGC=3, VB_PRE=0, VB_RM=0, CLS_WANT=0
src: options.c
bound: argc <= 3 (all 12 vectors of 1..2 words over the 3-token family EQE), 9-entry table, setting pre-parse=0 remove-args=0, class 0; boolean/integer initial values symbolic
unwind: 11
objbits: 16
backend: sat
timeout: 300
mem: 12
*/
/*@unit
name: parse.args_eq_empty.pp0rm1
tier: B
native: self
define: TOK_EQE, VB_ARGC=3, VB_PRE=0, VB_RM=1, CLS_WANT=0
src: options.c
bound: argc <= 3 (all 12 vectors of 1..2 words over the 3-token family EQE), 9-entry table, setting pre-parse=0 remove-args=1, class 0; boolean/integer initial values symbolic
unwind: 11
objbits: 16
backend: sat
timeout: 300
mem: 12
*/
/*@unit
name: parse.args_eq_empty.pp1rm0
tier: B
native: self
define: TOK_EQE, VB_ARGC=3, VB_PRE=1, VB_RM=0, CLS_WANT=0
src: options.c
bound: argc <= 3 (all 12 vectors of 1..2 words over the 3-token family EQE), 9-entry table, setting pre-parse=1 remove-args=0, class 0; boolean/integer initial values symbolic
unwind: 11
objbits: 16
backend: sat
timeout: 300
mem: 12
*/
/*@unit
name: parse.args_eq_empty.pp1rm1
tier: B
native: self
define: TOK_EQE, VB_ARGC=3, VB_PRE=1, VB_RM=1, CLS_WANT=0
src: options.c
bound: argc <= 3 (all 12 vectors of 1..2 words over the 3-token family EQE), 9-entry table, setting pre-parse=1 remove-args=1, class 0; boolean/integer initial values symbolic
unwind: 11
objbits: 16
backend: sat
timeout: 300
mem: 12
*/
/*@unit
name: parse.pp_list.pp0rm0
tier: B
native: self
define: TOK_PPL, VB_ARGC=3, VB_PRE=0, VB_RM=0, CLS_WANT=0
src: options.c
bound: argc <= 3 (all 30 vectors of 1..2 words over the 5-token family PPL), 9-entry table, setting pre-parse=0 remove-args=0, class 0; boolean/integer initial values symbolic
unwind: 27
objbits: 16
backend: sat
timeout: 300
mem: 12
*/
/*@unit
name: parse.pp_list.pp0rm1
tier: B
native: self
define: TOK_PPL, VB_ARGC=3, VB_PRE=0, VB_RM=1, CLS_WANT=0
src: options.c
bound: argc <= 3 (all 30 vectors of 1..2 words over the 5-token family PPL), 9-entry table, setting pre-parse=0 remove-args=1, class 0; boolean/integer initial values symbolic
unwind: 27
objbits: 16
backend: sat
timeout: 300
mem: 12
*/
/*@unit
name: parse.pp_list.pp1rm0
tier: B
native: self
define: TOK_PPL, VB_ARGC=3, VB_PRE=1, VB_RM=0, CLS_WANT=0
src: options.c
bound: argc <= 3 (all 30 vectors of 1..2 words over the 5-token family PPL), 9-entry table, setting pre-parse=1 remove-args=0, class 0; boolean/integer initial values symbolic
unwind: 27
objbits: 16
backend: sat
timeout: 300
mem: 12
*/
/*@unit
name: parse.pp_list.pp1rm1
tier: B
native: self
define: TOK_PPL, VB_ARGC=3, VB_PRE=1, VB_RM=1, CLS_WANT=0
src: options.c
bound: argc <= 3 (all 30 vectors of 1..2 words over the 5-token family PPL), 9-entry table, setting pre-parse=1 remove-args=1, class 0; boolean/integer initial values symbolic
unwind: 27
objbits: 16
backend: sat
timeout: 300
mem: 12
*/
/*@unit
name: parse.lone_dash.pp0rm0
tier: B
native: self
define: TOK_DASH, VB_ARGC=3, VB_PRE=0, VB_RM=0, CLS_WANT=0
src: options.c
bound: argc <= 3 (all 30 vectors of 1..2 words over the 5-token family DASH), 9-entry table, setting pre-parse=0 remove-args=0, class 0; boolean/integer initial values symbolic
unwind: 27
objbits: 16
backend: sat
timeout: 300
mem: 12
*/
/*@unit
name: parse.lone_dash.pp0rm1
tier: B
native: self
define: TOK_DASH, VB_ARGC=3, VB_PRE=0, VB_RM=1, CLS_WANT=0
src: options.c
bound: argc <= 3 (all 30 vectors of 1..2 words over the 5-token family DASH), 9-entry table, setting pre-parse=0 remove-args=1, class 0; boolean/integer initial values symbolic
unwind: 27
objbits: 16
backend: sat
timeout: 300
mem: 12
*/
/*@unit
name: parse.lone_dash.pp1rm0
tier: B
native: self
define: TOK_DASH, VB_ARGC=3, VB_PRE=1, VB_RM=0, CLS_WANT=0
src: options.c
bound: argc <= 3 (all 30 vectors of 1..2 words over the 5-token family DASH), 9-entry table, setting pre-parse=1 remove-args=0, class 0; boolean/integer initial values symbolic
unwind: 27
objbits: 16
backend: sat
timeout: 300
mem: 12
*/
/*@unit
name: parse.lone_dash.pp1rm1
tier: B
native: self
define: TOK_DASH, VB_ARGC=3, VB_PRE=1, VB_RM=1, CLS_WANT=0
src: options.c
bound: argc <= 3 (all 30 vectors of 1..2 words over the 5-token family DASH), 9-entry table, setting pre-parse=1 remove-args=1, class 0; boolean/integer initial values symbolic
unwind: 27
objbits: 16
backend: sat
timeout: 300
mem: 12
*/
/*@unit
name: parse4.bool.pp0rm0
tier: B
native: self
define: TOK_BOOL, VB_ARGC=4, VB_PRE=0, VB_RM=0, CLS_WANT=0
src: options.c
bound: argc <= 4 (all 1110 vectors of 1..3 words over the 10-token family BOOL), 9-entry table, setting pre-parse=0 remove-args=0, class 0; boolean/integer initial values symbolic
unwind: 1002
objbits: 16
backend: sat
timeout: 1800
mem: 12
quick: no
*/
/*@unit
name: parse4.bool.pp0rm1
tier: B
native: self
define: TOK_BOOL, VB_ARGC=4, VB_PRE=0, VB_RM=1, CLS_WANT=0
src: options.c
bound: argc <= 4 (all 1110 vectors of 1..3 words over the 10-token family BOOL), 9-entry table, setting pre-parse=0 remove-args=1, class 0; boolean/integer initial values symbolic
unwind: 1002
objbits: 16
backend: sat
timeout: 1800
mem: 12
quick: no
*/
/*@unit
name: parse4.bool.pp1rm0
tier: B
native: self
define: TOK_BOOL, VB_ARGC=4, VB_PRE=1, VB_RM=0, CLS_WANT=0
src: options.c
bound: argc <= 4 (all 1110 vectors of 1..3 words over the 10-token family BOOL), 9-entry table, setting pre-parse=1 remove-args=0, class 0; boolean/integer initial values symbolic
unwind: 1002
objbits: 16
backend: sat
timeout: 1800
mem: 12
quick: no
*/
/*@unit
name: parse4.bool.pp1rm1
tier: B
native: self
define: TOK_BOOL, VB_ARGC=4, VB_PRE=1, VB_RM=1, CLS_WANT=0
src: options.c
bound: argc <= 4 (all 1110 vectors of 1..3 words over the 10-token family BOOL), 9-entry table, setting pre-parse=1 remove-args=1, class 0; boolean/integer initial values symbolic
unwind: 1002
objbits: 16
backend: sat
timeout: 1800
mem: 12
quick: no
*/
/*@unit
name: parse4.value.pp0rm0
tier: B
native: self
define: TOK_VALUE, VB_ARGC=4, VB_PRE=0, VB_RM=0, CLS_WANT=0
src: options.c
bound: argc <= 4 (all 1110 vectors of 1..3 words over the 10-token family VALUE), 9-entry table, setting pre-parse=0 remove-args=0, class 0; boolean/integer initial values symbolic
unwind: 1002
objbits: 16
backend: sat
timeout: 1800
mem: 12
quick: no
*/
/*@unit
name: parse4.value.pp0rm1
tier: B
native: self
define: TOK_VALUE, VB_ARGC=4, VB_PRE=0, VB_RM=1, CLS_WANT=0
src: options.c
bound: argc <= 4 (all 1110 vectors of 1..3 words over the 10-token family VALUE), 9-entry table, setting pre-parse=0 remove-args=1, class 0; boolean/integer initial values symbolic
unwind: 1002
objbits: 16
backend: sat
timeout: 1800
mem: 12
quick: no
*/
/*@unit
name: parse4.value.pp1rm0
tier: B
native: self
define: TOK_VALUE, VB_ARGC=4, VB_PRE=1, VB_RM=0, CLS_WANT=0
src: options.c
bound: argc <= 4 (all 1110 vectors of 1..3 words over the 10-token family VALUE), 9-entry table, setting pre-parse=1 remove-args=0, class 0; boolean/integer initial values symbolic
unwind: 1002
objbits: 16
backend: sat
timeout: 1800
mem: 12
quick: no
*/
/*@unit
name: parse4.value.pp1rm1
tier: B
native: self
define: TOK_VALUE, VB_ARGC=4, VB_PRE=1, VB_RM=1, CLS_WANT=0
src: options.c
bound: argc <= 4 (all 1110 vectors of 1..3 words over the 10-token family VALUE), 9-entry table, setting pre-parse=1 remove-args=1, class 0; boolean/integer initial values symbolic
unwind: 1002
objbits: 16
backend: sat
timeout: 1800
mem: 12
quick: no
*/
/*@unit
name: parse4.list.pp0rm0
tier: B
native: self
define: TOK_LIST, VB_ARGC=4, VB_PRE=0, VB_RM=0, CLS_WANT=0
src: options.c
bound: argc <= 4 (all 1110 vectors of 1..3 words over the 10-token family LIST), 9-entry table, setting pre-parse=0 remove-args=0, class 0; boolean/integer initial values symbolic
unwind: 1002
objbits: 16
backend: sat
timeout: 1800
mem: 12
quick: no
*/
/*@unit
name: parse4.list.pp0rm1
tier: B
native: self
define: TOK_LIST, VB_ARGC=4, VB_PRE=0, VB_RM=1, CLS_WANT=0
src: options.c
bound: argc <= 4 (all 1110 vectors of 1..3 words over the 10-token family LIST), 9-entry table, setting pre-parse=0 remove-args=1, class 0; boolean/integer initial values symbolic
unwind: 1002
objbits: 16
backend: sat
timeout: 1800
mem: 12
quick: no
*/
/*@unit
name: parse4.list.pp1rm0
tier: B
native: self
define: TOK_LIST, VB_ARGC=4, VB_PRE=1, VB_RM=0, CLS_WANT=0
src: options.c
bound: argc <= 4 (all 1110 vectors of 1..3 words over the 10-token family LIST), 9-entry table, setting pre-parse=1 remove-args=0, class 0; boolean/integer initial values symbolic
unwind: 1002
objbits: 16
backend: sat
timeout: 1800
mem: 12
quick: no
*/
/*@unit
name: parse4.list.pp1rm1
tier: B
native: self
define: TOK_LIST, VB_ARGC=4, VB_PRE=1, VB_RM=1, CLS_WANT=0
src: options.c
bound: argc <= 4 (all 1110 vectors of 1..3 words over the 10-token family LIST), 9-entry table, setting pre-parse=1 remove-args=1, class 0; boolean/integer initial values symbolic
unwind: 1002
objbits: 16
backend: sat
timeout: 1800
mem: 12
quick: no
*/
#define VERIF_OWN_STRLEN
#define VERIF_OWN_STRCMP
#define VERIF_OWN_STRCHR
#define VERIF_OWN_STRDUP
#define VOPT_CONCRETE
#include "vprelude.h"
#include "env_options.h"
#ifndef VERIF_NATIVE
# define strtol vopt_strtol            /* cbmc: decimal model; native replay: the real strtol */
#endif
#include "rawsrc/options.c"            /* the real code, un-annotated copy (no loop contracts needed here) */
#undef strtol
#ifdef VERIF_NATIVE
/* native replay: the real strings.c is linked */
#elif defined(TOK_LIST) || defined(TOK_EQE)
/* the real word utilities, un-annotated (strings.c is not in this unit's `src:` list, so this resolves
 * to <repo>/src/strings.c; the loop-contract annotations other units inject are not wanted here) */
# include "src/strings.c"
#else
/* units whose token family has no --e=TEXT spelling never reach the word utilities */
spif_charptr_t spiftool_get_word(unsigned long i, const spif_charptr_t s) { __CPROVER_assert(0, "B: word utilities unreachable in this token family"); return (spif_charptr_t) 0; }
spif_charptr_t spiftool_get_pword(unsigned long i, const spif_charptr_t s) { __CPROVER_assert(0, "B: word utilities unreachable in this token family"); return (spif_charptr_t) 0; }
unsigned long spiftool_num_words(const spif_charptr_t s) { __CPROVER_assert(0, "B: word utilities unreachable in this token family"); return 0; }
#endif
#include "options.h"

#define CLS_UNKNOWN        1u
#define CLS_MISSING        32u

#define NW (VB_ARGC - 1)

/* ---- the table ------------------------------------------------------------------------- */
static unsigned long t_flags;
static int t_int;
static char *t_str, *t_pstr;
static char **t_args, **t_pargs;
#define M_A 0x01u
#define M_P 0x02u
#define M_L 0x04u
static spifopt_t tab[] = {
    SPIFOPT_BOOL('a', "a", "boolean", t_flags, M_A),
    SPIFOPT_BOOL_LONG("l", "boolean, long form only", t_flags, M_L),
    SPIFOPT_BOOL_PP('p', "p", "boolean, pre-parse", t_flags, M_P),
    SPIFOPT_INT('i', "i", "integer", t_int),
    SPIFOPT_STR('s', "s", "string", t_str),
    SPIFOPT_STR_PP('d', "d", "string, pre-parse", t_pstr),
    SPIFOPT_ARGS('e', "e", "list", t_args),
    SPIFOPT_ARGS_PP('E', "E", "list, pre-parse", t_pargs),
    SPIFOPT_ABST('t', "t", "abstract", vopt_abstract),
};
#define NTAB ((int) (sizeof(tab) / sizeof(tab[0])))

/* ---- the reference reading -------------------------------------------------------------- */
static unsigned r_cls;
static unsigned char r_pre, r_rm;               /* settings at entry */
static unsigned long r_flags;
static int r_int;
static const char *r_str, *r_pstr;              /* NULL: unchanged */
static int r_args_kind;                         /* 0 none, 1 --e=TEXT, 2 value + rest of line */
static int r_args_pp;                           /* the list went to the pre-parse list option */
static const char *r_args_first; static int r_args_next;
static unsigned long r_abst_calls; static const char *r_abst_last;
static unsigned char r_keep[VB_ARGC];
static int r_stop;

static int r_boolword(const char *v)            /* 1 true word, 0 false word, -1 neither */
{
    if (!v || !*v) return -1;
    if (!strcasecmp(v, "1") || !strcasecmp(v, "on") || !strcasecmp(v, "true") || !strcasecmp(v, "yes")) return 1;
    if (!strcasecmp(v, "0") || !strcasecmp(v, "off") || !strcasecmp(v, "false") || !strcasecmp(v, "no")) return 0;
    return -1;
}
static int r_find_short(char c)
{
    int j;
    if (!c) return -1;
    for (j = 0; j < NTAB; j++) if (tab[j].short_opt == c) return j;
    return -1;
}
static int r_find_long(const char *name, size_t nl)
{
    int j;
    for (j = 0; j < NTAB; j++)
        if (strlen((char *) tab[j].long_opt) == nl && !strncasecmp((char *) tab[j].long_opt, name, nl)) return j;
    return -1;
}
static int r_known_option_word(const char *w)
{
    if (w[0] != '-' || !w[1]) return 0;
    if (w[1] == '-') { size_t nl = 0; while (w[2 + nl] && w[2 + nl] != '=') nl++; return r_find_long(w + 2, nl) >= 0; }
    return r_find_short(w[1]) >= 0;
}
static int r_pass(int j) { return ((tab[j].flags & SPIFOPT_FLAG_PREPARSE) != 0) == (r_pre != 0); }

/* option j with candidate value val; returns 1 when the next word was consumed as the value */
static int r_apply(int j, const char *val, int haseq, int from_next, int islong, int i, int argc)
{
    unsigned f = tab[j].flags;
    if (f & SPIFOPT_FLAG_BOOLEAN) {
        int bw = islong ? r_boolword(val) : -1;
        if (r_pass(j)) {
            if (bw == 0) r_flags &= ~(unsigned long) tab[j].mask; else r_flags |= (unsigned long) tab[j].mask;
        }
        return (bw >= 0) ? from_next : 0;
    }
    if (f & (SPIFOPT_FLAG_INTEGER | SPIFOPT_FLAG_STRING)) {
        if (!val) { r_cls |= CLS_MISSING; return 0; }
        if (r_pass(j)) {
            if (f & SPIFOPT_FLAG_INTEGER) r_int = (int) vopt_strtol(val, (char **) 0, 0);
            else if (tab[j].value == (void *) &t_str) r_str = val; else r_pstr = val;
        }
        return from_next;
    }
    if (f & SPIFOPT_FLAG_ARGLIST) {
        if (!val) { r_cls |= CLS_MISSING; return 0; }
        if (haseq) {
            if (r_pass(j)) { r_args_kind = 1; r_args_first = val; r_args_pp = (f & SPIFOPT_FLAG_PREPARSE) != 0; }
            return 0;
        }
        if (r_pass(j)) { r_args_kind = 2; r_args_first = val; r_args_next = from_next ? i + 2 : i + 1; r_args_pp = (f & SPIFOPT_FLAG_PREPARSE) != 0; }
        r_stop = 1;                              /* the rest of the line belongs to the list */
        return from_next;
    }
    /* abstract: value optional; a next word that is itself a known option word is not the value */
    if (val && val[0] == '-') {
        if (!haseq && r_known_option_word(val)) { val = (const char *) 0; from_next = 0; }
        else { r_cls |= CLS_UNKNOWN; val = (const char *) 0; from_next = 0; }
    }
    if (r_pass(j)) { r_abst_calls++; r_abst_last = val; }
    return val ? from_next : 0;
}

static void ref_parse(int argc, char **av)
{
    int i = 1;
    while (i < argc && !r_stop) {
        const char *w = av[i];
        if (w[0] != '-') { r_keep[i] = 1; i++; continue; }
        if (w[1] == 0) { r_keep[i] = 1; i++; continue; }          /* a lone "-" is a non-option word */
        if (w[1] == '-') {
            const char *name = w + 2; size_t nl = 0; const char *val = (const char *) 0; int from_next = 0, haseq, j;
            while (name[nl] && name[nl] != '=') nl++;
            j = r_find_long(name, nl);
            if (j < 0) { r_cls |= CLS_UNKNOWN; i++; continue; }
            haseq = (name[nl] == '=');
            if (haseq) val = name + nl + 1; else if (i + 1 < argc) { val = av[i + 1]; from_next = 1; }
            i += 1 + r_apply(j, val, haseq, from_next, 1, i, argc);
            continue;
        }
        {
            size_t p = 1; int used_next = 0;
            while (w[p]) {
                int j = r_find_short(w[p]);
                const char *val = (const char *) 0; int from_next = 0;
                if (j < 0) { r_cls |= CLS_UNKNOWN; p++; continue; }
                if (w[p + 1]) val = w + p + 1; else if (i + 1 < argc) { val = av[i + 1]; from_next = 1; }
                if (tab[j].flags & SPIFOPT_FLAG_BOOLEAN) {
                    r_apply(j, (const char *) 0, 0, 0, 0, i, argc);
                    p++; continue;
                }
                used_next = r_apply(j, val, 0, from_next, 0, i, argc);
                break;
            }
            i += 1 + used_next;
        }
    }
}

/* ---- harness ------------------------------------------------------------------------------ */
static char prog[2] = "P";
static char *av[VB_ARGC + 1], *av0[VB_ARGC + 1];
int w_argc; long w_vec, w_nvec;

/* the token alphabet: every word of the vector is one of these (family selected by the unit) */
static char *const TOK[] = {
#if defined(TOK_BOOL)      /* booleans: short, bundled, long, long-only, pre-parse, =WORD, next-word WORD, case */
    "f", "no", "-a", "-ap", "--a", "--l", "--p", "--a=no", "--p=on", "--A",
#elif defined(TOK_VALUE)   /* integer / string (normal and pre-parse): -xV, -x V, --n=V, --n V, bundle ending in a value letter */
    "f", "-a", "-i1", "-s", "-sf", "-df", "--i", "--s=f", "--d", "-ai",
#elif defined(TOK_LIST)    /* list and abstract options */
    "f", "g", "-a", "-e", "--e", "--e=f", "-t", "-tf", "--t", "--t=f",
#elif defined(TOK_UNK)     /* unknown options, option-looking abstract values, empty long name */
    "f", "-a", "-x", "-ax", "--a.f", "--x", "--", "-t", "--t", "--x=f",
#elif defined(TOK_MISS)    /* an option that needs a value as the last word */
    "f", "-a", "-i", "--s", "-e", "-ai",
#elif defined(TOK_SBV)     /* short boolean followed by a boolean word */
    "f", "-a", "-a1", "on", "0", "-p",
#elif defined(TOK_ATT)     /* list option spelled -eVALUE */
    "f", "-a", "-ef", "-aef",
#elif defined(TOK_EQE)     /* list option spelled --e= */
    "f", "-a", "--e=",
#elif defined(TOK_PPL)     /* pre-parse list option */
    "f", "g", "-a", "-E", "--E",
#elif defined(TOK_DASH)    /* the lone dash: an ordinary word (also as the value of a string option) */
    "-", "f", "-a", "--l", "-s",
#else
# error "token family not selected"
#endif
};
#define NTOK ((int) (sizeof(TOK) / sizeof(TOK[0])))

static int str_eq(const char *a, const char *b) { return a && b && !strcmp(a, b); }

static unsigned long f0; static int i0;

/* one vector: av[0..argc] is set up; run the reference and the parser, compare */
static void one_vector(int argc)
{
    int k, n;
    for (k = 0; k <= VB_ARGC; k++) av0[k] = av[k];
    /* settings and targets */
    r_pre = VB_PRE; r_rm = VB_RM;
    spifopt_settings.opt_list = tab; spifopt_settings.num_opts = NTAB;
    spifopt_settings.flags = (r_pre ? SPIFOPT_SETTING_PREPARSE : 0) | (r_rm ? SPIFOPT_SETTING_REMOVE_ARGS : 0);
    spifopt_settings.bad_opts = 0; spifopt_settings.allow_bad = 255; spifopt_settings.help_handler = vopt_help;
    t_flags = f0; t_int = i0; t_str = t_pstr = (char *) 0; t_args = t_pargs = (char **) 0;
    vg_abst_calls = 0; vg_abst_arg = (const char *) 0; vg_help_calls = 0;

    /* the reference reading */
    r_cls = 0; r_flags = f0; r_int = i0; r_str = r_pstr = (const char *) 0; r_args_kind = 0; r_args_pp = 0; r_abst_calls = 0;
    r_abst_last = (const char *) 0; r_stop = 0;
    for (k = 0; k < VB_ARGC; k++) r_keep[k] = 0;
    ref_parse(argc, av0);
    if (r_cls != (CLS_WANT)) return;          /* another unit's class */
    w_nvec++;
#ifdef VERIF_NATIVE
    { int q; fprintf(stderr, "vector:"); for (q = 1; q < argc; q++) fprintf(stderr, " %s", av[q]); fprintf(stderr, "\n"); }   /* the last one printed is the failing one */
#endif

    spifopt_parse(argc, av);

    /* ---- required of every vector ------------------------------------------------------- */
    __CPROVER_assert(((t_flags ^ f0) & ~(unsigned long) (M_A | M_P | M_L)) == 0, "B: only mask bits of the boolean variable change");
    __CPROVER_assert(spifopt_settings.flags == (r_rm ? SPIFOPT_SETTING_REMOVE_ARGS : 0), "B: pre-parse flag cleared, remove-args flag kept");
    __CPROVER_assert(vg_help_calls == 0, "B: bad options below the limit are counted, not fatal");
#if (CLS_WANT) & (CLS_UNKNOWN | CLS_MISSING)
    __CPROVER_assert(spifopt_settings.bad_opts >= 1, "B: an irregular vector is counted as (at least one) bad option");
#else
    /* ---- required of regular vectors: the ideal reading ------------------------------------ */
    __CPROVER_assert(spifopt_settings.bad_opts == 0, "B: no bad option counted for a regular vector");
    __CPROVER_assert(t_flags == r_flags, "B: boolean variable has the value the command line says");
    __CPROVER_assert(t_int == r_int, "B: integer variable has the value the command line says");
    __CPROVER_assert(r_str ? str_eq(t_str, r_str) : t_str == (char *) 0, "B: string variable has the value the command line says");
    __CPROVER_assert(r_pstr ? str_eq(t_pstr, r_pstr) : t_pstr == (char *) 0, "B: pre-parse string variable has the value the command line says");
    __CPROVER_assert(vg_abst_calls == r_abst_calls && (r_abst_calls == 0 || vg_abst_arg == r_abst_last), "B: abstract handler called as the command line says");
    if (r_args_kind == 0) {
        __CPROVER_assert(t_args == (char **) 0 && t_pargs == (char **) 0, "B: list variables untouched");
    } else {
        char **lst = r_args_pp ? t_pargs : t_args;
        __CPROVER_assert((r_args_pp ? t_args : t_pargs) == (char **) 0, "B: the other list variable untouched");
        __CPROVER_assert(lst != (char **) 0, "B: list variable assigned");
        if (lst) {
            n = 0;
            if (r_args_kind == 1) {
                if (*r_args_first) { __CPROVER_assert(str_eq(lst[0], r_args_first), "B: list from --e=TEXT holds TEXT's word"); n = 1; }
            } else {
                __CPROVER_assert(str_eq(lst[0], r_args_first), "B: list starts with the value");
                n = 1;
                for (k = r_args_next; k < argc; k++) { __CPROVER_assert(str_eq(lst[n], av0[k]), "B: list continues with the rest of the line, in order"); n++; }
            }
            __CPROVER_assert(lst[n] == (char *) 0, "B: list NULL-terminated after exactly the expected entries");
        }
    }
    /* argv */
    if (r_rm && !r_pre) {
        n = 1;
        for (k = 1; k < argc; k++) if (r_keep[k]) { __CPROVER_assert(av[n] == av0[k], "B: with removal argv is the program name followed by the non-option words in order"); n++; }
        __CPROVER_assert(av[0] == prog && av[n] == (char *) 0, "B: with removal argv is NULL-terminated right after the non-option words");
    } else {
        for (k = 0; k <= argc; k++) __CPROVER_assert(av[k] == av0[k], "B: without removal (or in the pre-parse pass) argv is untouched");
    }
#endif
}

/* Every vector of 1 .. VB_ARGC-1 words over the token family is enumerated CONCRETELY (cbmc executes
 * the loops with constant conditions); only the initial values of the boolean and integer targets
 * are symbolic.  (Symbolic words/selection made cbmc's pointer encoding explode: probed, > 30 GB.) */
void harness(void)
{
    int argc, k;
    long v, total;
    vopt_env_init();
    libast_debug_level = 0;      /* debug output off (D_OPTIONS only prints; C20 covers the macros) */
    f0 = VND(ulong, f0); __CPROVER_assume(f0 <= 0xffffffffUL);
    i0 = VND(int, i0);
    w_nvec = 0;
    for (argc = 2; argc <= VB_ARGC; argc++) {
        total = 1;
        for (k = 1; k < argc; k++) total *= NTOK;
        for (v = 0; v < total; v++) {
            long r = v;
            av[0] = prog;
            for (k = 1; k <= VB_ARGC; k++) av[k] = (char *) 0;
            for (k = 1; k < argc; k++) { av[k] = TOK[r % NTOK]; r /= NTOK; }
            w_argc = argc; w_vec = v;
            one_vector(argc);
        }
    }
    __CPROVER_assert(w_nvec > 0, "B: the unit's class is not empty in this token family");
    VERIF_CANARY();
}
