/* C08: value discovery and the two classifiers.
 *   find_value_long : text after the first '=' of the word (hasequal = 1), else the next word (hasequal = 0)
 *   find_value_short: rest of the word after the option letter if there is one, else the next word
 *   is_boolean_value: TRUE exactly for a non-empty value that spells one of the eight boolean words
 *   is_valid_option : TRUE only for "-x" / "--name" words that the lookups find; FALSE for a word that does
 *                     not start with '-' WITHOUT counting a bad option; unit .dash: the lone "-" (looked up as
 *                     the NUL letter, never found: FALSE and one bad option)
 * All loop-free; strings have arbitrary (ghost) length. */

/*@unit
name: find_value_long
define: U_FVL
src: options.c
native: options
native_includes: options.c
enforce: find_value_long
backend: sat
timeout: 120
*/
/*@unit
name: find_value_short
define: U_FVS
src: options.c
native: options
native_includes: options.c
enforce: find_value_short
backend: sat
timeout: 120
*/
/*@unit
name: is_boolean_value
define: U_ISBOOL
src: options.c
native: options
native_includes: options.c
enforce: is_boolean_value
backend: sat
timeout: 120
*/
/*@unit
name: is_valid_option
define: U_ISVALID
src: options.c
native: options
native_includes: options.c
enforce: is_valid_option
replace: find_long_option, find_short_option
backend: sat
timeout: 120
*/
/*@unit
name: is_valid_option.dash
define: U_ISVALID, U_DASH
src: options.c
native: options
native_includes: options.c
enforce: is_valid_option
replace: find_long_option, find_short_option
backend: sat
timeout: 120
*/
#define VERIF_OWN_STRLEN
#define VERIF_OWN_STRCMP
#define VERIF_OWN_STRCHR
#define VERIF_OWN_STRDUP
#include "vprelude.h"
#include "env_options.h"
#include "src/options.c"
#include "options.h"

long w_n1, w_eq, w_off, w_word;

#ifdef U_FVL
static spif_charptr_t find_value_long(spif_charptr_t arg, spif_charptr_t next_arg, spif_charptr_t hasequal)
__CPROVER_requires(VOPT_STR_OK(arg, vg_n1) && vg_p1 == (const char *) arg)
__CPROVER_requires(!(vg_eq < vg_n1) || arg[vg_eq] == '=')
__CPROVER_requires(__CPROVER_w_ok(hasequal, 1))
__CPROVER_assigns(*hasequal)
__CPROVER_ensures(!(vg_eq < vg_n1) || (__CPROVER_return_value == arg + vg_eq + 1 && *hasequal == 1))
__CPROVER_ensures((vg_eq < vg_n1) || (__CPROVER_return_value == next_arg && *hasequal == 0))
;
void harness(void)
{
    spif_charptr_t arg, next = nondet_ptr(); spif_char_t he = nondet_char();
    vopt_env_init();
    __CPROVER_assume(vg_n1 <= VCAP && vg_eq <= VCAP + 1);
    VOPT_MK_STR(arg, vg_n1); vg_p1 = (const char *) arg;
    if (vg_eq < vg_n1) arg[vg_eq] = '=';
    w_n1 = vg_n1; w_eq = vg_eq;
    find_value_long(arg, next, &he);
    VERIF_CANARY();
}
#endif

#ifdef U_FVS
/* arg points at the option LETTER (a non-NUL character) inside a word */
static spif_charptr_t find_value_short(spif_charptr_t arg, spif_charptr_t next_arg)
__CPROVER_requires(__CPROVER_r_ok(arg, 2) && arg[0] != 0)
__CPROVER_assigns()
__CPROVER_ensures(__CPROVER_return_value == (arg[1] ? arg + 1 : next_arg))
;
void harness(void)
{
    spif_charptr_t w, next = nondet_ptr(); size_t off = nondet_size_t();
    vopt_env_init();
    __CPROVER_assume(vg_n1 <= VCAP && off < vg_n1);
    VOPT_MK_STR(w, vg_n1);
    __CPROVER_assume(w[off] != 0);      /* exactness of the word, instantiated at the letter */
    w_n1 = vg_n1; w_off = off;
    find_value_short(w + off, next);
    VERIF_CANARY();
}
#endif

#ifdef U_ISBOOL
static spif_bool_t is_boolean_value(spif_charptr_t val_ptr)
__CPROVER_requires(val_ptr == NULL || (VOPT_STR_OK(val_ptr, vg_n1) && vg_p1 == (const char *) val_ptr))
__CPROVER_requires(vg_word <= 8)
__CPROVER_assigns()
__CPROVER_ensures(__CPROVER_return_value == ((val_ptr != NULL && vg_n1 > 0 && vg_word < 8) ? TRUE : FALSE))
;
void harness(void)
{
    spif_charptr_t v;
    vopt_env_init();
    __CPROVER_assume(vg_n1 <= VCAP && vg_word <= 8);
    VOPT_MK_STR(v, vg_n1); vg_p1 = (const char *) v;
    __CPROVER_assume(vg_n1 == 0 || v[0] != 0);    /* exactness instantiated at position 0 */
    __CPROVER_assume(vg_n1 > 0 || vg_word == 8);  /* the empty string spells no boolean word */
    if (nondet_bool()) { v = NULL; vg_p1 = NULL; }
    w_n1 = vg_n1; w_word = vg_word;
    is_boolean_value(v);
    VERIF_CANARY();
}
#endif

#ifdef U_ISVALID
/* contracts of the two callees (proved in lookup.c) */
static spif_int32_t find_short_option(char opt) CONTRACT_find_short_option(1);
static spif_int32_t find_long_option(spif_charptr_t opt) CONTRACT_find_long_option;
/* the word: vg_n3 characters; registered string 1 is its tail after "--" (length vg_n1 = vg_n3 - 2) */
#define W_LONG_MATCH_K (vg_cmp == 0 && vg_n2 <= vg_n1 && (opt[2 + vg_n2] == '=' || opt[2 + vg_n2] == 0))
static spif_bool_t is_valid_option(spif_charptr_t opt)
__CPROVER_requires(OPTTAB_INV && OPT_HELP_INV)
__CPROVER_requires(VOPT_STR_OK(opt, vg_n3) && (vg_n3 < 1 || opt[0] != 0) && (vg_n3 < 2 || opt[1] != 0))
__CPROVER_requires(vg_n3 < 2 || (vg_n1 == vg_n3 - 2 && vg_p1 == (const char *) opt + 2))
__CPROVER_requires(!((long) vg_k < OPT_N) || (VOPT_STR_OK(vg_p2, vg_n2) && vg_p2 == (const char *) OPT_TAB[vg_k].long_opt))
__CPROVER_requires((long) vg_k < OPT_N || vg_p2 == NULL)
#ifdef U_DASH
__CPROVER_requires(vg_n3 == 1 && opt[0] == '-')      /* the lone "-" */
#else
__CPROVER_requires(!(vg_n3 == 1 && opt[0] == '-'))
#endif
__CPROVER_assigns(spifopt_settings.bad_opts, vg_help_calls, vg_lastp, vg_lastn)
__CPROVER_ensures(__CPROVER_return_value == TRUE || __CPROVER_return_value == FALSE)
/* not an option word: FALSE and nothing counted */
__CPROVER_ensures(opt[0] == '-' || (__CPROVER_return_value == FALSE &&
                  OPT_NO_BAD(__CPROVER_old(spifopt_settings.bad_opts), __CPROVER_old(vg_help_calls))))
/* TRUE: an option word, nothing counted */
__CPROVER_ensures(__CPROVER_return_value != TRUE || (opt[0] == '-' &&
                  OPT_NO_BAD(__CPROVER_old(spifopt_settings.bad_opts), __CPROVER_old(vg_help_calls))))
/* FALSE for an option word: no table entry matches it (ghost index), exactly one bad option */
__CPROVER_ensures(!(__CPROVER_return_value == FALSE && opt[0] == '-') ||
                  (OPT_ONE_BAD(__CPROVER_old(spifopt_settings.bad_opts), __CPROVER_old(vg_help_calls)) &&
                   (!((long) vg_k < OPT_N) ||
                    (opt[1] == '-' ? !W_LONG_MATCH_K : (OPT_TAB[vg_k].short_opt != opt[1] || opt[1] == 0)))))
;
void harness(void)
{
    spif_charptr_t w;
    vopt_env_init();
    __CPROVER_assume(vg_k <= 65536 && vg_n3 <= VCAP && vg_n2 <= VCAP);
    VOPT_MK_TABLE();
    VOPT_MK_STR(w, vg_n3);
    vg_p1 = NULL;
    if (vg_n3 >= 2) { vg_p1 = (const char *) w + 2; vg_n1 = vg_n3 - 2; }
    vg_p2 = NULL;
    if ((long) vg_k < OPT_N) {
        char *nm; VOPT_MK_STR(nm, vg_n2);
        OPT_TAB[vg_k].long_opt = (spif_charptr_t) nm; vg_p2 = nm;
    }
    w_n1 = vg_n3;
    is_valid_option(w);
    VERIF_CANARY();
}
#endif
