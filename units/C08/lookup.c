/* C08: option lookup.  find_short_option / find_long_option return the FIRST table index
 * whose short / long form matches, or -1 after counting exactly one bad option; for every
 * table size a 16-bit count can express.  "First"/"none" are stated through the ghost index
 * vg_k (arbitrary, hence universally quantified). */

/*@unit
name: find_short_option
define: U_FIND_SHORT
src: options.c
native: options
native_includes: options.c
enforce: find_short_option
giflags: --restrict-function-pointer find_short_option.function_pointer_call.1/vopt_help
backend: sat
loops: 1
timeout: 120
*/
/*@unit
name: find_short_option.nul
define: U_FIND_SHORT, U_NUL
src: options.c
native: options
native_includes: options.c
enforce: find_short_option
giflags: --restrict-function-pointer find_short_option.function_pointer_call.1/vopt_help
backend: sat
loops: 1
timeout: 120
*/
/*@unit
name: find_long_option
define: U_FIND_LONG, VOPT_UNREGISTERED_STRINGS_ASSUMED
src: options.c
native: options
native_includes: options.c
enforce: find_long_option
giflags: --restrict-function-pointer find_long_option.function_pointer_call.1/vopt_help
backend: sat
loops: 1
timeout: 120
*/
#define VERIF_OWN_STRLEN
#define VERIF_OWN_STRCMP
#define VERIF_OWN_STRCHR
#define VERIF_OWN_STRDUP
#include "vprelude.h"
#include "env_options.h"
#include "src/options.c"
#include "options.h"

long w_n, w_k, w_bad, w_allow; int w_opt;

#ifdef U_FIND_SHORT
/* A short option letter is a non-NUL character: entries WITHOUT a short form carry
 * short_opt == 0 and must never be found.  Unit .nul asks for the NUL "letter" (is_valid_option
 * does that for a lone "-"): not found, one bad option. */
#ifdef U_NUL
static spif_int32_t find_short_option(char opt) CONTRACT_find_short_option(opt == 0)
#else
static spif_int32_t find_short_option(char opt) CONTRACT_find_short_option(opt != 0)
#endif
;
void harness(void)
{
    char opt = nondet_char();
    vopt_env_init();
    __CPROVER_assume(vg_k <= 65536);
    VOPT_MK_TABLE();
    w_n = OPT_N; w_k = vg_k; w_bad = spifopt_settings.bad_opts; w_allow = spifopt_settings.allow_bad; w_opt = opt;
    find_short_option(opt);
    VERIF_CANARY();
}
#endif

#ifdef U_FIND_LONG
/* opt: registered string 1 (exact length vg_n1).  The table entry with ghost index vg_k has a
 * real long name: registered string 2 (exact length vg_n2); vg_cmp is the outcome of comparing
 * the two (see env_options.h).  Entry vg_k matches iff its name equals the first vg_n2
 * characters of opt and opt continues with '=' or ends there.
 * (The harness allocates the strings and ASSIGNS the ghost pointers: cbmc dereferences by
 * points-to sets, an assumed equality with an is_fresh pointer would not be followed.) */
static spif_int32_t find_long_option(spif_charptr_t opt) CONTRACT_find_long_option
;
void harness(void)
{
    spif_charptr_t opt;
    vopt_env_init();
    __CPROVER_assume(vg_k <= 65536 && vg_n1 <= VCAP && vg_n2 <= VCAP);
    VOPT_MK_TABLE();
    VOPT_MK_STR(opt, vg_n1); vg_p1 = (const char *) opt;
    vg_p2 = NULL;
    if ((long) vg_k < OPT_N) {
        char *nm; VOPT_MK_STR(nm, vg_n2);
        OPT_TAB[vg_k].long_opt = (spif_charptr_t) nm; vg_p2 = nm;
    }
    w_n = OPT_N; w_k = vg_k; w_bad = spifopt_settings.bad_opts; w_allow = spifopt_settings.allow_bad;
    find_long_option(opt);
    VERIF_CANARY();
}
#endif
