/* Native replay of the C08 contract (tier P) units, owner `options`.
 *
 * The contract units work on tables / strings / argument vectors of arbitrary (symbolic) size whose
 * CONTENTS live in objects the harness allocates; only scalars of the failing pre-state reach the witness
 * (table size, letter, counters, masks, flags, lengths: the harnesses record them in w_* globals and in
 * the vg_* ghosts).  Each section below therefore
 *   (a) rebuilds a pre-state from the witness scalars where that is possible (capped sizes), and
 *   (b) sweeps a fixed family of small real tables / words / vectors around it,
 * calls the REAL static function of options.c (included: unit field native_includes: options.c) and
 * re-evaluates the unit's postcondition with an independent plain-C oracle.  Every word is an exact-size
 * heap block, so ASan judges the memory-safety obligations.
 * Exit 3 = an obligation is false on the real code, sanitizer report = memory obligation false,
 * 0 = not reproduced.  The unit's `define:` flags select the section. */
#include <libast_internal.h>
#include <limits.h>
#include "vnative.h"
#include "rawsrc/options.c"          /* the un-annotated copy of the checked tree's options.c (scratch dir) */

#define FAILS(msg) do { fprintf(stderr, "NATIVE-REPLAY: obligation fails on the real code: %s\n", msg); exit(3); } while (0)

static unsigned long help_calls;
static void my_help(void) { help_calls++; }
static unsigned long abst_calls;
static void my_abst(spif_charptr_t v) { abst_calls++; }

static char *hs(const char *s)                    /* exact-size heap copy */
{
    size_t n = strlen(s) + 1; char *p = malloc(n); memcpy(p, s, n); return p;
}
static long bad_next(long old) { return old < 255 ? old + 1 : 255; }
/* one CHECK_BAD happened / none happened */
static int one_bad(long old_bad, unsigned long old_help)
{
    long nb = bad_next(old_bad);
    return spifopt_settings.bad_opts == nb && help_calls == old_help + (nb > (long) spifopt_settings.allow_bad ? 1 : 0);
}
static int no_bad(long old_bad, unsigned long old_help)
{
    return spifopt_settings.bad_opts == old_bad && help_calls == old_help;
}
static void settings(spifopt_t *tab, int n, long bad, long allow, unsigned flags)
{
    spifopt_settings.opt_list = tab; spifopt_settings.num_opts = (spif_uint16_t) n;
    spifopt_settings.bad_opts = (spif_uint8_t) bad; spifopt_settings.allow_bad = (spif_uint8_t) allow;
    spifopt_settings.flags = (spif_uint8_t) flags; spifopt_settings.help_handler = my_help;
}
static int ci_eq_n(const char *a, const char *b, size_t n) { return strncasecmp(a, b, n) == 0; }

/* ---------------------------------------------------------------------------------------------- */
#if defined(U_FIND_SHORT) || defined(U_WRAP)
static int oracle_short(spifopt_t *tab, int n, char c)
{
    int j;
    if (!c) return -1;
    for (j = 0; j < n; j++) if (tab[j].short_opt == c) return j;
    return -1;
}
static void try_short(spifopt_t *tab, int n, char c, long bad, long allow)
{
    long ob; unsigned long oh; int r, e;
    settings(tab, n, bad, allow, 0);
    ob = spifopt_settings.bad_opts; oh = help_calls;
    r = find_short_option(c);
    e = oracle_short(tab, n, c);
    if (r != e) FAILS("find_short_option: result is the first entry whose (non-NUL) short form matches, else -1");
    if (r == -1 ? !one_bad(ob, oh) : !no_bad(ob, oh)) FAILS("find_short_option: exactly one bad option iff nothing was found");
}
int main(void)
{
    static const char L[] = { 0, 'a', 'b' };
    long wn = vn_get("w_n", 3), wbad = vn_get("w_bad", 0), wallow = vn_get("w_allow", 0);
    char wopt = (char) vn_get("w_opt", 'a');
    long bads[] = { wbad & 255, 0, 254, 255 }, allows[] = { wallow & 255, 0, 255 };
    char opts[] = { wopt, 0, 'a', 'b', 'c' };
    int n, code, k, a, b, o;
#ifdef U_WRAP
    bads[0] = bads[1] = bads[2] = 255;
#endif
    for (n = 0; n <= 4; n++) {
        int combos = 1; for (k = 0; k < n; k++) combos *= 3;
        for (code = 0; code < combos; code++) {
            spifopt_t *tab = calloc(n ? n : 1, sizeof(spifopt_t)); int c = code;
            for (k = 0; k < n; k++) { tab[k].short_opt = L[c % 3]; c /= 3; tab[k].long_opt = (spif_charptr_t) "x"; }
            for (o = 0; o < 5; o++) for (b = 0; b < 4; b++) for (a = 0; a < 3; a++) try_short(tab, n, opts[o], bads[b], allows[a]);
            free(tab);
        }
    }
    /* a table of the witness size (capped), the witness letter somewhere behind entries without short form */
    if (wn > 0) {
        int N = wn > 4096 ? 4096 : (int) wn; spifopt_t *tab = calloc(N, sizeof(spifopt_t));
        for (k = 0; k < N; k++) tab[k].long_opt = (spif_charptr_t) "x";
        try_short(tab, N, wopt, bads[0], allows[0]);
        tab[N - 1].short_opt = wopt ? wopt : 'q';
        try_short(tab, N, wopt, bads[0], allows[0]);
        free(tab);
    }
    return 0;
}

/* ---------------------------------------------------------------------------------------------- */
#elif defined(U_FIND_LONG)
static int oracle_long(spifopt_t *tab, int n, const char *opt)
{
    int j;
    for (j = 0; j < n; j++) {
        size_t l = strlen((char *) tab[j].long_opt);
        if (strlen(opt) >= l && ci_eq_n((char *) tab[j].long_opt, opt, l) && (opt[l] == '=' || opt[l] == 0)) return j;
    }
    return -1;
}
int main(void)
{
    static const char *NAMES[] = { "a", "ab", "abc", "b", "" };
    static const char *OPTS[] = { "a", "ab", "a=1", "ab=", "abc", "abcd", "b-x", "a.b", "a1", "A", "AB=x", "", "=", "b", "c", "a b", "ab/c", "a-" };
    long wbad = vn_get("w_bad", 0), wallow = vn_get("w_allow", 0);
    int n, code, k, o;
    for (n = 0; n <= 3; n++) {
        int combos = 1; for (k = 0; k < n; k++) combos *= 5;
        for (code = 0; code < combos; code++) {
            spifopt_t *tab = calloc(n ? n : 1, sizeof(spifopt_t)); int c = code;
            for (k = 0; k < n; k++) { tab[k].long_opt = (spif_charptr_t) hs(NAMES[c % 5]); c /= 5; }
            for (o = 0; o < (int) (sizeof(OPTS) / sizeof(OPTS[0])); o++) {
                char *opt = hs(OPTS[o]); long ob; unsigned long oh; int r, e;
                settings(tab, n, wbad & 255, wallow & 255, 0);
                ob = spifopt_settings.bad_opts; oh = help_calls;
                r = find_long_option((spif_charptr_t) opt);
                e = oracle_long(tab, n, opt);
                if (r != e) { fprintf(stderr, "NATIVE-REPLAY: --%s: got %d, expected %d\n", opt, r, e); FAILS("find_long_option: result is the first entry whose long name equals the text before '=' / the end, else -1"); }
                if (r == -1 ? !one_bad(ob, oh) : !no_bad(ob, oh)) FAILS("find_long_option: exactly one bad option iff nothing was found");
                free(opt);
            }
            for (k = 0; k < n; k++) free(tab[k].long_opt);
            free(tab);
        }
    }
    return 0;
}

/* ---------------------------------------------------------------------------------------------- */
#elif defined(U_FVL)
int main(void)
{
    static const char *A[] = { "a", "a=b", "a=", "=x", "a=b=c", "", "ab" };
    size_t n1 = (size_t) vn_get("w_n1", 0), eq = (size_t) vn_get("w_eq", 0);
    int k, nx;
    for (k = 0; k < 8; k++) for (nx = 0; nx < 2; nx++) {
        char *arg, *next = nx ? hs("n") : NULL, *e, *r; spif_char_t he = 7;
        if (k < 7) arg = hs(A[k]);
        else {                                   /* the witness shape: n1 characters, first '=' at eq */
            size_t i; if (n1 > (1UL << 24)) n1 = 1UL << 24;
            arg = malloc(n1 + 1); for (i = 0; i < n1; i++) arg[i] = 'x'; arg[n1] = 0; if (eq < n1) arg[eq] = '=';
        }
        e = strchr(arg, '=');
        r = (char *) find_value_long((spif_charptr_t) arg, (spif_charptr_t) next, &he);
        if (e ? !(r == e + 1 && he == 1) : !(r == next && he == 0)) FAILS("find_value_long: text after the first '=' (hasequal 1), else the next word (hasequal 0)");
        free(arg); free(next);
    }
    return 0;
}

#elif defined(U_FVS)
int main(void)
{
    static const char *W[] = { "-a", "-ab", "-a1", "-abc" };
    int k, nx; size_t off;
    for (k = 0; k < 4; k++) for (off = 1; off < strlen(W[k]); off++) for (nx = 0; nx < 2; nx++) {
        char *w = hs(W[k]), *next = nx ? hs("n") : NULL, *r;
        r = (char *) find_value_short((spif_charptr_t) w + off, (spif_charptr_t) next);
        if (r != (w[off + 1] ? w + off + 1 : next)) FAILS("find_value_short: rest of the word after the letter, else the next word");
        free(w); free(next);
    }
    return 0;
}

#elif defined(U_ISBOOL)
int main(void)
{
    static const char *V[] = { "", "1", "on", "TRUE", "yes", "0", "off", "false", "No", "x", "onn", "o", "tru", "10" };
    static const int E[] = { 0, 1, 1, 1, 1, 1, 1, 1, 1, 0, 0, 0, 0, 0 };
    int k;
    if (is_boolean_value(NULL) != FALSE) FAILS("is_boolean_value(NULL) == FALSE");
    for (k = 0; k < 14; k++) {
        char *v = hs(V[k]); spif_bool_t r = is_boolean_value((spif_charptr_t) v);
        if (r != (E[k] ? TRUE : FALSE)) FAILS("is_boolean_value: TRUE exactly for a non-empty boolean word");
        free(v);
    }
    return 0;
}

#elif defined(U_ISVALID)
int main(void)
{
    static const char *W[] = { "f", "", "-", "--", "-a", "-x", "-ab", "--al", "--al=1", "--alx", "--b", "-b", "x-a" };
    spifopt_t tab[3]; int k;
    memset(tab, 0, sizeof(tab));
    tab[0].short_opt = 'a'; tab[0].long_opt = (spif_charptr_t) "al";
    tab[1].short_opt = 0;   tab[1].long_opt = (spif_charptr_t) "lo";       /* long form only */
    tab[2].short_opt = 'b'; tab[2].long_opt = (spif_charptr_t) "b";
    for (k = 0; k < 13; k++) {
        char *w = hs(W[k]); long ob; unsigned long oh; spif_bool_t r; int e;
        settings(tab, 3, 0, 255, 0); ob = 0; oh = help_calls;
        r = is_valid_option((spif_charptr_t) w);
        e = (k == 4 || k == 6 || k == 7 || k == 8 || k == 10 || k == 11);
        if (r != (e ? TRUE : FALSE)) { fprintf(stderr, "NATIVE-REPLAY: word \"%s\"\n", w); FAILS("is_valid_option: TRUE exactly for -x / --name words that the table knows"); }
        if (w[0] != '-' || r == TRUE) { if (!no_bad(ob, oh)) FAILS("is_valid_option: nothing counted for a non-option word or a known option"); }
        else if (!one_bad(ob, oh)) FAILS("is_valid_option: one bad option for an unknown option word");
        free(w);
    }
    return 0;
}

/* ---------------------------------------------------------------------------------------------- */
#elif defined(U_BOOL)
static const char *WORDS[] = { "1", "on", "true", "yes", "0", "off", "false", "no", "zz" };
static void try_bool(unsigned long old, spif_uint32_t mask, unsigned sflags, unsigned oflags, int word, int null_val, int islong)
{
    spifopt_t tab[3]; unsigned long guard[3] = { 0x1111111111111111UL, old, 0x2222222222222222UL }, exp; spif_bool_t r;
    char *v = null_val ? NULL : hs(WORDS[word]);
    int pass = ((sflags & SPIFOPT_SETTING_PREPARSE) != 0) == ((oflags & SPIFOPT_FLAG_PREPARSE) != 0);
    int set, rexp;
    memset(tab, 0, sizeof(tab));
    tab[1].short_opt = 'a'; tab[1].long_opt = (spif_charptr_t) "al"; tab[1].flags = (spif_uint16_t) (SPIFOPT_FLAG_BOOLEAN | (oflags & SPIFOPT_FLAG_PREPARSE));
    tab[1].value = &guard[1]; tab[1].mask = mask;
    tab[0].long_opt = tab[2].long_opt = (spif_charptr_t) "x"; tab[0].value = &guard[0]; tab[2].value = &guard[2];
    settings(tab, 3, 0, 255, sflags);
    r = handle_boolean(1, (spif_charptr_t) v, (unsigned char) islong);
    /* ideal reading */
    if (v == NULL || !islong || word < 4) { set = 1; rexp = 1; }
    else if (word < 8) { set = 0; rexp = 1; }
    else { set = 1; rexp = 0; }
    exp = pass ? (set ? (old | (unsigned long) mask) : (old & ~(unsigned long) mask)) : old;
    if (((guard[1] ^ old) & ~(unsigned long) mask) != 0) FAILS("handle_boolean: only the option's mask bits change");
    if (guard[1] != exp) { fprintf(stderr, "NATIVE-REPLAY: value %s islong %d settings %#x option flags %#x: %#lx, expected %#lx\n", v ? v : "NULL", islong, sflags, oflags, guard[1], exp); FAILS("handle_boolean: the bits take the value the command line says, on the option's own pass only"); }
    if (guard[0] != 0x1111111111111111UL || guard[2] != 0x2222222222222222UL) FAILS("handle_boolean: writes only the target variable");
    if (r != (rexp ? TRUE : FALSE)) FAILS("handle_boolean: return value");
    free(v);
}
int main(void)
{
    unsigned long wold = (unsigned long) vn_get("w_old", 0); spif_uint32_t wmask = (spif_uint32_t) vn_get("w_mask", 1);
    unsigned wflags = (unsigned) vn_get("w_flags", 0), woflags = (unsigned) vn_get("w_oflags", 0);
    int wword = (int) vn_get("w_word", 0), wil = (int) vn_get("w_islong", 1);
    unsigned long olds[] = { wold, 0, ~0UL, 0xAAAAAAAA55555555UL }; spif_uint32_t masks[] = { wmask, 1, 0x80000000u, 0xffffffffu, 0 };
    int a, b, s, o, w, nv, il;
    if (wword < 0 || wword > 8) wword = 8;
    /* the witness case first */
    for (nv = 0; nv < 2; nv++) try_bool(wold, wmask, wflags & 3, woflags & SPIFOPT_FLAG_PREPARSE, wword, nv, wil & 0xff);
    /* sweep */
    for (a = 0; a < 4; a++) for (b = 0; b < 5; b++) for (s = 0; s < 4; s++) for (o = 0; o < 2; o++)
        for (w = 0; w < 9; w++) for (nv = 0; nv < 2; nv++) for (il = 0; il < 2; il++)
            try_bool(olds[a], masks[b], (unsigned) s, o ? SPIFOPT_FLAG_PREPARSE : 0, w, nv, il);
    return 0;
}

/* ---------------------------------------------------------------------------------------------- */
#elif defined(U_INT)
static void try_int(long num, int old)
{
    spifopt_t tab[2]; int guard[3] = { 0x11111111, old, 0x22222222 }; char buf[64]; char *v; long ob = 3; unsigned long oh;
    memset(tab, 0, sizeof(tab));
    tab[1].short_opt = 'i'; tab[1].long_opt = (spif_charptr_t) "int"; tab[1].flags = SPIFOPT_FLAG_INTEGER; tab[1].value = &guard[1];
    tab[0].long_opt = (spif_charptr_t) "x";
    snprintf(buf, sizeof(buf), "%ld", num); v = hs(buf);
    settings(tab, 2, ob, 255, 0); oh = help_calls;
    handle_integer(1, (spif_charptr_t) v);
    if (num >= INT_MIN && num <= INT_MAX) {
        if (guard[1] != (int) num || !no_bad(ob, oh)) { fprintf(stderr, "NATIVE-REPLAY: value %s -> %d\n", v, guard[1]); FAILS("handle_integer: the variable gets the value the command line says"); }
    } else {
        if (guard[1] != old || !one_bad(ob, oh)) { fprintf(stderr, "NATIVE-REPLAY: value %s -> %d\n", v, guard[1]); FAILS("handle_integer: a value that does not fit an int leaves the variable alone and is counted as a bad option"); }
    }
    if (guard[0] != 0x11111111 || guard[2] != 0x22222222) FAILS("handle_integer: writes only the target variable");
    free(v);
}
int main(void)
{
    long nums[] = { vn_get("w_num", 0), 0, 1, -1, 42, INT_MAX, INT_MIN, (long) INT_MAX + 1, (long) INT_MIN - 1, 4294967297L, -4294967297L, LONG_MAX, LONG_MIN };
    int k;
    for (k = 0; k < 13; k++) { try_int(nums[k], 7); try_int(nums[k], -1); }
    return 0;
}

/* ---------------------------------------------------------------------------------------------- */
#elif defined(U_STR)
int main(void)
{
    size_t n1 = (size_t) vn_get("vg_n1", 3), lens[] = { 0, 1, 2, 17, 4096, 0 }; int k;
    if (n1 > (1UL << 24)) n1 = 1UL << 24;
    lens[5] = n1;
    for (k = 0; k < 6; k++) {
        spifopt_t tab[2]; char *guard[3] = { (char *) 1, NULL, (char *) 2 }; size_t i, n = lens[k]; char *v = malloc(n + 1);
        for (i = 0; i < n; i++) v[i] = (char) ('a' + i % 26);
        v[n] = 0;
        memset(tab, 0, sizeof(tab));
        tab[1].short_opt = 's'; tab[1].long_opt = (spif_charptr_t) "str"; tab[1].flags = SPIFOPT_FLAG_STRING; tab[1].value = &guard[1];
        tab[0].long_opt = (spif_charptr_t) "x";
        settings(tab, 2, 0, 255, 0);
        handle_string(1, (spif_charptr_t) v);
        if (guard[1] == NULL || guard[1] == v) FAILS("handle_string: the variable points to a fresh copy");
        if (strlen(guard[1]) != n || memcmp(guard[1], v, n + 1) != 0) FAILS("handle_string: the copy equals the value");
        if (guard[0] != (char *) 1 || guard[2] != (char *) 2) FAILS("handle_string: writes only the target variable");
        free(guard[1]); free(v);
    }
    return 0;
}

/* ---------------------------------------------------------------------------------------------- */
#elif defined(U_ARGS)
static void try_args(long argc, long i, unsigned sflags)
{
    spifopt_t tab[2]; char **guard[3] = { (char **) 1, NULL, (char **) 2 }; char **argv, **orig; long k; char w[32];
    argv = malloc((argc + 1) * sizeof(char *)); orig = malloc((argc + 1) * sizeof(char *));
    for (k = 0; k < argc; k++) { snprintf(w, sizeof(w), "w%ld", k); argv[k] = hs(w); orig[k] = argv[k]; }
    argv[argc] = orig[argc] = NULL;
    memset(tab, 0, sizeof(tab));
    tab[1].short_opt = 'e'; tab[1].long_opt = (spif_charptr_t) "exec"; tab[1].flags = SPIFOPT_FLAG_ARGLIST; tab[1].value = &guard[1];
    tab[0].long_opt = (spif_charptr_t) "x";
    settings(tab, 2, 0, 255, sflags);
    handle_arglist(1, (spif_charptr_t) (i < argc ? argv[i] : NULL), 0, (spif_int32_t) i, (int) argc, argv);
    if (guard[1] == NULL) FAILS("handle_arglist: list assigned");
    for (k = 0; k < argc - i; k++) {
        if (guard[1][k] == NULL) { fprintf(stderr, "NATIVE-REPLAY: argc %ld i %ld: list ends after %ld entries\n", argc, i, k); FAILS("handle_arglist: argc-i entries"); }
        if (guard[1][k] == orig[i + k] || strcmp(guard[1][k], orig[i + k]) != 0) FAILS("handle_arglist: entry k is a copy of word i+k");
    }
    if (guard[1][argc - i] != NULL) FAILS("handle_arglist: list NULL-terminated after argc-i entries");
    for (k = 0; k <= argc; k++) if (argv[k] != orig[k]) FAILS("handle_arglist: argv untouched");
    if (guard[0] != (char **) 1 || guard[2] != (char **) 2) FAILS("handle_arglist: writes only the target variable");
    for (k = 0; k < argc - i; k++) free(guard[1][k]);
    free(guard[1]);
    for (k = 0; k < argc; k++) free(orig[k]);
    free(argv); free(orig);
}
int main(void)
{
    long wargc = vn_get("w_argc", 3), wi = vn_get("w_i", 1); unsigned wflags = (unsigned) vn_get("w_flags", 0) & 3;
    long argc, i; unsigned s;
    for (argc = 1; argc <= 6; argc++) for (i = 1; i <= argc; i++) for (s = 0; s < 4; s++) try_args(argc, i, s);
    /* the witness shape: the number of swallowed words matters (16-bit counters), capped at 200000 */
    if (wi >= 1 && wi <= wargc) {
        long rest = wargc - wi; if (rest > 200000) rest = 65536 + rest % 65536;
        try_args(1 + rest, 1, wflags);
#ifndef U_ARGS_NARROW
        try_args(1 + 65536 + 3, 1, wflags);
#endif
    }
    return 0;
}

/* ---------------------------------------------------------------------------------------------- */
#elif defined(U_COMPACT)
/* every pattern of NULL / non-option words for argc <= 7 (the main loop skips non-option words and stops at
 * the first NULL; the compaction then has to close the gaps) */
int main(void)
{
    long argc, code, k; spifopt_t tab[1];
    memset(tab, 0, sizeof(tab)); tab[0].short_opt = 'a'; tab[0].long_opt = (spif_charptr_t) "al"; tab[0].flags = SPIFOPT_FLAG_BOOLEAN;
    { static unsigned long fl; tab[0].value = &fl; tab[0].mask = 1; }
    for (argc = 2; argc <= 7; argc++) for (code = 0; code < (1L << (argc - 1)); code++) {
        char **argv = malloc((argc + 1) * sizeof(char *)), **orig = malloc((argc + 1) * sizeof(char *)), *keep[8]; long n = 1, j; char w[16];
        argv[0] = hs("prog");
        for (k = 1; k < argc; k++) { snprintf(w, sizeof(w), "w%ld", k); keep[k] = hs(w); argv[k] = ((code >> (k - 1)) & 1) ? keep[k] : NULL; }
        argv[argc] = NULL;
        for (k = 0; k <= argc; k++) orig[k] = argv[k];
        settings(tab, 1, 0, 255, SPIFOPT_SETTING_REMOVE_ARGS);
        spifopt_parse((int) argc, argv);
        if (argv[0] != orig[0]) FAILS("compaction: program name untouched");
        for (k = 1; k < argc; k++) if (orig[k]) {
            if (argv[n] != orig[k]) { fprintf(stderr, "NATIVE-REPLAY: argc %ld pattern %#lx: slot %ld\n", argc, code, n); FAILS("compaction: surviving words follow the program name in their original order"); }
            n++;
        }
        if (argv[n] != NULL) FAILS("compaction: NULL-terminated right after the surviving words");
        if (spifopt_settings.flags != SPIFOPT_SETTING_REMOVE_ARGS) FAILS("compaction: settings untouched");
        for (j = 1; j < argc; j++) free(keep[j]);
        free(orig[0]); free(argv); free(orig);
    }
    return 0;
}

#else
int main(void) { fprintf(stderr, "NATIVE-REPLAY: no section for this unit\n"); return 0; }
#endif
