/* C08, tier B: handle_arglist with hasequal == 1 (--list=TEXT): the list is TEXT split into words
 * (a quoted stretch is one word), NULL-terminated, and nothing is written outside the allocation.
 * The loop's trip count comes from functions of strings.c (num_words / get_word), so this is checked
 * by executing the REAL strings.c on a fixed set of TEXTs:
 *   arglist_eq.plain   TEXTs without quotes: "a", "a b", " a  b ", "ab c d"
 *   arglist_eq.quoted  TEXTs with a quoted stretch or empty: "a \"b c\"", "'a b' c", ""
 *                      (these overflowed the list before fix C08-arglist-eq-overflow)
 * Bound: exactly these texts; 1-entry table; the result is compared with the expected word list. */

/*@unit
name: arglist_eq.plain
tier: B
native: self
define: U_PLAIN
src: options.c
bound: handle_arglist(hasequal=1) on the 4 unquoted texts "a", "a b", " a  b ", "ab c d"
unwind: 12
backend: sat
timeout: 300
*/
/*@unit
name: arglist_eq.quoted
tier: B
native: self
define: U_QUOTED
src: options.c
bound: handle_arglist(hasequal=1) on the 3 texts "a \"b c\"", "'a b' c", "" (quoted stretch / empty text)
unwind: 12
backend: sat
timeout: 300
*/
#define VERIF_OWN_STRLEN
#define VERIF_OWN_STRCMP
#define VERIF_OWN_STRCHR
#define VERIF_OWN_STRDUP
#define VOPT_CONCRETE
#include "vprelude.h"
#include "env_options.h"
#ifndef VERIF_NATIVE
# define strtol vopt_strtol            /* cbmc: decimal model; native replay: the real strtol */
#endif
#include "rawsrc/options.c"            /* the real code, un-annotated copy (no loop contracts needed here) */
#undef strtol
#ifndef VERIF_NATIVE
#include "src/strings.c"     /* real, un-annotated (not in `src:`); a native replay links it */
#endif
#include "options.h"

static char **t_args;
static spifopt_t tab[] = { SPIFOPT_ARGS('e', "e", "list", t_args) };

struct txt { char *text; int n; char *w[3]; };
static const struct txt T[] = {
#ifdef U_PLAIN
    { "a", 1, { "a" } }, { "a b", 2, { "a", "b" } }, { " a  b ", 2, { "a", "b" } }, { "ab c d", 3, { "ab", "c", "d" } },
#else
    { "a \"b c\"", 2, { "a", "b c" } }, { "'a b' c", 2, { "a b", "c" } }, { "", 0, { 0 } },
#endif
};
#define NT ((int) (sizeof(T) / sizeof(T[0])))
int w_t;

void harness(void)
{
    int t, k;
    char *argv[2] = { "P", 0 };
    vopt_env_init();
    libast_debug_level = 0;
    spifopt_settings.opt_list = tab; spifopt_settings.num_opts = 1; spifopt_settings.flags = 0;
    for (t = 0; t < NT; t++) {
        w_t = t;
        t_args = (char **) 0;
        handle_arglist(0, (spif_charptr_t) T[t].text, 1, 1, 1, argv);
        __CPROVER_assert(t_args != (char **) 0, "B: list assigned");
        for (k = 0; k < T[t].n; k++)
            __CPROVER_assert(t_args[k] != (char *) 0 && !strcmp(t_args[k], T[t].w[k]), "B: list holds TEXT's words in order");
        __CPROVER_assert(t_args[T[t].n] == (char *) 0, "B: list NULL-terminated after TEXT's words");
    }
    VERIF_CANARY();
}
