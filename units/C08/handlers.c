/* C08: the typed handlers.  Table of any size, option index n anywhere in it.
 *
 *   handle_boolean : writes only the target variable (documented type: unsigned long) and only
 *                    the bits of the option's mask; sets them for a true word / no value / a short
 *                    option, clears them for a false word; leaves the variable alone when the option
 *                    belongs to the other pass.  Three behaviours (.true .false .other) by the
 *                    boolean word the value spells (ghost vg_word, see env_options.h).
 *   handle_integer : target (documented type: int) = numeric reading of the value (ghost vg_num) when
 *                    it fits an int; otherwise target unchanged and exactly one bad option.
 *                    (handle_integer: reading fits; handle_integer.range: any reading.)
 *   handle_string  : target = fresh copy of the value.
 *   handle_arglist : hasequal == 0 ("swallow the rest of the line"): fresh array of argc-i copies of
 *                    argv[i..argc-1] in order, NULL-terminated; argv untouched (spifopt_parse removes
 *                    the words).  Loop contract (annot/options.c.options.ann).
 *                    strdup = bump allocator over an arena (VOPT_STRDUP_ARENA, see env_options.h).
 *                    .rest: argc-i <= 65535;  .rest_wide: any argc-i.
 *                    (hasequal == 1 is the B unit arglist_eq in arglist_eq.c: its loop bound comes
 *                    from functions of strings.c.)
 *   check_bad_wrap : CHECK_BAD at bad_opts == 255: the 8-bit counter saturates; through find_short_option.
 */

/*@unit
name: handle_boolean.true
define: U_BOOL, U_B_TRUE
src: options.c
native: options
native_includes: options.c
enforce: handle_boolean
backend: sat
timeout: 120
*/
/*@unit
name: handle_boolean.false
define: U_BOOL, U_B_FALSE
src: options.c
native: options
native_includes: options.c
enforce: handle_boolean
backend: sat
timeout: 120
*/
/*@unit
name: handle_boolean.other
define: U_BOOL, U_B_OTHER
src: options.c
native: options
native_includes: options.c
enforce: handle_boolean
backend: sat
timeout: 120
*/
/*@unit
name: handle_integer
define: U_INT, U_INT_FITS
src: options.c
native: options
native_includes: options.c
enforce: handle_integer
giflags: --restrict-function-pointer handle_integer.function_pointer_call.1/vopt_help
backend: sat
timeout: 120
*/
/*@unit
name: handle_integer.range
define: U_INT
src: options.c
native: options
native_includes: options.c
enforce: handle_integer
giflags: --restrict-function-pointer handle_integer.function_pointer_call.1/vopt_help
backend: sat
timeout: 120
*/
/*@unit
name: handle_string
define: U_STR
src: options.c
native: options
native_includes: options.c
enforce: handle_string
backend: sat
timeout: 120
*/
/*@unit
name: handle_arglist.rest
define: U_ARGS, U_ARGS_NARROW, VOPT_UNREGISTERED_STRINGS_ASSUMED, VOPT_STRDUP_ARENA
src: options.c
native: options
native_includes: options.c
enforce: handle_arglist
backend: sat
loops: 1
timeout: 200
*/
/*@unit
name: handle_arglist.rest_wide
define: U_ARGS, VOPT_UNREGISTERED_STRINGS_ASSUMED, VOPT_STRDUP_ARENA
src: options.c
native: options
native_includes: options.c
enforce: handle_arglist
backend: sat
loops: 1
timeout: 200
*/
/*@unit
name: check_bad_wrap
define: U_WRAP
src: options.c
native: options
native_includes: options.c
enforce: find_short_option
giflags: --restrict-function-pointer find_short_option.function_pointer_call.1/vopt_help
backend: sat
loops: 1
timeout: 120
*/
#define VERIF_OWN_STRLEN
#define VERIF_OWN_STRCMP
#define VERIF_OWN_STRCHR
#define VERIF_OWN_STRDUP
#include "vprelude.h"
#include "env_options.h"
#define strtol vopt_strtol
#include "src/options.c"
#undef strtol
#include "options.h"

long w_n, w_idx, w_word, w_islong, w_flags, w_oflags, w_argc, w_i, w_k, w_num; unsigned long w_mask, w_old;

#ifdef U_BOOL
#define BOOL_TARGET(n)  (*((unsigned long *) OPT_TAB[n].value))
#define BOOL_MASK(n)    ((unsigned long) OPT_TAB[n].mask)
#ifdef U_B_TRUE
# define BEHAVIOUR(v, il)  ((v) == NULL || !(il) || vg_word < 4)
# define EXPECT(old, n)    ((old) | BOOL_MASK(n))
# define RESULT            TRUE
#elif defined(U_B_FALSE)
# define BEHAVIOUR(v, il)  ((v) != NULL && (il) && vg_word >= 4 && vg_word < 8)
# define EXPECT(old, n)    ((old) & ~BOOL_MASK(n))
# define RESULT            TRUE
#else   /* a long option with a value that is no boolean word: forced to true, value not consumed */
# define BEHAVIOUR(v, il)  ((v) != NULL && (il) && vg_word == 8)
# define EXPECT(old, n)    ((old) | BOOL_MASK(n))
# define RESULT            FALSE
#endif
static spif_bool_t handle_boolean(spif_int32_t n, spif_charptr_t val_ptr, unsigned char islong)
__CPROVER_requires(OPTTAB_INV && 0 <= n && n < OPT_N && __CPROVER_rw_ok((unsigned long *) OPT_TAB[n].value, sizeof(unsigned long)))
__CPROVER_requires(val_ptr == NULL || (VOPT_STR_OK(val_ptr, vg_n1) && vg_p1 == (const char *) val_ptr))
__CPROVER_requires(vg_word <= 8 && BEHAVIOUR(val_ptr, islong))
__CPROVER_assigns(BOOL_TARGET(n))
__CPROVER_ensures(__CPROVER_return_value == RESULT)
/* only mask bits change ... */
__CPROVER_ensures(((BOOL_TARGET(n) ^ __CPROVER_old(BOOL_TARGET(n))) & ~BOOL_MASK(n)) == 0)
/* ... and they take the value the command line says, on the option's own pass only */
__CPROVER_ensures(BOOL_TARGET(n) == (OPT_PASS(n) ? EXPECT(__CPROVER_old(BOOL_TARGET(n)), n) : __CPROVER_old(BOOL_TARGET(n))))
;
void harness(void)
{
    spif_int32_t n = nondet_int(); spif_charptr_t v; unsigned char il = nondet_uchar();
    vopt_env_init();
    __CPROVER_assume(vg_n1 <= VCAP && vg_word <= 8);
    VOPT_MK_TABLE();
    __CPROVER_assume(0 <= n && n < OPT_N);
    OPT_TAB[n].value = malloc(sizeof(unsigned long));
    VOPT_MK_STR(v, vg_n1); vg_p1 = (const char *) v;
    if (nondet_bool()) { v = NULL; vg_p1 = NULL; }
    w_n = OPT_N; w_idx = n; w_word = vg_word; w_islong = il; w_mask = OPT_TAB[n].mask; w_old = BOOL_TARGET(n);
    w_flags = spifopt_settings.flags; w_oflags = OPT_TAB[n].flags;
    handle_boolean(n, v, il);
    VERIF_CANARY();
}
#endif

#ifdef U_INT
#define INT_TARGET(n)  (*((int *) OPT_TAB[n].value))
#define NUM_FITS       (INT_MIN <= vg_num && vg_num <= INT_MAX)
static void handle_integer(spif_int32_t n, spif_charptr_t val_ptr)
__CPROVER_requires(OPTTAB_INV && OPT_HELP_INV && 0 <= n && n < OPT_N && __CPROVER_rw_ok((int *) OPT_TAB[n].value, sizeof(int)))
__CPROVER_requires(VOPT_STR_OK(val_ptr, vg_n1) && vg_p1 == (const char *) val_ptr)
#ifdef U_INT_FITS
__CPROVER_requires(NUM_FITS)
#endif
__CPROVER_assigns(INT_TARGET(n), spifopt_settings.bad_opts, vg_help_calls)
/* the value the command line says, nothing counted ... */
__CPROVER_ensures(!NUM_FITS || ((long) INT_TARGET(n) == vg_num &&
                  OPT_NO_BAD(__CPROVER_old(spifopt_settings.bad_opts), __CPROVER_old(vg_help_calls))))
/* ... or, when it does not fit an int: variable unchanged, exactly one bad option */
__CPROVER_ensures(NUM_FITS || (INT_TARGET(n) == __CPROVER_old(INT_TARGET(n)) &&
                  OPT_ONE_BAD(__CPROVER_old(spifopt_settings.bad_opts), __CPROVER_old(vg_help_calls))))
;
void harness(void)
{
    spif_int32_t n = nondet_int(); spif_charptr_t v;
    vopt_env_init();
    __CPROVER_assume(vg_n1 <= VCAP);
    VOPT_MK_TABLE();
    __CPROVER_assume(0 <= n && n < OPT_N);
    OPT_TAB[n].value = malloc(sizeof(int));
    VOPT_MK_STR(v, vg_n1); vg_p1 = (const char *) v;
    w_n = OPT_N; w_idx = n; w_num = vg_num;
    handle_integer(n, v);
    VERIF_CANARY();
}
#endif

#ifdef U_STR
#define STR_TARGET(n) (*((char **) OPT_TAB[n].value))
static void handle_string(spif_int32_t n, spif_charptr_t val_ptr)
__CPROVER_requires(OPTTAB_INV && 0 <= n && n < OPT_N && __CPROVER_rw_ok((char **) OPT_TAB[n].value, sizeof(char *)))
__CPROVER_requires(VOPT_STR_OK(val_ptr, vg_n1) && vg_p1 == (const char *) val_ptr)
__CPROVER_requires(vg_dup_calls == 0 && vg_dup_want == 1)
__CPROVER_assigns(STR_TARGET(n), vg_dup_calls, vg_dup_src, vg_dup_res)
/* the target is the (one) fresh duplicate of the value: same length, same bytes (ghost position vg_k2) */
__CPROVER_ensures(vg_dup_calls == 1 && vg_dup_src == (const char *) val_ptr && STR_TARGET(n) == vg_dup_res)
__CPROVER_ensures(__CPROVER_is_fresh(STR_TARGET(n), vg_n1 + 1) && STR_TARGET(n)[vg_n1] == 0 &&
                  (!(vg_k2 < vg_n1) || STR_TARGET(n)[vg_k2] == val_ptr[vg_k2]))
;
void harness(void)
{
    spif_int32_t n = nondet_int(); spif_charptr_t v;
    vopt_env_init();
    __CPROVER_assume(vg_n1 <= VCAP);
    VOPT_MK_TABLE();
    __CPROVER_assume(0 <= n && n < OPT_N);
    OPT_TAB[n].value = malloc(sizeof(char *));
    VOPT_MK_STR(v, vg_n1); vg_p1 = (const char *) v;
    vg_dup_calls = 0; vg_dup_want = 1;
    w_n = OPT_N; w_idx = n;
    handle_string(n, v);
    VERIF_CANARY();
}
#endif

#ifdef U_ARGS
/* argv: argc+1 slots.  The slot with ghost index vg_k holds vg_old_ptr; when i <= vg_k < argc it is a
 * real word (registered string 1).  The strdup call number vg_k-i+1 is recorded (vg_dup_src/res). */
static void handle_arglist(spif_int32_t n, spif_charptr_t val_ptr, unsigned char hasequal, spif_int32_t i, int argc, char *argv[])
#ifdef U_ARGS_NARROW
CONTRACT_handle_arglist_rest(argc - i <= 65535)
#else
CONTRACT_handle_arglist_rest(1)
#endif
;
void harness(void)
{
    spif_int32_t n = nondet_int(), i = nondet_int(); int argc = nondet_int(); char **argv;
    vopt_env_init();
    __CPROVER_assume(vg_n1 <= VCAP);
    VOPT_MK_TABLE();
    __CPROVER_assume(0 <= n && n < OPT_N);
    OPT_TAB[n].value = malloc(sizeof(spif_charptr_t *));
    __CPROVER_assume(1 <= i && i <= argc && argc <= 0x7ffffff0);
    argv = malloc(((size_t) argc + 1) * sizeof(char *));
    __CPROVER_assume(vg_k <= (size_t) argc);
    vg_arena_size = nondet_size_t(); __CPROVER_assume(vg_arena_size <= VCAP); vg_arena = malloc(vg_arena_size); vg_arena_off = 0;
    vg_p1 = NULL;
    if (K_IN_REST) {
        char *wd; VOPT_MK_STR(wd, vg_n1);
        argv[vg_k] = wd; vg_p1 = wd; vg_old_ptr = wd;
    } else {
        vg_old_ptr = argv[vg_k];
    }
    vg_dup_calls = 0; vg_dup_want = (K_IN_REST ? (unsigned long) vg_k - (unsigned long) i + 1 : 0UL);
    w_n = OPT_N; w_idx = n; w_argc = argc; w_i = i; w_k = vg_k; w_flags = spifopt_settings.flags;
    handle_arglist(n, (i < argc) ? (spif_charptr_t) argv[i] : (spif_charptr_t) NULL, 0, i, argc, argv);
    VERIF_CANARY();
}
#endif

#ifdef U_WRAP
/* the 256th bad option: the counter stays at 255 (OPT_ONE_BAD saturates), the help handler runs iff 255 > limit */
static spif_int32_t find_short_option(char opt) CONTRACT_find_short_option(spifopt_settings.bad_opts == 255)
;
void harness(void)
{
    char opt = nondet_char();
    vopt_env_init();
    __CPROVER_assume(vg_k <= 65536);
    VOPT_MK_TABLE();
    w_n = OPT_N;
    find_short_option(opt);
    VERIF_CANARY();
}
#endif
