/* C20 (last clause): with output silenced, messages, warnings and errors print nothing.
 * The REAL src/msgs.c is compiled against counting stubs of fprintf/vfprintf/fflush/exit.
 * Plain loop-free cbmc runs (variadic functions: see macros.c header), runtime level and
 * `silent` fully symbolic, at the configured DEBUG and at DEBUG 0.  The functions are loop-free;
 * --unwind 3 --unwinding-assertions only bounds RECURSION (the output functions log their own
 * guard failures through themselves): a passing unwinding assertion makes the run complete, a
 * failing one is the non-termination the fix: commit for C20 removed. */
/*@unit
name: msgs.dprintf
define: K_DPRINTF
src: msgs.c
funcs: libast_dprintf, libast_set_silent
backend: sat
flags: --unwind 3 --unwinding-assertions
*/
/*@unit
name: msgs.print_error
define: K_ERROR
src: msgs.c
funcs: libast_print_error
backend: sat
flags: --unwind 3 --unwinding-assertions
*/
/*@unit
name: msgs.print_warning
define: K_WARNING
src: msgs.c
funcs: libast_print_warning
backend: sat
flags: --unwind 3 --unwinding-assertions
*/
/*@unit
name: msgs.fatal_error
define: K_FATAL
src: msgs.c
funcs: libast_fatal_error
backend: sat
flags: --unwind 3 --unwinding-assertions
*/
/*@unit
name: msgs.dprintf.DEBUG0
define: K_DPRINTF
debug: 0
src: msgs.c
funcs: libast_dprintf
backend: sat
flags: --unwind 3 --unwinding-assertions
*/
/*@unit
name: msgs.print_warning.DEBUG0
define: K_WARNING
debug: 0
src: msgs.c
funcs: libast_print_warning
backend: sat
flags: --unwind 3 --unwinding-assertions
*/
#define VERIF_REAL_MSGS
#define VERIF_REAL_STDIO
#include "vprelude.h"

unsigned int libast_debug_level;
unsigned long libast_debug_flags;

struct { unsigned fprintf_, vfprintf_, fflush_, exit_; } vc, o;
int fprintf(FILE *f, const char *fmt, ...) { vc.fprintf_++; return 0; }
int vfprintf(FILE *f, const char *fmt, va_list ap) { vc.vfprintf_++; return 0; }
int fflush(FILE *f) { vc.fflush_++; return 0; }
time_t time(time_t *t) { return 0; }
void exit(int c) { vc.exit_++; }

#include "src/msgs.c"

#define ENS(c)   __CPROVER_assert((c), "postcondition: " #c)
#define SAME(f)  (vc.f == o.f)
#define PLUS1(f) (vc.f == o.f + 1)
#define QUIET    (SAME(fprintf_) && SAME(vfprintf_))

static void pre(void)
{
    libast_debug_level = nondet_uint();
    libast_set_silent(nondet_bool() ? TRUE : FALSE);
    /* the program name is never NULL through the API (initialised to PACKAGE; set_program_name(NULL) stores PACKAGE) */
    libast_program_name = (spif_charptr_t) "prog";
    o = vc;
}

void harness(void)
{
    pre();
#ifdef K_DPRINTF
    int r = libast_dprintf("x %d\n", 1);
    ENS(!silent || (QUIET && r == 0));
    ENS(silent || libast_program_name == NULL || (PLUS1(vfprintf_) && SAME(fprintf_)));
#endif
#ifdef K_ERROR
    libast_print_error("x %d\n", 1);
    ENS(!silent || QUIET);
    ENS(silent || libast_program_name == NULL || (PLUS1(vfprintf_) && PLUS1(fprintf_)));
#endif
#ifdef K_WARNING
    libast_print_warning("x %d\n", 1);
    ENS(!silent || QUIET);
    ENS(silent || libast_program_name == NULL || (PLUS1(vfprintf_) && PLUS1(fprintf_)));
#endif
#ifdef K_FATAL
    libast_fatal_error("x %d\n", 1);
    ENS(!silent || QUIET);
    ENS(PLUS1(exit_));
#endif
    VERIF_CANARY();
}
