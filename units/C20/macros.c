/* GENERATED HEADERS (tools/gen_c20.py): one unit per (macro, compile-time DEBUG) */
/*@unit
name: D_OPTIONS.DEBUG0
debug: 0
define: K_DSTMT, VM=D_OPTIONS, VL=DEBUG_OPTIONS, VCT=DEBUG_OPTIONS
funcs: w_dstmt
backend: sat
timeout: 120
native: self
native_link: none
*/
/*@unit
name: D_OBJ.DEBUG0
debug: 0
define: K_DSTMT, VM=D_OBJ, VL=DEBUG_OBJ, VCT=DEBUG_OBJ
funcs: w_dstmt
backend: sat
timeout: 120
native: self
native_link: none
*/
/*@unit
name: D_CONF.DEBUG0
debug: 0
define: K_DSTMT, VM=D_CONF, VL=DEBUG_CONF, VCT=DEBUG_CONF
funcs: w_dstmt
backend: sat
timeout: 120
native: self
native_link: none
*/
/*@unit
name: D_MEM.DEBUG0
debug: 0
define: K_DSTMT, VM=D_MEM, VL=DEBUG_MEM, VCT=DEBUG_MEM
funcs: w_dstmt
backend: sat
timeout: 120
native: self
native_link: none
*/
/*@unit
name: D_STRINGS.DEBUG0
debug: 0
define: K_DSTMT, VM=D_STRINGS, VL=DEBUG_STRINGS, VCT=DEBUG_STRINGS
funcs: w_dstmt
backend: sat
timeout: 120
native: self
native_link: none
*/
/*@unit
name: D_PARSE.DEBUG0
debug: 0
define: K_DSTMT, VM=D_PARSE, VL=DEBUG_PARSE, VCT=DEBUG_PARSE
funcs: w_dstmt
backend: sat
timeout: 120
native: self
native_link: none
*/
/*@unit
name: D_NEVER.DEBUG0
debug: 0
define: K_DSTMT, VM=D_NEVER, VL=0, VNEVER
funcs: w_dstmt
backend: sat
timeout: 120
native: self
native_link: none
*/
/*@unit
name: DPRINTF1.DEBUG0
debug: 0
define: K_DSTMT, VM=DPRINTF1, VL=1, VCT=1
funcs: w_dstmt
backend: sat
timeout: 120
native: self
native_link: none
*/
/*@unit
name: DPRINTF2.DEBUG0
debug: 0
define: K_DSTMT, VM=DPRINTF2, VL=2, VCT=1
funcs: w_dstmt
backend: sat
timeout: 120
native: self
native_link: none
*/
/*@unit
name: DPRINTF3.DEBUG0
debug: 0
define: K_DSTMT, VM=DPRINTF3, VL=3, VCT=1
funcs: w_dstmt
backend: sat
timeout: 120
native: self
native_link: none
*/
/*@unit
name: DPRINTF4.DEBUG0
debug: 0
define: K_DSTMT, VM=DPRINTF4, VL=4, VCT=1
funcs: w_dstmt
backend: sat
timeout: 120
native: self
native_link: none
*/
/*@unit
name: DPRINTF5.DEBUG0
debug: 0
define: K_DSTMT, VM=DPRINTF5, VL=5, VCT=1
funcs: w_dstmt
backend: sat
timeout: 120
native: self
native_link: none
*/
/*@unit
name: DPRINTF6.DEBUG0
debug: 0
define: K_DSTMT, VM=DPRINTF6, VL=6, VCT=1
funcs: w_dstmt
backend: sat
timeout: 120
native: self
native_link: none
*/
/*@unit
name: DPRINTF7.DEBUG0
debug: 0
define: K_DSTMT, VM=DPRINTF7, VL=7, VCT=1
funcs: w_dstmt
backend: sat
timeout: 120
native: self
native_link: none
*/
/*@unit
name: DPRINTF8.DEBUG0
debug: 0
define: K_DSTMT, VM=DPRINTF8, VL=8, VCT=1
funcs: w_dstmt
backend: sat
timeout: 120
native: self
native_link: none
*/
/*@unit
name: DPRINTF9.DEBUG0
debug: 0
define: K_DSTMT, VM=DPRINTF9, VL=9, VCT=1
funcs: w_dstmt
backend: sat
timeout: 120
native: self
native_link: none
*/
/*@unit
name: ASSERT.DEBUG0
debug: 0
define: K_ASSERT
funcs: w_assert
backend: sat
timeout: 120
native: self
native_link: none
*/
/*@unit
name: ASSERT_RVAL.DEBUG0
debug: 0
define: K_ASSERT_RVAL
funcs: w_assert_rval
backend: sat
timeout: 120
native: self
native_link: none
*/
/*@unit
name: REQUIRE.DEBUG0
debug: 0
define: K_REQUIRE
funcs: w_require
backend: sat
timeout: 120
native: self
native_link: none
*/
/*@unit
name: REQUIRE_RVAL.DEBUG0
debug: 0
define: K_REQUIRE_RVAL
funcs: w_require_rval
backend: sat
timeout: 120
native: self
native_link: none
*/
/*@unit
name: ASSERT_NOTREACHED.DEBUG0
debug: 0
define: K_NOTREACHED
funcs: w_notreached
backend: sat
timeout: 120
native: self
native_link: none
*/
/*@unit
name: ASSERT_NOTREACHED_RVAL.DEBUG0
debug: 0
define: K_NOTREACHED_RVAL
funcs: w_notreached_rval
backend: sat
timeout: 120
native: self
native_link: none
*/
/*@unit
name: D_OPTIONS.DEBUG1
debug: 1
define: K_DSTMT, VM=D_OPTIONS, VL=DEBUG_OPTIONS, VCT=DEBUG_OPTIONS
funcs: w_dstmt
backend: sat
timeout: 120
native: self
native_link: none
*/
/*@unit
name: D_OBJ.DEBUG1
debug: 1
define: K_DSTMT, VM=D_OBJ, VL=DEBUG_OBJ, VCT=DEBUG_OBJ
funcs: w_dstmt
backend: sat
timeout: 120
native: self
native_link: none
*/
/*@unit
name: D_CONF.DEBUG1
debug: 1
define: K_DSTMT, VM=D_CONF, VL=DEBUG_CONF, VCT=DEBUG_CONF
funcs: w_dstmt
backend: sat
timeout: 120
native: self
native_link: none
*/
/*@unit
name: D_MEM.DEBUG1
debug: 1
define: K_DSTMT, VM=D_MEM, VL=DEBUG_MEM, VCT=DEBUG_MEM
funcs: w_dstmt
backend: sat
timeout: 120
native: self
native_link: none
*/
/*@unit
name: D_STRINGS.DEBUG1
debug: 1
define: K_DSTMT, VM=D_STRINGS, VL=DEBUG_STRINGS, VCT=DEBUG_STRINGS
funcs: w_dstmt
backend: sat
timeout: 120
native: self
native_link: none
*/
/*@unit
name: D_PARSE.DEBUG1
debug: 1
define: K_DSTMT, VM=D_PARSE, VL=DEBUG_PARSE, VCT=DEBUG_PARSE
funcs: w_dstmt
backend: sat
timeout: 120
native: self
native_link: none
*/
/*@unit
name: D_NEVER.DEBUG1
debug: 1
define: K_DSTMT, VM=D_NEVER, VL=0, VNEVER
funcs: w_dstmt
backend: sat
timeout: 120
native: self
native_link: none
*/
/*@unit
name: DPRINTF1.DEBUG1
debug: 1
define: K_DSTMT, VM=DPRINTF1, VL=1, VCT=1
funcs: w_dstmt
backend: sat
timeout: 120
native: self
native_link: none
*/
/*@unit
name: DPRINTF2.DEBUG1
debug: 1
define: K_DSTMT, VM=DPRINTF2, VL=2, VCT=1
funcs: w_dstmt
backend: sat
timeout: 120
native: self
native_link: none
*/
/*@unit
name: DPRINTF3.DEBUG1
debug: 1
define: K_DSTMT, VM=DPRINTF3, VL=3, VCT=1
funcs: w_dstmt
backend: sat
timeout: 120
native: self
native_link: none
*/
/*@unit
name: DPRINTF4.DEBUG1
debug: 1
define: K_DSTMT, VM=DPRINTF4, VL=4, VCT=1
funcs: w_dstmt
backend: sat
timeout: 120
native: self
native_link: none
*/
/*@unit
name: DPRINTF5.DEBUG1
debug: 1
define: K_DSTMT, VM=DPRINTF5, VL=5, VCT=1
funcs: w_dstmt
backend: sat
timeout: 120
native: self
native_link: none
*/
/*@unit
name: DPRINTF6.DEBUG1
debug: 1
define: K_DSTMT, VM=DPRINTF6, VL=6, VCT=1
funcs: w_dstmt
backend: sat
timeout: 120
native: self
native_link: none
*/
/*@unit
name: DPRINTF7.DEBUG1
debug: 1
define: K_DSTMT, VM=DPRINTF7, VL=7, VCT=1
funcs: w_dstmt
backend: sat
timeout: 120
native: self
native_link: none
*/
/*@unit
name: DPRINTF8.DEBUG1
debug: 1
define: K_DSTMT, VM=DPRINTF8, VL=8, VCT=1
funcs: w_dstmt
backend: sat
timeout: 120
native: self
native_link: none
*/
/*@unit
name: DPRINTF9.DEBUG1
debug: 1
define: K_DSTMT, VM=DPRINTF9, VL=9, VCT=1
funcs: w_dstmt
backend: sat
timeout: 120
native: self
native_link: none
*/
/*@unit
name: ASSERT.DEBUG1
debug: 1
define: K_ASSERT
funcs: w_assert
backend: sat
timeout: 120
native: self
native_link: none
*/
/*@unit
name: ASSERT_RVAL.DEBUG1
debug: 1
define: K_ASSERT_RVAL
funcs: w_assert_rval
backend: sat
timeout: 120
native: self
native_link: none
*/
/*@unit
name: REQUIRE.DEBUG1
debug: 1
define: K_REQUIRE
funcs: w_require
backend: sat
timeout: 120
native: self
native_link: none
*/
/*@unit
name: REQUIRE_RVAL.DEBUG1
debug: 1
define: K_REQUIRE_RVAL
funcs: w_require_rval
backend: sat
timeout: 120
native: self
native_link: none
*/
/*@unit
name: ASSERT_NOTREACHED.DEBUG1
debug: 1
define: K_NOTREACHED
funcs: w_notreached
backend: sat
timeout: 120
native: self
native_link: none
*/
/*@unit
name: ASSERT_NOTREACHED_RVAL.DEBUG1
debug: 1
define: K_NOTREACHED_RVAL
funcs: w_notreached_rval
backend: sat
timeout: 120
native: self
native_link: none
*/
/*@unit
name: D_OPTIONS.DEBUG2
debug: 2
define: K_DSTMT, VM=D_OPTIONS, VL=DEBUG_OPTIONS, VCT=DEBUG_OPTIONS
funcs: w_dstmt
backend: sat
timeout: 120
native: self
native_link: none
*/
/*@unit
name: D_OBJ.DEBUG2
debug: 2
define: K_DSTMT, VM=D_OBJ, VL=DEBUG_OBJ, VCT=DEBUG_OBJ
funcs: w_dstmt
backend: sat
timeout: 120
native: self
native_link: none
*/
/*@unit
name: D_CONF.DEBUG2
debug: 2
define: K_DSTMT, VM=D_CONF, VL=DEBUG_CONF, VCT=DEBUG_CONF
funcs: w_dstmt
backend: sat
timeout: 120
native: self
native_link: none
*/
/*@unit
name: D_MEM.DEBUG2
debug: 2
define: K_DSTMT, VM=D_MEM, VL=DEBUG_MEM, VCT=DEBUG_MEM
funcs: w_dstmt
backend: sat
timeout: 120
native: self
native_link: none
*/
/*@unit
name: D_STRINGS.DEBUG2
debug: 2
define: K_DSTMT, VM=D_STRINGS, VL=DEBUG_STRINGS, VCT=DEBUG_STRINGS
funcs: w_dstmt
backend: sat
timeout: 120
native: self
native_link: none
*/
/*@unit
name: D_PARSE.DEBUG2
debug: 2
define: K_DSTMT, VM=D_PARSE, VL=DEBUG_PARSE, VCT=DEBUG_PARSE
funcs: w_dstmt
backend: sat
timeout: 120
native: self
native_link: none
*/
/*@unit
name: D_NEVER.DEBUG2
debug: 2
define: K_DSTMT, VM=D_NEVER, VL=0, VNEVER
funcs: w_dstmt
backend: sat
timeout: 120
native: self
native_link: none
*/
/*@unit
name: DPRINTF1.DEBUG2
debug: 2
define: K_DSTMT, VM=DPRINTF1, VL=1, VCT=1
funcs: w_dstmt
backend: sat
timeout: 120
native: self
native_link: none
*/
/*@unit
name: DPRINTF2.DEBUG2
debug: 2
define: K_DSTMT, VM=DPRINTF2, VL=2, VCT=1
funcs: w_dstmt
backend: sat
timeout: 120
native: self
native_link: none
*/
/*@unit
name: DPRINTF3.DEBUG2
debug: 2
define: K_DSTMT, VM=DPRINTF3, VL=3, VCT=1
funcs: w_dstmt
backend: sat
timeout: 120
native: self
native_link: none
*/
/*@unit
name: DPRINTF4.DEBUG2
debug: 2
define: K_DSTMT, VM=DPRINTF4, VL=4, VCT=1
funcs: w_dstmt
backend: sat
timeout: 120
native: self
native_link: none
*/
/*@unit
name: DPRINTF5.DEBUG2
debug: 2
define: K_DSTMT, VM=DPRINTF5, VL=5, VCT=1
funcs: w_dstmt
backend: sat
timeout: 120
native: self
native_link: none
*/
/*@unit
name: DPRINTF6.DEBUG2
debug: 2
define: K_DSTMT, VM=DPRINTF6, VL=6, VCT=1
funcs: w_dstmt
backend: sat
timeout: 120
native: self
native_link: none
*/
/*@unit
name: DPRINTF7.DEBUG2
debug: 2
define: K_DSTMT, VM=DPRINTF7, VL=7, VCT=1
funcs: w_dstmt
backend: sat
timeout: 120
native: self
native_link: none
*/
/*@unit
name: DPRINTF8.DEBUG2
debug: 2
define: K_DSTMT, VM=DPRINTF8, VL=8, VCT=1
funcs: w_dstmt
backend: sat
timeout: 120
native: self
native_link: none
*/
/*@unit
name: DPRINTF9.DEBUG2
debug: 2
define: K_DSTMT, VM=DPRINTF9, VL=9, VCT=1
funcs: w_dstmt
backend: sat
timeout: 120
native: self
native_link: none
*/
/*@unit
name: ASSERT.DEBUG2
debug: 2
define: K_ASSERT
funcs: w_assert
backend: sat
timeout: 120
native: self
native_link: none
*/
/*@unit
name: ASSERT_RVAL.DEBUG2
debug: 2
define: K_ASSERT_RVAL
funcs: w_assert_rval
backend: sat
timeout: 120
native: self
native_link: none
*/
/*@unit
name: REQUIRE.DEBUG2
debug: 2
define: K_REQUIRE
funcs: w_require
backend: sat
timeout: 120
native: self
native_link: none
*/
/*@unit
name: REQUIRE_RVAL.DEBUG2
debug: 2
define: K_REQUIRE_RVAL
funcs: w_require_rval
backend: sat
timeout: 120
native: self
native_link: none
*/
/*@unit
name: ASSERT_NOTREACHED.DEBUG2
debug: 2
define: K_NOTREACHED
funcs: w_notreached
backend: sat
timeout: 120
native: self
native_link: none
*/
/*@unit
name: ASSERT_NOTREACHED_RVAL.DEBUG2
debug: 2
define: K_NOTREACHED_RVAL
funcs: w_notreached_rval
backend: sat
timeout: 120
native: self
native_link: none
*/
/*@unit
name: D_OPTIONS.DEBUG3
debug: 3
define: K_DSTMT, VM=D_OPTIONS, VL=DEBUG_OPTIONS, VCT=DEBUG_OPTIONS
funcs: w_dstmt
backend: sat
timeout: 120
native: self
native_link: none
*/
/*@unit
name: D_OBJ.DEBUG3
debug: 3
define: K_DSTMT, VM=D_OBJ, VL=DEBUG_OBJ, VCT=DEBUG_OBJ
funcs: w_dstmt
backend: sat
timeout: 120
native: self
native_link: none
*/
/*@unit
name: D_CONF.DEBUG3
debug: 3
define: K_DSTMT, VM=D_CONF, VL=DEBUG_CONF, VCT=DEBUG_CONF
funcs: w_dstmt
backend: sat
timeout: 120
native: self
native_link: none
*/
/*@unit
name: D_MEM.DEBUG3
debug: 3
define: K_DSTMT, VM=D_MEM, VL=DEBUG_MEM, VCT=DEBUG_MEM
funcs: w_dstmt
backend: sat
timeout: 120
native: self
native_link: none
*/
/*@unit
name: D_STRINGS.DEBUG3
debug: 3
define: K_DSTMT, VM=D_STRINGS, VL=DEBUG_STRINGS, VCT=DEBUG_STRINGS
funcs: w_dstmt
backend: sat
timeout: 120
native: self
native_link: none
*/
/*@unit
name: D_PARSE.DEBUG3
debug: 3
define: K_DSTMT, VM=D_PARSE, VL=DEBUG_PARSE, VCT=DEBUG_PARSE
funcs: w_dstmt
backend: sat
timeout: 120
native: self
native_link: none
*/
/*@unit
name: D_NEVER.DEBUG3
debug: 3
define: K_DSTMT, VM=D_NEVER, VL=0, VNEVER
funcs: w_dstmt
backend: sat
timeout: 120
native: self
native_link: none
*/
/*@unit
name: DPRINTF1.DEBUG3
debug: 3
define: K_DSTMT, VM=DPRINTF1, VL=1, VCT=1
funcs: w_dstmt
backend: sat
timeout: 120
native: self
native_link: none
*/
/*@unit
name: DPRINTF2.DEBUG3
debug: 3
define: K_DSTMT, VM=DPRINTF2, VL=2, VCT=1
funcs: w_dstmt
backend: sat
timeout: 120
native: self
native_link: none
*/
/*@unit
name: DPRINTF3.DEBUG3
debug: 3
define: K_DSTMT, VM=DPRINTF3, VL=3, VCT=1
funcs: w_dstmt
backend: sat
timeout: 120
native: self
native_link: none
*/
/*@unit
name: DPRINTF4.DEBUG3
debug: 3
define: K_DSTMT, VM=DPRINTF4, VL=4, VCT=1
funcs: w_dstmt
backend: sat
timeout: 120
native: self
native_link: none
*/
/*@unit
name: DPRINTF5.DEBUG3
debug: 3
define: K_DSTMT, VM=DPRINTF5, VL=5, VCT=1
funcs: w_dstmt
backend: sat
timeout: 120
native: self
native_link: none
*/
/*@unit
name: DPRINTF6.DEBUG3
debug: 3
define: K_DSTMT, VM=DPRINTF6, VL=6, VCT=1
funcs: w_dstmt
backend: sat
timeout: 120
native: self
native_link: none
*/
/*@unit
name: DPRINTF7.DEBUG3
debug: 3
define: K_DSTMT, VM=DPRINTF7, VL=7, VCT=1
funcs: w_dstmt
backend: sat
timeout: 120
native: self
native_link: none
*/
/*@unit
name: DPRINTF8.DEBUG3
debug: 3
define: K_DSTMT, VM=DPRINTF8, VL=8, VCT=1
funcs: w_dstmt
backend: sat
timeout: 120
native: self
native_link: none
*/
/*@unit
name: DPRINTF9.DEBUG3
debug: 3
define: K_DSTMT, VM=DPRINTF9, VL=9, VCT=1
funcs: w_dstmt
backend: sat
timeout: 120
native: self
native_link: none
*/
/*@unit
name: ASSERT.DEBUG3
debug: 3
define: K_ASSERT
funcs: w_assert
backend: sat
timeout: 120
native: self
native_link: none
*/
/*@unit
name: ASSERT_RVAL.DEBUG3
debug: 3
define: K_ASSERT_RVAL
funcs: w_assert_rval
backend: sat
timeout: 120
native: self
native_link: none
*/
/*@unit
name: REQUIRE.DEBUG3
debug: 3
define: K_REQUIRE
funcs: w_require
backend: sat
timeout: 120
native: self
native_link: none
*/
/*@unit
name: REQUIRE_RVAL.DEBUG3
debug: 3
define: K_REQUIRE_RVAL
funcs: w_require_rval
backend: sat
timeout: 120
native: self
native_link: none
*/
/*@unit
name: ASSERT_NOTREACHED.DEBUG3
debug: 3
define: K_NOTREACHED
funcs: w_notreached
backend: sat
timeout: 120
native: self
native_link: none
*/
/*@unit
name: ASSERT_NOTREACHED_RVAL.DEBUG3
debug: 3
define: K_NOTREACHED_RVAL
funcs: w_notreached_rval
backend: sat
timeout: 120
native: self
native_link: none
*/
/*@unit
name: D_OPTIONS.DEBUG4
debug: 4
define: K_DSTMT, VM=D_OPTIONS, VL=DEBUG_OPTIONS, VCT=DEBUG_OPTIONS
funcs: w_dstmt
backend: sat
timeout: 120
native: self
native_link: none
*/
/*@unit
name: D_OBJ.DEBUG4
debug: 4
define: K_DSTMT, VM=D_OBJ, VL=DEBUG_OBJ, VCT=DEBUG_OBJ
funcs: w_dstmt
backend: sat
timeout: 120
native: self
native_link: none
*/
/*@unit
name: D_CONF.DEBUG4
debug: 4
define: K_DSTMT, VM=D_CONF, VL=DEBUG_CONF, VCT=DEBUG_CONF
funcs: w_dstmt
backend: sat
timeout: 120
native: self
native_link: none
*/
/*@unit
name: D_MEM.DEBUG4
debug: 4
define: K_DSTMT, VM=D_MEM, VL=DEBUG_MEM, VCT=DEBUG_MEM
funcs: w_dstmt
backend: sat
timeout: 120
native: self
native_link: none
*/
/*@unit
name: D_STRINGS.DEBUG4
debug: 4
define: K_DSTMT, VM=D_STRINGS, VL=DEBUG_STRINGS, VCT=DEBUG_STRINGS
funcs: w_dstmt
backend: sat
timeout: 120
native: self
native_link: none
*/
/*@unit
name: D_PARSE.DEBUG4
debug: 4
define: K_DSTMT, VM=D_PARSE, VL=DEBUG_PARSE, VCT=DEBUG_PARSE
funcs: w_dstmt
backend: sat
timeout: 120
native: self
native_link: none
*/
/*@unit
name: D_NEVER.DEBUG4
debug: 4
define: K_DSTMT, VM=D_NEVER, VL=0, VNEVER
funcs: w_dstmt
backend: sat
timeout: 120
native: self
native_link: none
*/
/*@unit
name: DPRINTF1.DEBUG4
debug: 4
define: K_DSTMT, VM=DPRINTF1, VL=1, VCT=1
funcs: w_dstmt
backend: sat
timeout: 120
native: self
native_link: none
*/
/*@unit
name: DPRINTF2.DEBUG4
debug: 4
define: K_DSTMT, VM=DPRINTF2, VL=2, VCT=1
funcs: w_dstmt
backend: sat
timeout: 120
native: self
native_link: none
*/
/*@unit
name: DPRINTF3.DEBUG4
debug: 4
define: K_DSTMT, VM=DPRINTF3, VL=3, VCT=1
funcs: w_dstmt
backend: sat
timeout: 120
native: self
native_link: none
*/
/*@unit
name: DPRINTF4.DEBUG4
debug: 4
define: K_DSTMT, VM=DPRINTF4, VL=4, VCT=1
funcs: w_dstmt
backend: sat
timeout: 120
native: self
native_link: none
*/
/*@unit
name: DPRINTF5.DEBUG4
debug: 4
define: K_DSTMT, VM=DPRINTF5, VL=5, VCT=1
funcs: w_dstmt
backend: sat
timeout: 120
native: self
native_link: none
*/
/*@unit
name: DPRINTF6.DEBUG4
debug: 4
define: K_DSTMT, VM=DPRINTF6, VL=6, VCT=1
funcs: w_dstmt
backend: sat
timeout: 120
native: self
native_link: none
*/
/*@unit
name: DPRINTF7.DEBUG4
debug: 4
define: K_DSTMT, VM=DPRINTF7, VL=7, VCT=1
funcs: w_dstmt
backend: sat
timeout: 120
native: self
native_link: none
*/
/*@unit
name: DPRINTF8.DEBUG4
debug: 4
define: K_DSTMT, VM=DPRINTF8, VL=8, VCT=1
funcs: w_dstmt
backend: sat
timeout: 120
native: self
native_link: none
*/
/*@unit
name: DPRINTF9.DEBUG4
debug: 4
define: K_DSTMT, VM=DPRINTF9, VL=9, VCT=1
funcs: w_dstmt
backend: sat
timeout: 120
native: self
native_link: none
*/
/*@unit
name: ASSERT.DEBUG4
debug: 4
define: K_ASSERT
funcs: w_assert
backend: sat
timeout: 120
native: self
native_link: none
*/
/*@unit
name: ASSERT_RVAL.DEBUG4
debug: 4
define: K_ASSERT_RVAL
funcs: w_assert_rval
backend: sat
timeout: 120
native: self
native_link: none
*/
/*@unit
name: REQUIRE.DEBUG4
debug: 4
define: K_REQUIRE
funcs: w_require
backend: sat
timeout: 120
native: self
native_link: none
*/
/*@unit
name: REQUIRE_RVAL.DEBUG4
debug: 4
define: K_REQUIRE_RVAL
funcs: w_require_rval
backend: sat
timeout: 120
native: self
native_link: none
*/
/*@unit
name: ASSERT_NOTREACHED.DEBUG4
debug: 4
define: K_NOTREACHED
funcs: w_notreached
backend: sat
timeout: 120
native: self
native_link: none
*/
/*@unit
name: ASSERT_NOTREACHED_RVAL.DEBUG4
debug: 4
define: K_NOTREACHED_RVAL
funcs: w_notreached_rval
backend: sat
timeout: 120
native: self
native_link: none
*/
/*@unit
name: D_OPTIONS.DEBUG5
debug: 5
define: K_DSTMT, VM=D_OPTIONS, VL=DEBUG_OPTIONS, VCT=DEBUG_OPTIONS
funcs: w_dstmt
backend: sat
timeout: 120
native: self
native_link: none
*/
/*@unit
name: D_OBJ.DEBUG5
debug: 5
define: K_DSTMT, VM=D_OBJ, VL=DEBUG_OBJ, VCT=DEBUG_OBJ
funcs: w_dstmt
backend: sat
timeout: 120
native: self
native_link: none
*/
/*@unit
name: D_CONF.DEBUG5
debug: 5
define: K_DSTMT, VM=D_CONF, VL=DEBUG_CONF, VCT=DEBUG_CONF
funcs: w_dstmt
backend: sat
timeout: 120
native: self
native_link: none
*/
/*@unit
name: D_MEM.DEBUG5
debug: 5
define: K_DSTMT, VM=D_MEM, VL=DEBUG_MEM, VCT=DEBUG_MEM
funcs: w_dstmt
backend: sat
timeout: 120
native: self
native_link: none
*/
/*@unit
name: D_STRINGS.DEBUG5
debug: 5
define: K_DSTMT, VM=D_STRINGS, VL=DEBUG_STRINGS, VCT=DEBUG_STRINGS
funcs: w_dstmt
backend: sat
timeout: 120
native: self
native_link: none
*/
/*@unit
name: D_PARSE.DEBUG5
debug: 5
define: K_DSTMT, VM=D_PARSE, VL=DEBUG_PARSE, VCT=DEBUG_PARSE
funcs: w_dstmt
backend: sat
timeout: 120
native: self
native_link: none
*/
/*@unit
name: D_NEVER.DEBUG5
debug: 5
define: K_DSTMT, VM=D_NEVER, VL=0, VNEVER
funcs: w_dstmt
backend: sat
timeout: 120
native: self
native_link: none
*/
/*@unit
name: DPRINTF1.DEBUG5
debug: 5
define: K_DSTMT, VM=DPRINTF1, VL=1, VCT=1
funcs: w_dstmt
backend: sat
timeout: 120
native: self
native_link: none
*/
/*@unit
name: DPRINTF2.DEBUG5
debug: 5
define: K_DSTMT, VM=DPRINTF2, VL=2, VCT=1
funcs: w_dstmt
backend: sat
timeout: 120
native: self
native_link: none
*/
/*@unit
name: DPRINTF3.DEBUG5
debug: 5
define: K_DSTMT, VM=DPRINTF3, VL=3, VCT=1
funcs: w_dstmt
backend: sat
timeout: 120
native: self
native_link: none
*/
/*@unit
name: DPRINTF4.DEBUG5
debug: 5
define: K_DSTMT, VM=DPRINTF4, VL=4, VCT=1
funcs: w_dstmt
backend: sat
timeout: 120
native: self
native_link: none
*/
/*@unit
name: DPRINTF5.DEBUG5
debug: 5
define: K_DSTMT, VM=DPRINTF5, VL=5, VCT=1
funcs: w_dstmt
backend: sat
timeout: 120
native: self
native_link: none
*/
/*@unit
name: DPRINTF6.DEBUG5
debug: 5
define: K_DSTMT, VM=DPRINTF6, VL=6, VCT=1
funcs: w_dstmt
backend: sat
timeout: 120
native: self
native_link: none
*/
/*@unit
name: DPRINTF7.DEBUG5
debug: 5
define: K_DSTMT, VM=DPRINTF7, VL=7, VCT=1
funcs: w_dstmt
backend: sat
timeout: 120
native: self
native_link: none
*/
/*@unit
name: DPRINTF8.DEBUG5
debug: 5
define: K_DSTMT, VM=DPRINTF8, VL=8, VCT=1
funcs: w_dstmt
backend: sat
timeout: 120
native: self
native_link: none
*/
/*@unit
name: DPRINTF9.DEBUG5
debug: 5
define: K_DSTMT, VM=DPRINTF9, VL=9, VCT=1
funcs: w_dstmt
backend: sat
timeout: 120
native: self
native_link: none
*/
/*@unit
name: ASSERT.DEBUG5
debug: 5
define: K_ASSERT
funcs: w_assert
backend: sat
timeout: 120
native: self
native_link: none
*/
/*@unit
name: ASSERT_RVAL.DEBUG5
debug: 5
define: K_ASSERT_RVAL
funcs: w_assert_rval
backend: sat
timeout: 120
native: self
native_link: none
*/
/*@unit
name: REQUIRE.DEBUG5
debug: 5
define: K_REQUIRE
funcs: w_require
backend: sat
timeout: 120
native: self
native_link: none
*/
/*@unit
name: REQUIRE_RVAL.DEBUG5
debug: 5
define: K_REQUIRE_RVAL
funcs: w_require_rval
backend: sat
timeout: 120
native: self
native_link: none
*/
/*@unit
name: ASSERT_NOTREACHED.DEBUG5
debug: 5
define: K_NOTREACHED
funcs: w_notreached
backend: sat
timeout: 120
native: self
native_link: none
*/
/*@unit
name: ASSERT_NOTREACHED_RVAL.DEBUG5
debug: 5
define: K_NOTREACHED_RVAL
funcs: w_notreached_rval
backend: sat
timeout: 120
native: self
native_link: none
*/
/*@unit
name: D_OPTIONS.DEBUG9999
debug: 9999
define: K_DSTMT, VM=D_OPTIONS, VL=DEBUG_OPTIONS, VCT=DEBUG_OPTIONS
funcs: w_dstmt
backend: sat
timeout: 120
native: self
native_link: none
*/
/*@unit
name: D_OBJ.DEBUG9999
debug: 9999
define: K_DSTMT, VM=D_OBJ, VL=DEBUG_OBJ, VCT=DEBUG_OBJ
funcs: w_dstmt
backend: sat
timeout: 120
native: self
native_link: none
*/
/*@unit
name: D_CONF.DEBUG9999
debug: 9999
define: K_DSTMT, VM=D_CONF, VL=DEBUG_CONF, VCT=DEBUG_CONF
funcs: w_dstmt
backend: sat
timeout: 120
native: self
native_link: none
*/
/*@unit
name: D_MEM.DEBUG9999
debug: 9999
define: K_DSTMT, VM=D_MEM, VL=DEBUG_MEM, VCT=DEBUG_MEM
funcs: w_dstmt
backend: sat
timeout: 120
native: self
native_link: none
*/
/*@unit
name: D_STRINGS.DEBUG9999
debug: 9999
define: K_DSTMT, VM=D_STRINGS, VL=DEBUG_STRINGS, VCT=DEBUG_STRINGS
funcs: w_dstmt
backend: sat
timeout: 120
native: self
native_link: none
*/
/*@unit
name: D_PARSE.DEBUG9999
debug: 9999
define: K_DSTMT, VM=D_PARSE, VL=DEBUG_PARSE, VCT=DEBUG_PARSE
funcs: w_dstmt
backend: sat
timeout: 120
native: self
native_link: none
*/
/*@unit
name: D_NEVER.DEBUG9999
debug: 9999
define: K_DSTMT, VM=D_NEVER, VL=0, VNEVER
funcs: w_dstmt
backend: sat
timeout: 120
native: self
native_link: none
*/
/*@unit
name: DPRINTF1.DEBUG9999
debug: 9999
define: K_DSTMT, VM=DPRINTF1, VL=1, VCT=1
funcs: w_dstmt
backend: sat
timeout: 120
native: self
native_link: none
*/
/*@unit
name: DPRINTF2.DEBUG9999
debug: 9999
define: K_DSTMT, VM=DPRINTF2, VL=2, VCT=1
funcs: w_dstmt
backend: sat
timeout: 120
native: self
native_link: none
*/
/*@unit
name: DPRINTF3.DEBUG9999
debug: 9999
define: K_DSTMT, VM=DPRINTF3, VL=3, VCT=1
funcs: w_dstmt
backend: sat
timeout: 120
native: self
native_link: none
*/
/*@unit
name: DPRINTF4.DEBUG9999
debug: 9999
define: K_DSTMT, VM=DPRINTF4, VL=4, VCT=1
funcs: w_dstmt
backend: sat
timeout: 120
native: self
native_link: none
*/
/*@unit
name: DPRINTF5.DEBUG9999
debug: 9999
define: K_DSTMT, VM=DPRINTF5, VL=5, VCT=1
funcs: w_dstmt
backend: sat
timeout: 120
native: self
native_link: none
*/
/*@unit
name: DPRINTF6.DEBUG9999
debug: 9999
define: K_DSTMT, VM=DPRINTF6, VL=6, VCT=1
funcs: w_dstmt
backend: sat
timeout: 120
native: self
native_link: none
*/
/*@unit
name: DPRINTF7.DEBUG9999
debug: 9999
define: K_DSTMT, VM=DPRINTF7, VL=7, VCT=1
funcs: w_dstmt
backend: sat
timeout: 120
native: self
native_link: none
*/
/*@unit
name: DPRINTF8.DEBUG9999
debug: 9999
define: K_DSTMT, VM=DPRINTF8, VL=8, VCT=1
funcs: w_dstmt
backend: sat
timeout: 120
native: self
native_link: none
*/
/*@unit
name: DPRINTF9.DEBUG9999
debug: 9999
define: K_DSTMT, VM=DPRINTF9, VL=9, VCT=1
funcs: w_dstmt
backend: sat
timeout: 120
native: self
native_link: none
*/
/*@unit
name: ASSERT.DEBUG9999
debug: 9999
define: K_ASSERT
funcs: w_assert
backend: sat
timeout: 120
native: self
native_link: none
*/
/*@unit
name: ASSERT_RVAL.DEBUG9999
debug: 9999
define: K_ASSERT_RVAL
funcs: w_assert_rval
backend: sat
timeout: 120
native: self
native_link: none
*/
/*@unit
name: REQUIRE.DEBUG9999
debug: 9999
define: K_REQUIRE
funcs: w_require
backend: sat
timeout: 120
native: self
native_link: none
*/
/*@unit
name: REQUIRE_RVAL.DEBUG9999
debug: 9999
define: K_REQUIRE_RVAL
funcs: w_require_rval
backend: sat
timeout: 120
native: self
native_link: none
*/
/*@unit
name: ASSERT_NOTREACHED.DEBUG9999
debug: 9999
define: K_NOTREACHED
funcs: w_notreached
backend: sat
timeout: 120
native: self
native_link: none
*/
/*@unit
name: ASSERT_NOTREACHED_RVAL.DEBUG9999
debug: 9999
define: K_NOTREACHED_RVAL
funcs: w_notreached_rval
backend: sat
timeout: 120
native: self
native_link: none
*/
/* ==== BODY (hand-written) ==================================================
 * C20: debug output and assertions are gated exactly by the compile-time
 * maximum DEBUG and the runtime level libast_debug_level.
 *
 * Each macro of the family is wrapped in a one-line function; the wrapper's
 * postcondition is the property statement; the real <libast.h> supplies the
 * macro, compiled once per DEBUG value against a shadow config.h (driver field
 * `debug:`).  The runtime level is a fully symbolic unsigned int, so each unit
 * covers all 2^32 runtime levels.  Output functions are counting stubs:
 * "produces output" = libast_dprintf called once; "evaluates its arguments" =
 * the side-effecting argument expression ran.
 *
 * The variadic output stubs write ghost counters; DFCC cannot pass its write set
 * through a variadic call (probed: "unwinding assertion loop 0" inside the
 * contracts library), so these loop-free units are plain cbmc runs: the
 * wrapper's postcondition is asserted by the harness right after the call with
 * the pre-state snapshot in `o`.  Loop-free + fully symbolic level = complete.
 */
#define VERIF_REAL_MSGS
#include "vprelude.h"

unsigned int libast_debug_level;
unsigned long libast_debug_flags;
spif_charptr_t libast_program_name, libast_program_version;

struct vcnt { unsigned dprintf_, warn, error, fatal, eval, after; } vc, o;
int libast_dprintf(const char *format, ...) { vc.dprintf_++; return 0; }
void libast_print_error(const char *fmt, ...) { vc.error++; }
void libast_print_warning(const char *fmt, ...) { vc.warn++; }
/* the real one exits; here it records and returns so the postcondition can see it */
void libast_fatal_error(const char *fmt, ...) { vc.fatal++; }

static int v_arg(void) { vc.eval++; return 1; }      /* argument with a counted side effect */
static int v_cond(int x) { vc.eval++; return x; }     /* condition with a counted side effect */

#define PRE()    do { libast_debug_level = VND(uint, libast_debug_level); o = vc; } while (0)
#define ENS(c)   __CPROVER_assert((c), "postcondition: " #c)
#define SAME(f)  (vc.f == o.f)
#define PLUS1(f) (vc.f == o.f + 1)
#define LVL      libast_debug_level

#ifdef K_DSTMT
/* D_x / DPRINTFn statement of level VL: output iff compiled in (DEBUG >= VCT) and runtime level >= VL;
 * arguments evaluated iff output produced. */
# ifdef VNEVER
#  define ENABLED 0
# else
#  define ENABLED ((DEBUG >= (VCT)) && (LVL >= (VL)))
# endif
void w_dstmt(void) { VM(("value %d\n", v_arg())); }
void harness(void)
{
    PRE();
    w_dstmt();
    ENS(vc.dprintf_ == o.dprintf_ + (ENABLED ? 1 : 0));
    ENS(vc.eval == o.eval + (ENABLED ? 1 : 0));
    ENS(SAME(warn) && SAME(error) && SAME(fatal));
    VERIF_CANARY();
}
#endif

#ifdef K_ASSERT_RVAL
/* DEBUG >= 1: failed ASSERT warns and returns the value at level 0, fatal at level >= 1.
 * DEBUG == 0: ASSERT vanishes (condition not even evaluated). */
int w_assert_rval(int x) { ASSERT_RVAL(v_cond(x), 7); return 1; }
void harness(void)
{
    int x = VND(int, x), r;
    PRE();
    r = w_assert_rval(x);
# if DEBUG >= 1
    ENS(PLUS1(eval) && SAME(dprintf_) && SAME(error));
    ENS(x == 0 || (r == 1 && SAME(warn) && SAME(fatal)));
    ENS(!(x == 0 && LVL == 0) || (r == 7 && PLUS1(warn) && SAME(fatal)));
    ENS(!(x == 0 && LVL >= 1) || (PLUS1(fatal) && SAME(warn)));
# else
    ENS(SAME(eval) && SAME(dprintf_) && SAME(error) && SAME(warn) && SAME(fatal));
    ENS(r == 1);
# endif
    VERIF_CANARY();
}
#endif

#ifdef K_ASSERT
void w_assert(int x) { ASSERT(v_cond(x)); vc.after = 1; }
void harness(void)
{
    int x = VND(int, x);
    PRE();
    w_assert(x);
# if DEBUG >= 1
    ENS(PLUS1(eval) && SAME(dprintf_) && SAME(error));
    ENS(x == 0 || (vc.after == 1 && SAME(warn) && SAME(fatal)));
    ENS(!(x == 0 && LVL == 0) || (vc.after == 0 && PLUS1(warn) && SAME(fatal)));
    ENS(!(x == 0 && LVL >= 1) || (PLUS1(fatal) && SAME(warn)));
# else
    ENS(SAME(eval) && SAME(dprintf_) && SAME(error) && SAME(warn) && SAME(fatal) && vc.after == 1);
# endif
    VERIF_CANARY();
}
#endif

#ifdef K_REQUIRE_RVAL
/* failed REQUIRE only returns the value; it logs (one dprintf) iff compiled in and level >= 1;
 * DEBUG == 0: bare `if (!(x)) return v;` */
int w_require_rval(int x) { REQUIRE_RVAL(v_cond(x), 7); return 1; }
void harness(void)
{
    int x = VND(int, x), r;
    PRE();
    r = w_require_rval(x);
    ENS(PLUS1(eval) && SAME(error) && SAME(warn) && SAME(fatal));
    ENS(x == 0 || (r == 1 && SAME(dprintf_)));
    ENS(x != 0 || (r == 7 && vc.dprintf_ == o.dprintf_ + ((DEBUG >= 1 && LVL >= 1) ? 1 : 0)));
    VERIF_CANARY();
}
#endif

#ifdef K_REQUIRE
void w_require(int x) { REQUIRE(v_cond(x)); vc.after = 1; }
void harness(void)
{
    int x = VND(int, x);
    PRE();
    w_require(x);
    ENS(PLUS1(eval) && SAME(error) && SAME(warn) && SAME(fatal));
    ENS(x == 0 || (vc.after == 1 && SAME(dprintf_)));
    ENS(x != 0 || (vc.after == 0 && vc.dprintf_ == o.dprintf_ + ((DEBUG >= 1 && LVL >= 1) ? 1 : 0)));
    VERIF_CANARY();
}
#endif

#ifdef K_NOTREACHED_RVAL
/* reaching the statement is a failed assertion: DEBUG >= 1: warn + return value at level 0, fatal at >= 1;
 * DEBUG == 0: bare return of the value */
int w_notreached_rval(void) { ASSERT_NOTREACHED_RVAL(7); return 1; }
void harness(void)
{
    int r;
    PRE();
    r = w_notreached_rval();
    ENS(SAME(dprintf_) && SAME(error));
# if DEBUG >= 1
    ENS(LVL != 0 || (r == 7 && PLUS1(warn) && SAME(fatal)));
    ENS(LVL == 0 || (PLUS1(fatal) && SAME(warn)));
# else
    ENS(r == 7 && SAME(warn) && SAME(fatal));
# endif
    VERIF_CANARY();
}
#endif

#ifdef K_NOTREACHED
void w_notreached(void) { ASSERT_NOTREACHED(); vc.after = 1; }
void harness(void)
{
    PRE();
    w_notreached();
    ENS(SAME(dprintf_) && SAME(error));
# if DEBUG >= 1
    ENS(LVL != 0 || (PLUS1(warn) && SAME(fatal)));
    ENS(LVL == 0 || (PLUS1(fatal) && SAME(warn)));
# else
    ENS(SAME(warn) && SAME(fatal) && vc.after == 0);
# endif
    VERIF_CANARY();
}
#endif
