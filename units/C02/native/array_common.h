/* array_common.h — shared part of the native replay templates of the array / objpair units
 * (owner: array).  The template #includes the REAL /repo/src/array.c (static functions are then
 * callable), is built with clang ASan+UBSan and run with the verifier's witness in W_<name>.
 *
 * Elements are REAL libast objects of a tiny class "nelem" (an int key; comp = three-way compare of
 * the keys with the documented NULL ordering, dup = fresh copy, del = free), so the real dispatch
 * macros SPIF_OBJ_COMP / _DUP / _DEL run unchanged.  The oracle is an IDEAL model written from the
 * property statement (an array of element pointers, NULL = placeholder; a key/value table for
 * maps); it never looks at the code under test.
 *
 * Inputs.  cbmc's witness lives in the abstract model (symbolic lengths up to 2^28 slots, opaque
 * element pointers), so it is used as follows: the scalars recorded by the harness (w_len, w_idx,
 * vg_k ...) are replayed AS THEY ARE when the state they describe is small enough to build
 * (len <= NA_MAXLEN); the replay then continues with a systematic sweep of small states around
 * it (every length 0..NA_SWEEP, every placeholder / duplicate pattern, every position from
 * -(len+3) to len+3, every probe key) because most witnesses are about states of 10^8 slots.
 * The first input on which the real code violates the ideal model (or a sanitizer fires) is
 * printed; exit 3 = obligation false, exit 66 = sanitizer report. */
#ifndef ARRAY_COMMON_H
#define ARRAY_COMMON_H
#include <libast_internal.h>
#include "vnative.h"

#define NA_MAXLEN 4096
#define NA_SWEEP  5
#define NOKEY     (-1000)          /* "this slot is a NULL placeholder" in key patterns */

/* ---- the element class ---------------------------------------------------------------- */
typedef struct nelem_struct { spif_class_t cls; int key; } *nelem_t;
static long na_live;                                  /* live nelem objects (ownership checks) */
static nelem_t nelem_new(void);
static spif_bool_t nelem_init(nelem_t s) { s->key = 0; return TRUE; }
static spif_bool_t nelem_done(nelem_t s) { return TRUE; }
static spif_bool_t nelem_del(nelem_t s) { na_live--; free(s); return TRUE; }
static spif_str_t nelem_show(nelem_t s, spif_charptr_t n, spif_str_t b, size_t i) { return b; }
static spif_cmp_t nelem_comp(nelem_t a, nelem_t b)
{
    SPIF_OBJ_COMP_CHECK_NULL(a, b);
    return (a->key < b->key) ? SPIF_CMP_LESS : ((a->key > b->key) ? SPIF_CMP_GREATER : SPIF_CMP_EQUAL);
}
static nelem_t nelem_dup(nelem_t s);
static spif_classname_t nelem_type(nelem_t s) { return (spif_classname_t) "!nelem!"; }
static spif_const_class_t nelem_class = {
    (spif_classname_t) "!nelem!", (spif_func_t) nelem_new, (spif_func_t) nelem_init, (spif_func_t) nelem_done,
    (spif_func_t) nelem_del, (spif_func_t) nelem_show, (spif_func_t) nelem_comp, (spif_func_t) nelem_dup, (spif_func_t) nelem_type
};
static nelem_t nelem_new(void) { nelem_t e = malloc(sizeof(*e)); e->cls = &nelem_class; e->key = 0; na_live++; return e; }
static nelem_t nelem_dup(nelem_t s) { nelem_t e = nelem_new(); e->key = s->key; return e; }
static spif_obj_t E(int key) { nelem_t e; if (key == NOKEY) return (spif_obj_t) NULL; e = nelem_new(); e->key = key; return (spif_obj_t) e; }
#define KEYOF(o) (((nelem_t) (o))->key)

/* ---- reporting ------------------------------------------------------------------------- */
static char na_ctx[512];                              /* description of the input being tried */
#define NA_FAIL(...) do { fprintf(stderr, "NATIVE-REPLAY: obligation fails on the real code: "); fprintf(stderr, __VA_ARGS__); \
                          fprintf(stderr, "\nNATIVE-REPLAY: failing input: %s\n", na_ctx); exit(3); } while (0)
/* a sanitizer report also names the input it happened on */
#include <sanitizer/common_interface_defs.h>
static void na_death(void) { fprintf(stderr, "NATIVE-REPLAY: sanitizer report on the real code; failing input: %s\n", na_ctx); }
#define NA_INIT() __sanitizer_set_death_callback(na_death)
#define NA_CHECK(c, ...) do { if (!(c)) NA_FAIL(__VA_ARGS__); } while (0)

/* ---- building a real array container from an ideal sequence ------------------------------ */
/* kind: 0 list, 1 vector, 2 map.  p[0..n) are the element pointers (NULL = placeholder). */
static spif_array_t na_build(int kind, spif_obj_t *p, long n)
{
    spif_array_t a = (kind == 0) ? spif_array_list_new() : ((kind == 1) ? spif_array_vector_new() : spif_array_map_new());
    long i;
    a->len = (spif_listidx_t) n;
    a->items = n ? (spif_obj_t *) malloc(sizeof(spif_obj_t) * n) : (spif_obj_t *) NULL;     /* exactly n slots */
    for (i = 0; i < n; i++) a->items[i] = p[i];
    return a;
}
/* the container holds exactly the ideal sequence (same pointers, same order, exactly n slots:
 * ASan guards the block, so a shorter block is caught when slot n-1 is read here) */
static void na_same(spif_array_t a, spif_obj_t *p, long n, const char *what)
{
    long i;
    NA_CHECK(a->len == n, "%s: length is %ld, the ideal sequence has %ld", what, (long) a->len, n);
    NA_CHECK(n == 0 || a->items != NULL, "%s: items is NULL for a non-empty sequence", what);
    for (i = 0; i < n; i++) NA_CHECK(a->items[i] == p[i], "%s: slot %ld differs from the ideal sequence", what, i);
}
/* key pattern number pat over `base` symbols (symbol 0 = NULL placeholder when holes != 0) */
static void na_pattern(long pat, int base, int holes, int *keys, long n)
{
    long i;
    for (i = 0; i < n; i++) { int d = (int) (pat % base); pat /= base; keys[i] = (holes && d == 0) ? NOKEY : d; }
}
static long na_pow(long b, long e) { long r = 1; while (e-- > 0) r *= b; return r; }
static long na_norm(long idx, long len) { return idx < 0 ? idx + len : idx; }
#endif
