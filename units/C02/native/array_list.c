/* Native replay of the C02 array-list units (and of the C04 / C06 units that re-check the same
 * functions).  One template, selected by the unit's -D flags.  See array_common.h. */
#include <libast_internal.h>
#include "array.c"
#include "units/C02/native/array_common.h"

/* one input: a list with key pattern keys[0..n) (NOKEY = placeholder), a position, a probe key */
static void run_case(const int *keys, long n, long idx, int probe_key)
{
    spif_obj_t p[NA_MAXLEN + 8], q[NA_MAXLEN + 8];        /* ideal sequence before / after */
    spif_obj_t probe = E(probe_key), r;
    spif_array_t a;
    long i, m, nn = n;
    (void) m; (void) r; (void) q; (void) nn;

    for (i = 0; i < n; i++) p[i] = E(keys[i]);
    a = na_build(0, p, n);
    snprintf(na_ctx, sizeof(na_ctx), "len=%ld idx=%ld probe=%s%d keys=[", n, idx, probe_key == NOKEY ? "NULL " : "", probe_key == NOKEY ? 0 : probe_key);
    for (i = 0; i < n && i < 12; i++) snprintf(na_ctx + strlen(na_ctx), sizeof(na_ctx) - strlen(na_ctx), keys[i] == NOKEY ? "NULL " : "%d ", keys[i]);
    snprintf(na_ctx + strlen(na_ctx), sizeof(na_ctx) - strlen(na_ctx), "]");

#if defined(U_COUNT)
    NA_CHECK(spif_array_count(a) == n, "count() is not the length");
#elif defined(U_GET)
    r = spif_array_get(a, (spif_listidx_t) idx);
    m = na_norm(idx, n);
    NA_CHECK(r == ((m >= 0 && m < n) ? p[m] : (spif_obj_t) NULL), "get(%ld) is not the element at the normalised position / NULL", idx);
    na_same(a, p, n, "get must not change the list");
#elif defined(U_APPEND)
    NA_CHECK(spif_array_append(a, probe) == TRUE, "append did not return TRUE");
    p[n] = probe; na_same(a, p, n + 1, "after append");
#elif defined(U_PREPEND)
    if (probe == NULL) { NA_CHECK(spif_array_prepend(a, probe) == FALSE, "prepend(NULL) not refused"); na_same(a, p, n, "refused prepend"); }
    else { NA_CHECK(spif_array_prepend(a, probe) == TRUE, "prepend did not return TRUE");
           q[0] = probe; for (i = 0; i < n; i++) q[i + 1] = p[i]; na_same(a, q, n + 1, "after prepend"); }
#elif defined(U_REMOVE_AT)
    r = spif_array_remove_at(a, (spif_listidx_t) idx);
    m = na_norm(idx, n);
    if (m < 0 || m >= n) { NA_CHECK(r == NULL, "remove_at(%ld) outside the list did not return NULL", idx); na_same(a, p, n, "refused remove_at"); }
    else { NA_CHECK(r == p[m], "remove_at(%ld) did not hand back the element at that position", idx);
           for (i = 0; i < n - 1; i++) q[i] = p[i < m ? i : i + 1]; na_same(a, q, n - 1, "after remove_at"); }
#elif defined(U_INSERT_AT)
    {
        spif_bool_t t;
        m = na_norm(idx, n);
        /* the unit's behaviour (disjoint preconditions B_NULL / B_NEG / B_MID / B_GROW) */
# if defined(B_NULL)
        if (probe != NULL) return;
# elif defined(B_NEG)
        if (probe == NULL || m >= 0) return;
# elif defined(B_MID)
        if (probe == NULL || m < 0 || m > n) return;
# elif defined(B_GROW)
        if (probe == NULL || m <= n) return;
# endif
        t = spif_array_insert_at(a, probe, (spif_listidx_t) idx);
        if (probe == NULL || m < 0) { NA_CHECK(t == FALSE, "insert_at(%ld) not refused", idx); na_same(a, p, n, "refused insert_at"); }
        else if (m <= n) { NA_CHECK(t == TRUE, "insert_at did not return TRUE");
            for (i = 0; i < m; i++) q[i] = p[i]; q[m] = probe; for (i = m; i < n; i++) q[i + 1] = p[i]; na_same(a, q, n + 1, "after insert_at inside the list"); }
        else { NA_CHECK(t == TRUE, "insert_at did not return TRUE");
            for (i = 0; i < n; i++) q[i] = p[i]; for (i = n; i < m; i++) q[i] = NULL; q[m] = probe; na_same(a, q, m + 1, "after insert_at past the end (NULL placeholders)"); }
    }
#elif defined(U_REVERSE)
    NA_CHECK(spif_array_reverse(a) == TRUE, "reverse did not return TRUE");
    for (i = 0; i < n; i++) q[i] = p[n - 1 - i]; na_same(a, q, n, "after reverse");
#elif defined(U_TO_ARRAY)
    { spif_obj_t *t = spif_array_to_array(a); for (i = 0; i < n; i++) NA_CHECK(t[i] == p[i], "to_array slot %ld differs from the view", i);
      NA_CHECK(n == 0 || t != a->items, "to_array handed out the container's own block"); free(t); na_same(a, p, n, "to_array must not change the list"); }
#elif defined(U_INDEX)
    { long want = -1; for (i = 0; i < n && want < 0; i++) if (p[i] == NULL ? probe == NULL : (probe != NULL && KEYOF(p[i]) == probe_key)) want = i;
      NA_CHECK(spif_array_index(a, probe) == want, "index() is not the first matching position"); }
#elif defined(U_LIST_FIND) || defined(U_LIST_CONTAINS) || defined(U_REMOVE)
    { long want = -1; for (i = 0; i < n && want < 0; i++) if (probe != NULL && p[i] != NULL && KEYOF(p[i]) == probe_key) want = i;
# if defined(U_LIST_FIND)
      r = spif_array_list_find(a, probe); NA_CHECK(r == (want < 0 ? (spif_obj_t) NULL : p[want]), "find() is not the first equal element / NULL");
# elif defined(U_LIST_CONTAINS)
      NA_CHECK(spif_array_list_contains(a, probe) == (want < 0 ? FALSE : TRUE), "contains() wrong");
# else
      r = spif_array_remove(a, probe);
      if (want < 0) { NA_CHECK(r == NULL, "remove() of an absent element did not return NULL"); na_same(a, p, n, "remove of an absent element"); }
      else { NA_CHECK(r == p[want], "remove() did not hand back the first equal element"); NA_CHECK(KEYOF(r) == probe_key, "the removed element was freed or overwritten");
             for (i = 0; i < n - 1; i++) q[i] = p[i < want ? i : i + 1]; na_same(a, q, n - 1, "after remove"); }
# endif
    }
#elif defined(U_ITER) || defined(U_HAS_NEXT) || defined(U_NEXT) || defined(U_ITDEL)
    { spif_array_iterator_t it = (spif_array_iterator_t) spif_array_iterator(a); long c = 0;
      NA_CHECK(it != NULL && it->subject == a && it->current_index == 0, "a new iterator does not start at position 0 of its subject");
      while (spif_array_iterator_has_next(it)) { NA_CHECK(c < n, "iterator yields more than count elements");
          r = spif_array_iterator_next(it); NA_CHECK(r == p[c], "iterator element %ld is not element %ld of the list", c, c); c++; }
      NA_CHECK(c == n, "iterator reported exhaustion after %ld of %ld elements", c, n);
      spif_array_iterator_del(it); na_same(a, p, n, "iteration must not change the list"); }
#else
# error "no unit selected"
#endif
    /* no clean-up: the container and elements are deliberately leaked (detect_leaks=0) */
}

int main(void)
{
    long wl = vn_get("w_len", -1), wi = vn_get("w_idx", 0), n, pat, idx;
    int keys[NA_MAXLEN + 8], pk;
    NA_INIT();
    /* 1. the verifier's own input, when its state can be built */
    if (wl >= 0 && wl <= NA_MAXLEN && wi > -2 * NA_MAXLEN && wi < 2 * NA_MAXLEN) {
        long i, holes = vn_get("w_holes", 0);
        for (i = 0; i < wl; i++) keys[i] = (holes && (i % 3) == 1) ? NOKEY : (int) (i % 4);
        run_case(keys, wl, wi, 1);
        if (wl > 0) { for (i = 0; i < wl; i++) keys[i] = ((i % 3) == 1) ? NOKEY : (int) (i % 2) + 1; run_case(keys, wl, wi, 1); }
    }
    /* 2. systematic sweep of small states */
    for (n = 0; n <= NA_SWEEP; n++)
        for (pat = 0; pat < na_pow(3, n); pat++) {
            na_pattern(pat, 3, 1, keys, n);                       /* symbols: placeholder, key 1, key 2 */
            for (idx = -(n + 3); idx <= n + 3; idx++)
                for (pk = 0; pk <= 3; pk++) {
                    run_case(keys, n, idx, pk == 0 ? NOKEY : pk);
#if !(defined(U_GET) || defined(U_REMOVE_AT) || defined(U_INSERT_AT))
                    idx = n + 3;                                   /* position is not an input of this unit */
#endif
#if !(defined(U_APPEND) || defined(U_PREPEND) || defined(U_INSERT_AT) || defined(U_INDEX) || defined(U_LIST_FIND) || defined(U_LIST_CONTAINS) || defined(U_REMOVE))
                    pk = 3;                                        /* probe is not an input of this unit */
#endif
                }
        }
    fprintf(stderr, "NATIVE-REPLAY: no violation on the witness or on any state with length <= %d\n", NA_SWEEP);
    return 0;
}
