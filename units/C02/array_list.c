/* C02 (array as list): simple list operations against the ideal sequence.
 * Elements are opaque here (never dereferenced by these functions). */
/*@unit
name: array_count
define: U_COUNT
src: array.c
enforce: spif_array_count
backend: sat
*/
/*@unit
name: array_get
define: U_GET
src: array.c
enforce: spif_array_get
backend: sat
*/
/*@unit
name: array_append
define: U_APPEND
src: array.c
enforce: spif_array_append
backend: sat
*/
#define VERIF_REALLOC_ELEM_T spif_obj_t
#include "vprelude.h"
#include "env_array.h"
#include "array.h"
#include "src/array.c"

long w_len, w_idx;

#ifdef U_COUNT
static spif_listidx_t spif_array_count(spif_array_t self)
__CPROVER_requires(ARRAY_VALID(self))
__CPROVER_assigns()
__CPROVER_ensures(__CPROVER_return_value == self->len)
;
void harness(void) { spif_array_t self; spif_array_count(self); VERIF_CANARY(); }
#endif

#ifdef U_GET
/* get(i): i in [-len, len) -> element at the normalised position; anything else -> NULL; pure */
static spif_obj_t spif_array_get(spif_array_t self, spif_listidx_t idx)
__CPROVER_requires(ARRAY_VALID(self))
__CPROVER_assigns()
__CPROVER_ensures((idx >= 0 && idx < self->len) ? __CPROVER_return_value == self->items[idx] :
                  ((idx < 0 && idx >= -self->len) ? __CPROVER_return_value == self->items[idx + self->len]
                   : __CPROVER_return_value == (spif_obj_t) NULL))
;
void harness(void) { spif_array_t self; spif_listidx_t idx; w_idx = idx; spif_array_get(self, idx); VERIF_CANARY(); }
#endif

#ifdef U_APPEND
static spif_bool_t spif_array_append(spif_array_t self, spif_obj_t obj)
__CPROVER_requires(ARRAY_VALID(self) && self->len < VCAPL && SNAP_ITEM(self, vg_k, vg_old_k))
__CPROVER_assigns(ARRAY_FRAME(self))
__CPROVER_frees(self->items)
__CPROVER_ensures(__CPROVER_return_value == TRUE)
__CPROVER_ensures(ARRAY_POST(self) && self->len == OLD_LEN(self) + 1)
__CPROVER_ensures(vg_k != (size_t) OLD_LEN(self) || self->items[vg_k] == obj)
__CPROVER_ensures(vg_k >= (size_t) OLD_LEN(self) || self->items[vg_k] == vg_old_k)
;
void harness(void) { spif_array_t self; spif_obj_t obj = nondet_ptr(); spif_array_append(self, obj); VERIF_CANARY(); }
#endif

/*@unit
name: array_remove_at
define: U_REMOVE_AT
src: array.c
enforce: spif_array_remove_at
backend: z3,sat
timeout: 150
*/
#ifdef U_REMOVE_AT
/* remove_at(i): normalised position n outside [0,len) -> NULL, nothing changes.  Otherwise the
 * element at n is handed back (not freed), the ones behind it move down by one, len-1 slots. */
static spif_obj_t spif_array_remove_at(spif_array_t self, spif_listidx_t idx)
__CPROVER_requires(ARRAY_VALID(self))
__CPROVER_requires(SNAP_ITEM(self, vg_k, vg_old_k) && SNAP_ITEM(self, vg_k + 1, vg_old_k2))
__CPROVER_requires(NORM(idx, self->len) < 0 || SNAP_ITEM(self, (size_t) NORM(idx, self->len), vg_old_x))
__CPROVER_assigns(ARRAY_FRAME(self))
__CPROVER_frees(self->items)
__CPROVER_ensures(ARRAY_POST(self))
__CPROVER_ensures(!(NORM(idx, OLD_LEN(self)) < 0 || NORM(idx, OLD_LEN(self)) >= OLD_LEN(self)) ||
                  (__CPROVER_return_value == (spif_obj_t) NULL && ARRAY_UNCHANGED(self)))
__CPROVER_ensures((NORM(idx, OLD_LEN(self)) < 0 || NORM(idx, OLD_LEN(self)) >= OLD_LEN(self)) ||
                  (__CPROVER_return_value == vg_old_x && self->len == OLD_LEN(self) - 1 &&
                   (vg_k >= (size_t) self->len ||
                    self->items[vg_k] == (((long) vg_k < NORM(idx, OLD_LEN(self))) ? vg_old_k : vg_old_k2))))
;
void harness(void)
{
    spif_array_t self; spif_listidx_t idx; w_idx = idx;
    spif_array_remove_at(self, idx);
    VERIF_CANARY();
}
#endif
