/* C02 (array as list): simple list operations against the ideal sequence.
 * Elements are opaque here (never dereferenced by these functions). */
/*@unit
name: array_count
define: U_COUNT
src: array.c
native: array_list
native_includes: array.c
enforce: spif_array_count
backend: sat
*/
/*@unit
name: array_get
define: U_GET
src: array.c
native: array_list
native_includes: array.c
enforce: spif_array_get
backend: sat
*/
/*@unit
name: array_append
define: U_APPEND
src: array.c
native: array_list
native_includes: array.c
enforce: spif_array_append
backend: sat
*/
#define VA_ELEM_T spif_obj_t
#include "vprelude.h"
#include "env_array.h"
#include "array.h"
#include "src/array.c"

long w_idx;

#ifdef U_COUNT
static spif_listidx_t spif_array_count(spif_array_t self)
__CPROVER_requires(ARRAY_VALID_W(self))
__CPROVER_assigns()
__CPROVER_ensures(__CPROVER_return_value == self->len)
;
void harness(void) { spif_array_t self; spif_array_count(self); VERIF_CANARY(); }
#endif

#ifdef U_GET
/* get(i): i in [-len, len) -> element at the normalised position; anything else -> NULL; pure */
static spif_obj_t spif_array_get(spif_array_t self, spif_listidx_t idx)
__CPROVER_requires(ARRAY_VALID_W(self))
__CPROVER_assigns()
__CPROVER_ensures((idx >= 0 && idx < self->len) ? __CPROVER_return_value == self->items[idx] :
                  ((idx < 0 && idx >= -self->len) ? __CPROVER_return_value == self->items[idx + self->len]
                   : __CPROVER_return_value == (spif_obj_t) NULL))
;
void harness(void) { spif_array_t self; spif_listidx_t idx; w_idx = idx; spif_array_get(self, idx); VERIF_CANARY(); }
#endif

#ifdef U_APPEND
static spif_bool_t spif_array_append(spif_array_t self, spif_obj_t obj)
__CPROVER_requires(ARRAY_VALID_W(self) && self->len < VCAPL && SNAP_ITEM(self, vg_k, vg_old_k))
__CPROVER_assigns(ARRAY_FRAME(self))
__CPROVER_frees(self->items)
__CPROVER_ensures(__CPROVER_return_value == TRUE)
__CPROVER_ensures(ARRAY_POST(self) && self->len == OLD_LEN(self) + 1)
__CPROVER_ensures(vg_k != (size_t) OLD_LEN(self) || self->items[vg_k] == obj)
__CPROVER_ensures(vg_k >= (size_t) OLD_LEN(self) || self->items[vg_k] == vg_old_k)
;
void harness(void) { spif_array_t self; spif_obj_t obj = nondet_ptr(); spif_array_append(self, obj); VERIF_CANARY(); }
#endif

/*@unit
name: array_remove_at
define: U_REMOVE_AT
src: array.c
native: array_list
native_includes: array.c
enforce: spif_array_remove_at
backend: sat
flags: --slice-formula
timeout: 600
*/
#ifdef U_REMOVE_AT
/* remove_at(i): normalised position n outside [0,len) -> NULL, nothing changes.  Otherwise the
 * element at n is handed back (not freed), the ones behind it move down by one, len-1 slots. */
static spif_obj_t spif_array_remove_at(spif_array_t self, spif_listidx_t idx)
__CPROVER_requires(ARRAY_VALID_W(self))
__CPROVER_requires(SNAP_ITEM(self, vg_k, vg_old_k) && SNAP_ITEM(self, vg_k + 1, vg_old_k2))
__CPROVER_requires(NORM(idx, self->len) < 0 || SNAP_ITEM(self, (size_t) NORM(idx, self->len), vg_old_x))
__CPROVER_assigns(ARRAY_FRAME(self))
__CPROVER_frees(self->items)
__CPROVER_ensures(ARRAY_POST(self))
__CPROVER_ensures(!(NORM(idx, OLD_LEN(self)) < 0 || NORM(idx, OLD_LEN(self)) >= OLD_LEN(self)) ||
                  (__CPROVER_return_value == (spif_obj_t) NULL && ARRAY_UNCHANGED(self)))
__CPROVER_ensures((NORM(idx, OLD_LEN(self)) < 0 || NORM(idx, OLD_LEN(self)) >= OLD_LEN(self)) ||
                  (__CPROVER_return_value == vg_old_x && self->len == OLD_LEN(self) - 1 &&
                   (vg_k >= (size_t) self->len ||
                    self->items[vg_k] == (((long) vg_k < NORM(idx, OLD_LEN(self))) ? vg_old_k : vg_old_k2))))
;
void harness(void)
{
    spif_array_t self; spif_listidx_t idx; w_idx = idx;
    spif_array_remove_at(self, idx);
    VERIF_CANARY();
}
#endif

/* ---- insert_at: four behaviours (disjoint preconditions; union = every argument) ---------- */
/*@unit
name: array_insert_at.null
define: U_INSERT_AT, B_NULL
src: array.c
native: array_list
native_includes: array.c
enforce: spif_array_insert_at
backend: sat
flags: --slice-formula
timeout: 600
*/
/*@unit
name: array_insert_at.neg
define: U_INSERT_AT, B_NEG
src: array.c
native: array_list
native_includes: array.c
enforce: spif_array_insert_at
backend: sat
flags: --slice-formula
timeout: 600
*/
/*@unit
name: array_insert_at.mid
define: U_INSERT_AT, B_MID
src: array.c
native: array_list
native_includes: array.c
enforce: spif_array_insert_at
backend: sat
flags: --slice-formula
timeout: 600
*/
/*@unit
name: array_insert_at.grow
define: U_INSERT_AT, B_GROW
src: array.c
native: array_list
native_includes: array.c
enforce: spif_array_insert_at
backend: sat
flags: --slice-formula
timeout: 600
*/
#ifdef U_INSERT_AT
/* insert_at(x, i), n = normalised position:
 *   x == NULL or n < 0 : refused (FALSE), nothing changes;
 *   0 <= n <= len      : x stored at n, elements [n,len) move up by one;
 *   n > len            : slots [len,n) become NULL placeholders, x stored at n, new length n+1.
 * (elements are tracked by their ORIGINAL slot vg_k: the realloc model keeps slot vg_k only) */
#if defined(B_NULL)
# define BEHAV (obj == (spif_obj_t) NULL)
#elif defined(B_NEG)
# define BEHAV (obj != (spif_obj_t) NULL && NORM(idx, self->len) < 0)
#elif defined(B_MID)
# define BEHAV (obj != (spif_obj_t) NULL && NORM(idx, self->len) >= 0 && NORM(idx, self->len) <= self->len)
#else
# define BEHAV (obj != (spif_obj_t) NULL && NORM(idx, self->len) > self->len)
#endif
#define ON NORM(idx, OLD_LEN(self))
static spif_bool_t spif_array_insert_at(spif_array_t self, spif_obj_t obj, spif_listidx_t idx)
__CPROVER_requires(ARRAY_VALID_W(self) && self->len < VCAPL && idx < VCAPL && BEHAV)
__CPROVER_requires(SNAP_ITEM(self, vg_k, vg_old_k))
__CPROVER_assigns(ARRAY_FRAME(self))
__CPROVER_frees(self->items)
__CPROVER_ensures(ARRAY_POST(self))
__CPROVER_ensures(!(obj == (spif_obj_t) NULL || ON < 0) || (__CPROVER_return_value == FALSE && ARRAY_UNCHANGED(self)))
__CPROVER_ensures((obj == (spif_obj_t) NULL || ON < 0) || __CPROVER_return_value == TRUE)
/* in range */
__CPROVER_ensures((obj == (spif_obj_t) NULL || ON < 0 || ON > OLD_LEN(self)) ||
                  (self->len == OLD_LEN(self) + 1 && self->items[ON] == obj &&
                   (vg_k >= (size_t) OLD_LEN(self) || self->items[((long) vg_k < ON) ? vg_k : vg_k + 1] == vg_old_k)))
/* growth with placeholders */
__CPROVER_ensures((obj == (spif_obj_t) NULL || ON <= OLD_LEN(self)) ||
                  (self->len == ON + 1 && self->items[ON] == obj &&
                   (vg_k >= (size_t) ON || self->items[vg_k] == (((long) vg_k < OLD_LEN(self)) ? vg_old_k : (spif_obj_t) NULL))))
;
void harness(void)
{
    spif_array_t self; spif_obj_t obj = nondet_ptr(); spif_listidx_t idx; w_idx = idx;
    spif_array_insert_at(self, obj, idx);
    VERIF_CANARY();
}
#endif

/*@unit
name: array_prepend
define: U_PREPEND
src: array.c
native: array_list
native_includes: array.c
enforce: spif_array_prepend
backend: sat
flags: --slice-formula
timeout: 600
*/
#ifdef U_PREPEND
static spif_bool_t spif_array_prepend(spif_array_t self, spif_obj_t obj)
__CPROVER_requires(ARRAY_VALID_W(self) && self->len < VCAPL && SNAP_ITEM(self, vg_k, vg_old_k))
__CPROVER_assigns(ARRAY_FRAME(self))
__CPROVER_frees(self->items)
__CPROVER_ensures(ARRAY_POST(self))
__CPROVER_ensures(obj != (spif_obj_t) NULL || (__CPROVER_return_value == FALSE && ARRAY_UNCHANGED(self)))
__CPROVER_ensures(obj == (spif_obj_t) NULL ||
                  (__CPROVER_return_value == TRUE && self->len == OLD_LEN(self) + 1 && self->items[0] == obj &&
                   (vg_k >= (size_t) OLD_LEN(self) || self->items[vg_k + 1] == vg_old_k)))
;
void harness(void) { spif_array_t self; spif_obj_t obj = nondet_ptr(); spif_array_prepend(self, obj); VERIF_CANARY(); }
#endif

/*@unit
name: array_reverse
define: U_REVERSE
src: array.c
native: array_list
native_includes: array.c
enforce: spif_array_reverse
backend: sat
loops: 1
*/
#ifdef U_REVERSE
static spif_bool_t spif_array_reverse(spif_array_t self)
__CPROVER_requires(ARRAY_VALID_W(self) && SNAP_ITEM(self, vg_k, vg_old_k))
__CPROVER_requires(vg_k >= (size_t) self->len || self->items[(size_t) self->len - 1 - vg_k] == vg_old_k2)
__CPROVER_assigns(self->items != NULL: __CPROVER_object_whole(self->items))
__CPROVER_ensures(__CPROVER_return_value == TRUE && ARRAY_POST(self))
__CPROVER_ensures(self->len == OLD_LEN(self) && self->items == OLD_ITEMS(self))
__CPROVER_ensures(vg_k >= (size_t) self->len || self->items[vg_k] == vg_old_k2)
;
void harness(void) { spif_array_t self; spif_array_reverse(self); VERIF_CANARY(); }
#endif

/*@unit
name: array_to_array
define: U_TO_ARRAY
src: array.c
native: array_list
native_includes: array.c
enforce: spif_array_to_array
backend: sat
loops: 1
*/
#ifdef U_TO_ARRAY
/* result: caller-owned fresh block of len slots equal to the view; the container is untouched */
static spif_obj_t *spif_array_to_array(spif_array_t self)
__CPROVER_requires(ARRAY_VALID_W(self))
__CPROVER_assigns()
__CPROVER_ensures(__CPROVER_is_fresh(__CPROVER_return_value, ASZ(self->len)))
__CPROVER_ensures(vg_k >= (size_t) self->len || __CPROVER_return_value[vg_k] == self->items[vg_k])
;
void harness(void) { spif_array_t self; spif_array_to_array(self); VERIF_CANARY(); }
#endif

/*@unit
name: array_index
define: U_INDEX
src: array.c
native: array_list
native_includes: array.c
enforce: spif_array_index
backend: sat
loops: 1
*/
#ifdef U_INDEX
/* index(x): the FIRST position whose slot matches x, -1 if none (pair model of env_array.h) */
static spif_listidx_t spif_array_index(spif_array_t self, spif_obj_t obj)
__CPROVER_requires(ARRAY_VALID_W(self) && SNAP_ITEM(self, vg_k, vg_old_k))
__CPROVER_requires(vg_ca == vg_old_k && vg_cb == obj && VA_CMP_OK(vg_cr))
__CPROVER_assigns()
__CPROVER_ensures(__CPROVER_return_value >= -1 && __CPROVER_return_value < self->len)
__CPROVER_ensures(__CPROVER_return_value != -1 || vg_k >= (size_t) self->len || !VA_MATCH_INDEX(obj))
__CPROVER_ensures(__CPROVER_return_value == -1 || vg_k != (size_t) __CPROVER_return_value || VA_MATCH_INDEX(obj))
__CPROVER_ensures(__CPROVER_return_value == -1 || vg_k >= (size_t) __CPROVER_return_value || !VA_MATCH_INDEX(obj))
;
void harness(void) { spif_array_t self; spif_obj_t obj = nondet_ptr(); spif_array_index(self, obj); VERIF_CANARY(); }
#endif

/*@unit
name: array_list_find
define: U_LIST_FIND
src: array.c
native: array_list
native_includes: array.c
enforce: spif_array_list_find
backend: sat
loops: 1
*/
/*@unit
name: array_list_contains
define: U_LIST_CONTAINS
src: array.c
native: array_list
native_includes: array.c
enforce: spif_array_list_contains
replace: spif_array_list_find
backend: sat
*/
#if defined(U_LIST_FIND) || defined(U_LIST_CONTAINS)
/* find(x): the first stored element equal to x (placeholders skipped), NULL iff none / x NULL.
 * vg_exit = position of the element handed back. */
#define FIND_PRE  (ARRAY_VALID_W(self) && SNAP_ITEM(self, vg_k, vg_old_k) && vg_ca == vg_old_k && vg_cb == obj && VA_CMP_OK(vg_cr))
#define FIND_NONE (vg_k >= (size_t) self->len || obj == (spif_obj_t) NULL || !VA_MATCH_FIND)
#define FIND_SOME (obj != (spif_obj_t) NULL && vg_exit < (size_t) self->len && \
                   (vg_k != vg_exit || VA_MATCH_FIND) && (vg_k >= vg_exit || !VA_MATCH_FIND))
/* (contains uses find through this contract: --replace-call-with-contract) */
static spif_obj_t spif_array_list_find(spif_array_t self, spif_obj_t obj)
__CPROVER_requires(FIND_PRE)
__CPROVER_assigns(vg_exit)
__CPROVER_ensures(__CPROVER_return_value != (spif_obj_t) NULL || FIND_NONE)
__CPROVER_ensures(__CPROVER_return_value == (spif_obj_t) NULL ||
                  (FIND_SOME && (vg_k != vg_exit || __CPROVER_return_value == vg_old_k)))
;
#ifdef U_LIST_FIND
void harness(void) { spif_array_t self; spif_obj_t obj = nondet_ptr(); spif_array_list_find(self, obj); VERIF_CANARY(); }
#else
static spif_bool_t spif_array_list_contains(spif_array_t self, spif_obj_t obj)
__CPROVER_requires(FIND_PRE)
__CPROVER_assigns(vg_exit)
__CPROVER_ensures(__CPROVER_return_value == TRUE || __CPROVER_return_value == FALSE)
__CPROVER_ensures(__CPROVER_return_value != FALSE || FIND_NONE)
__CPROVER_ensures(__CPROVER_return_value != TRUE || FIND_SOME)
;
void harness(void) { spif_array_t self; spif_obj_t obj = nondet_ptr(); spif_array_list_contains(self, obj); VERIF_CANARY(); }
#endif
#endif

/*@unit
name: array_remove
define: U_REMOVE
src: array.c
native: array_list
native_includes: array.c
enforce: spif_array_remove
backend: sat
flags: --slice-formula
timeout: 600
loops: 1
*/
#ifdef U_REMOVE
/* remove(x): takes out the FIRST element equal to x and hands it back (not freed); the elements
 * behind it move down; NULL and no change if there is none or x is NULL.  vg_exit = its position. */
static spif_obj_t spif_array_remove(spif_array_t self, spif_obj_t item)
__CPROVER_requires(ARRAY_VALID_W(self) && SNAP_ITEM(self, vg_k, vg_old_k) && SNAP_ITEM(self, vg_k + 1, vg_old_k2))
__CPROVER_requires(vg_ca == item && vg_cb == vg_old_k && VA_CMP_OK(vg_cr))
__CPROVER_assigns(ARRAY_FRAME(self); vg_exit)
__CPROVER_frees(self->items)
__CPROVER_ensures(ARRAY_POST(self))
__CPROVER_ensures(__CPROVER_return_value != (spif_obj_t) NULL ||
                  (ARRAY_UNCHANGED(self) && (vg_k >= (size_t) self->len || item == (spif_obj_t) NULL || !VA_MATCH_FIND)))
__CPROVER_ensures(__CPROVER_return_value == (spif_obj_t) NULL ||
                  (item != (spif_obj_t) NULL && self->len == OLD_LEN(self) - 1 && vg_exit <= (size_t) self->len &&
                   (vg_k != vg_exit || (VA_MATCH_FIND && __CPROVER_return_value == vg_old_k)) &&
                   (vg_k >= vg_exit || (!VA_MATCH_FIND && self->items[vg_k] == vg_old_k)) &&
                   (vg_k < vg_exit || vg_k >= (size_t) self->len || self->items[vg_k] == vg_old_k2)))
;
void harness(void) { spif_array_t self; spif_obj_t item = nondet_ptr(); spif_array_remove(self, item); VERIF_CANARY(); }
#endif
