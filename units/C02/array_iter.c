/* C02 (array iterator): a fresh iterator starts at position 0 of its subject; has_next is TRUE
 * exactly while position < count; next yields the element at the position and advances by one.
 * By induction an iterator yields items[0..len) once each, in order, and reports exhaustion
 * exactly after count elements; the subject is never written. */
/*@unit
name: array_iterator
define: U_ITER
src: array.c, obj.c
native: array_list
native_includes: array.c
enforce: spif_array_iterator
funcs: spif_array_iterator_new, spif_array_iterator_init
backend: sat
*/
/*@unit
name: array_iterator_has_next
define: U_HAS_NEXT
src: array.c, obj.c
native: array_list
native_includes: array.c
enforce: spif_array_iterator_has_next
backend: sat
*/
/*@unit
name: array_iterator_next
define: U_NEXT
src: array.c, obj.c
native: array_list
native_includes: array.c
enforce: spif_array_iterator_next
funcs: spif_array_get
backend: sat
*/
/*@unit
name: array_iterator_del
define: U_ITDEL
src: array.c, obj.c
native: array_list
native_includes: array.c
enforce: spif_array_iterator_del
funcs: spif_array_iterator_done
backend: sat
*/
#define VA_ELEM_T spif_obj_t
#include "vprelude.h"
#include "env_array.h"
#include "array.h"
#include "src/obj.c"
#include "src/array.c"

/* a valid iterator: position counts the elements handed out so far */
#define ITER_VALID(it) (__CPROVER_is_fresh((it), sizeof(*(it))) && (it)->current_index >= 0 && (it)->current_index < VCAPL)

#ifdef U_ITER
static spif_iterator_t spif_array_iterator(spif_array_t self)
__CPROVER_requires(ARRAY_VALID_W(self) && spif_array_iteratorclass == &ai_class)
__CPROVER_assigns()
__CPROVER_ensures(__CPROVER_is_fresh(__CPROVER_return_value, sizeof(struct spif_array_iterator_t_struct)))
__CPROVER_ensures(((spif_array_iterator_t) __CPROVER_return_value)->subject == self &&
                  ((spif_array_iterator_t) __CPROVER_return_value)->current_index == 0 &&
                  SPIF_OBJ_CLASS(__CPROVER_return_value) == SPIF_CLASS(&ai_class))
;
void harness(void) { spif_array_t self; spif_array_iterator(self); VERIF_CANARY(); }
#endif

#ifdef U_HAS_NEXT
static spif_bool_t spif_array_iterator_has_next(spif_array_iterator_t self)
__CPROVER_requires(ITER_VALID(self) && (self->subject == NULL || ARRAY_VALID(self->subject)))
__CPROVER_assigns()
__CPROVER_ensures(__CPROVER_return_value == ((self->subject != NULL && self->current_index < self->subject->len) ? TRUE : FALSE))
;
void harness(void) { spif_array_iterator_t it; spif_array_iterator_has_next(it); VERIF_CANARY(); }
#endif

#ifdef U_NEXT
static spif_obj_t spif_array_iterator_next(spif_array_iterator_t self)
__CPROVER_requires(ITER_VALID(self) && ARRAY_VALID(self->subject))
__CPROVER_assigns(self->current_index)
__CPROVER_ensures(self->current_index == __CPROVER_old(self->current_index) + 1 && self->subject == __CPROVER_old(self->subject))
__CPROVER_ensures(__CPROVER_return_value == ((__CPROVER_old(self->current_index) < self->subject->len)
                                             ? self->subject->items[__CPROVER_old(self->current_index)] : (spif_obj_t) NULL))
;
void harness(void) { spif_array_iterator_t it; spif_array_iterator_next(it); VERIF_CANARY(); }
#endif

#ifdef U_ITDEL
/* deleting an iterator frees the iterator only, never its subject */
static spif_bool_t spif_array_iterator_del(spif_array_iterator_t self)
__CPROVER_requires(ITER_VALID(self))
__CPROVER_assigns(__CPROVER_object_whole(self))
__CPROVER_frees(self)
__CPROVER_ensures(__CPROVER_return_value == TRUE && __CPROVER_was_freed(self))
;
void harness(void) { spif_array_iterator_t it; spif_array_iterator_del(it); VERIF_CANARY(); }
#endif
