/* C02 lists "dup" among the list-interface operations: the C05 dup harnesses of the linked classes (and
 * the array class, see array_* units) are run here as well, so a change that breaks dup of a list - e.g. of a
 * list holding NULL placeholders - fails C02 too.  Same harness files, included. */
/*@unit
name: llist_dup
define: U_DUP, U_KIND_LIST, VL_MINN=1, INC_LLIST
src: linked_list.c, obj.c
tier: B
backend: cadical
unwind: 8
unwind_thorough: 12
bound: list length 1..4, elements NULL placeholders or any key [thorough tier: lengths up to 5]
*/
/*@unit
name: llist_dup_empty
define: U_DUP, U_KIND_LIST, VL_FIXN=0, INC_LLIST
src: linked_list.c, obj.c
tier: B
backend: cadical
unwind: 8
unwind_thorough: 12
bound: the empty list
*/
/*@unit
name: dlist_dup
define: U_DUP, U_KIND_LIST, VL_MINN=1, INC_DLIST
src: dlinked_list.c, obj.c
tier: B
backend: cadical
unwind: 8
unwind_thorough: 12
bound: list length 1..4, elements NULL placeholders or any key [thorough tier: lengths up to 5]
*/
/*@unit
name: dlist_dup_empty
define: U_DUP, U_KIND_LIST, VL_FIXN=0, INC_DLIST
src: dlinked_list.c, obj.c
tier: B
backend: cadical
unwind: 8
unwind_thorough: 12
bound: the empty list
*/
#ifdef INC_LLIST
# include "../C05/llist_dup.c"
#endif
#ifdef INC_DLIST
# include "../C05/dlist_dup.c"
#endif
