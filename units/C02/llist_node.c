/* C02, linked_list class: node-local (loop-free) operations as UNBOUNDED contract proofs (tier P).
 * Each function is proved from an arbitrary local neighbourhood: the list header is one fresh
 * object with an arbitrary len (>= 0, below VCAP so that len+1 is representable) and an arbitrary
 * head pointer; only the one or two nodes the function touches are described with is_fresh.
 * Because head/next are otherwise arbitrary, the proof covers a list of ANY length.
 *   prepend           : new fresh node in front, data == obj, next == old head, len+1, nothing else assigned
 *   count             : returns len, assigns nothing
 *   init / new        : empty list (len 0, head NULL) of the list class
 *   item new / del    : fresh empty node / node and its element freed
 *   iterator new/init : positioned on head;  has_next <=> current != NULL;  next yields current->data and
 *                       advances to current->next (so the iterator yields view[0..len) and then reports
 *                       exhaustion: the bounded unit llist_iterate composes these steps)
 */

/*@unit
name: llist_prepend
define: U_PREPEND
src: linked_list.c, obj.c
enforce: spif_linked_list_prepend
backend: sat
*/
/*@unit
name: llist_count
define: U_COUNT
src: linked_list.c, obj.c
enforce: spif_linked_list_count
backend: sat
*/
/*@unit
name: llist_init
define: U_INIT
src: linked_list.c, obj.c
enforce: spif_linked_list_init
backend: sat
*/
/*@unit
name: llist_new
define: U_NEW
src: linked_list.c, obj.c
enforce: spif_linked_list_new
backend: sat
*/
/*@unit
name: llist_item_new
define: U_ITEM_NEW
src: linked_list.c, obj.c
enforce: spif_linked_list_item_new
backend: sat
*/
/*@unit
name: llist_item_del
define: U_ITEM_DEL
src: linked_list.c, obj.c
enforce: spif_linked_list_item_del
backend: sat
*/
/*@unit
name: llist_iterator_new
define: U_IT_NEW
src: linked_list.c, obj.c
enforce: spif_linked_list_iterator_new
backend: sat
*/
/*@unit
name: llist_iterator_has_next
define: U_IT_HAS_NEXT
src: linked_list.c, obj.c
enforce: spif_linked_list_iterator_has_next
backend: sat
*/
/*@unit
name: llist_iterator_next
define: U_IT_NEXT
src: linked_list.c, obj.c
enforce: spif_linked_list_iterator_next
backend: sat
*/
/*@unit
name: llist_iterator_next_exhausted
define: U_IT_NEXT, U_EXHAUSTED
src: linked_list.c, obj.c
enforce: spif_linked_list_iterator_next
backend: sat
*/
#include "vprelude.h"
#define VL_LISTRESULT_LLIST
#include "lists.h"
#define o_class vl_obj_o_class
#include "src/obj.c"
#undef o_class
#include "src/linked_list.c"

#define NODE_SZ sizeof(struct spif_linked_list_item_t_struct)
#define LIST_SZ sizeof(struct spif_linked_list_t_struct)
#define ITER_SZ sizeof(struct spif_linked_list_iterator_t_struct)

#ifdef U_PREPEND
static spif_bool_t spif_linked_list_prepend(spif_linked_list_t self, spif_obj_t obj)
__CPROVER_requires(__CPROVER_is_fresh(self, LIST_SZ) && self->len >= 0 && self->len < VCAP)
__CPROVER_assigns(self->head, self->len)
__CPROVER_ensures(__CPROVER_return_value == TRUE)
__CPROVER_ensures(self->len == __CPROVER_old(self->len) + 1)
__CPROVER_ensures(__CPROVER_is_fresh(self->head, NODE_SZ))
__CPROVER_ensures(self->head->data == obj && self->head->next == __CPROVER_old(self->head))
;
void harness(void)
{
    spif_linked_list_t self; spif_obj_t obj = nondet_ptr();
    spif_linked_list_prepend(self, obj);
    VERIF_CANARY();
}
#endif

#ifdef U_COUNT
static spif_listidx_t spif_linked_list_count(spif_linked_list_t self)
__CPROVER_requires(__CPROVER_is_fresh(self, LIST_SZ))
__CPROVER_assigns()
__CPROVER_ensures(__CPROVER_return_value == self->len)
;
void harness(void)
{
    spif_linked_list_t self;
    spif_linked_list_count(self);
    VERIF_CANARY();
}
#endif

#ifdef U_INIT
static spif_bool_t spif_linked_list_init(spif_linked_list_t self)
__CPROVER_requires(__CPROVER_is_fresh(self, LIST_SZ))
__CPROVER_assigns(__CPROVER_object_whole(self))
__CPROVER_ensures(__CPROVER_return_value == TRUE)
__CPROVER_ensures(self->len == 0 && self->head == NULL)
__CPROVER_ensures(SPIF_OBJ_CLASS(self) == SPIF_CLASS(SPIF_LISTCLASS_VAR(linked_list)))
;
void harness(void)
{
    spif_linked_list_t self;
    spif_linked_list_init(self);
    VERIF_CANARY();
}
#endif

#ifdef U_NEW
static spif_linked_list_t spif_linked_list_new(void)
__CPROVER_assigns()
__CPROVER_ensures(__CPROVER_is_fresh(__CPROVER_return_value, LIST_SZ))
__CPROVER_ensures(__CPROVER_return_value->len == 0 && __CPROVER_return_value->head == NULL)
__CPROVER_ensures(SPIF_OBJ_CLASS(__CPROVER_return_value) == SPIF_CLASS(SPIF_LISTCLASS_VAR(linked_list)))
;
void harness(void)
{
    spif_linked_list_new();
    VERIF_CANARY();
}
#endif

#ifdef U_ITEM_NEW
static spif_linked_list_item_t spif_linked_list_item_new(void)
__CPROVER_assigns()
__CPROVER_ensures(__CPROVER_is_fresh(__CPROVER_return_value, NODE_SZ))
__CPROVER_ensures(__CPROVER_return_value->data == NULL && __CPROVER_return_value->next == NULL)
;
void harness(void)
{
    spif_linked_list_item_new();
    VERIF_CANARY();
}
#endif

#ifdef U_ITEM_DEL
/* the node owns its element: both are released, exactly once; the successor is not touched */
static spif_bool_t spif_linked_list_item_del(spif_linked_list_item_t self)
__CPROVER_requires(__CPROVER_is_fresh(self, NODE_SZ))
__CPROVER_requires(self->data == NULL || VELEM_VALID(self->data))
__CPROVER_assigns(__CPROVER_object_whole(self))
__CPROVER_frees(self, self->data)
__CPROVER_ensures(__CPROVER_return_value == TRUE)
__CPROVER_ensures(__CPROVER_was_freed(__CPROVER_old(self)))
__CPROVER_ensures(__CPROVER_old(self->data) == NULL || __CPROVER_was_freed(__CPROVER_old(self->data)))
;
void harness(void)
{
    spif_linked_list_item_t self;
    spif_linked_list_item_del(self);
    VERIF_CANARY();
}
#endif

#ifdef U_IT_NEW
static spif_linked_list_iterator_t spif_linked_list_iterator_new(spif_linked_list_t subject)
__CPROVER_requires(subject == NULL || __CPROVER_is_fresh(subject, LIST_SZ))
__CPROVER_assigns()
__CPROVER_ensures(__CPROVER_is_fresh(__CPROVER_return_value, ITER_SZ))
__CPROVER_ensures(__CPROVER_return_value->subject == subject)
__CPROVER_ensures(__CPROVER_return_value->current == ((subject == NULL) ? (spif_linked_list_item_t) NULL : subject->head))
__CPROVER_ensures(SPIF_OBJ_CLASS(__CPROVER_return_value) == SPIF_CLASS(SPIF_ITERATORCLASS_VAR(linked_list)))
;
void harness(void)
{
    spif_linked_list_t subject;
    spif_linked_list_iterator_new(subject);
    VERIF_CANARY();
}
#endif

#ifdef U_IT_HAS_NEXT
static spif_bool_t spif_linked_list_iterator_has_next(spif_linked_list_iterator_t self)
__CPROVER_requires(__CPROVER_is_fresh(self, ITER_SZ) && self->subject != NULL)
__CPROVER_assigns()
__CPROVER_ensures((__CPROVER_return_value == TRUE) == (self->current != NULL))
__CPROVER_ensures(__CPROVER_return_value == TRUE || __CPROVER_return_value == FALSE)
;
void harness(void)
{
    spif_linked_list_iterator_t self;
    spif_linked_list_iterator_has_next(self);
    VERIF_CANARY();
}
#endif

#ifdef U_IT_NEXT
/* two behaviours (disjoint preconditions, union = every iterator state): a current node / exhausted */
static spif_obj_t spif_linked_list_iterator_next(spif_linked_list_iterator_t self)
__CPROVER_requires(__CPROVER_is_fresh(self, ITER_SZ) && self->subject != NULL)
# ifdef U_EXHAUSTED
__CPROVER_requires(self->current == NULL)
__CPROVER_assigns()
__CPROVER_ensures(__CPROVER_return_value == NULL && self->current == NULL)
# else
__CPROVER_requires(__CPROVER_is_fresh(self->current, NODE_SZ))
__CPROVER_assigns(self->current)
__CPROVER_ensures(__CPROVER_return_value == __CPROVER_old(self->current->data) && self->current == __CPROVER_old(self->current->next))
# endif
;
void harness(void)
{
    spif_linked_list_iterator_t self;
    spif_linked_list_iterator_next(self);
    VERIF_CANARY();
}
#endif
