/* C02, linked_list class, list interface: every operation that walks the chain, as bounded
 * stand-ins (tier B).  The harness builds EVERY singly linked list of 0..VL_MAXN separately
 * allocated nodes (data = NULL placeholder or a velem with an arbitrary key), calls ONE real
 * (static) function of src/linked_list.c with fully symbolic arguments, then asserts
 *   (1) the representation invariant: chain length == len, last->next == NULL;
 *   (2) read-back == the ideal sequence of the property statement (contracts/lists.h,
 *       vl_ideal_*: normalised positions, NULL placeholders on growth, refusals unchanged).
 * insert_at: positions up to len+VL_GROW (growth needs one loop iteration per placeholder).
 */

/*@unit
name: llist_append
define: U_APPEND
src: linked_list.c
tier: B
native: self
backend: cadical
unwind: 8
unwind_thorough: 12
bound: list length <= 4, any key [thorough tier: lengths up to 5]
funcs: spif_linked_list_append
*/
/*@unit
name: llist_prepend_b
define: U_PREPEND
src: linked_list.c
tier: B
native: self
backend: cadical
unwind: 8
unwind_thorough: 12
bound: list length <= 4, any key [thorough tier: lengths up to 5]
funcs: spif_linked_list_prepend
*/
/*@unit
name: llist_insert_at
define: U_INSERT_AT, U_NOT_M1, VL_MINN=1
src: linked_list.c
tier: B
native: self
backend: cadical
unwind: 8
unwind_thorough: 12
bound: list length 1..4; every index value from -2^31 up to len+2 (at most 2 placeholders of growth) except idx == -len-1; any key [thorough tier: lengths up to 5]
funcs: spif_linked_list_insert_at
*/
/*@unit
name: llist_insert_at_empty_le0
define: U_INSERT_AT, U_NOT_M1, VL_FIXN=0, U_IDX_LE0
src: linked_list.c
tier: B
native: self
backend: cadical
unwind: 8
unwind_thorough: 12
bound: the empty list; every index value <= 0 except -1; any key
funcs: spif_linked_list_insert_at
*/
/*@unit
name: llist_insert_at_empty_grow
define: U_INSERT_AT, VL_FIXN=0, U_IDX_GE1
src: linked_list.c
tier: B
native: self
backend: cadical
unwind: 8
unwind_thorough: 12
bound: the empty list; index 1..2 (placeholders must be created); any key
funcs: spif_linked_list_insert_at
*/
/*@unit
name: llist_insert_at_m1
define: U_INSERT_AT, U_M1
src: linked_list.c
tier: B
native: self
backend: cadical
unwind: 8
unwind_thorough: 12
bound: list length <= 4; idx == -len-1 (the position that normalises to exactly -1); any key [thorough tier: lengths up to 5]
funcs: spif_linked_list_insert_at
*/
/*@unit
name: llist_remove_at
define: U_REMOVE_AT
src: linked_list.c
tier: B
native: self
backend: cadical
unwind: 8
unwind_thorough: 12
bound: list length <= 4, all 2^32 index values [thorough tier: lengths up to 5]
funcs: spif_linked_list_remove_at
*/
/*@unit
name: llist_get
define: U_GET
src: linked_list.c
tier: B
native: self
backend: cadical
unwind: 8
unwind_thorough: 12
bound: list length <= 4, all 2^32 index values [thorough tier: lengths up to 5]
funcs: spif_linked_list_get
*/
/*@unit
name: llist_remove
define: U_REMOVE
src: linked_list.c
tier: B
native: self
backend: cadical
unwind: 8
unwind_thorough: 12
bound: list length <= 4, all key values incl. duplicates and placeholders [thorough tier: lengths up to 5]
funcs: spif_linked_list_remove
*/
/*@unit
name: llist_index_find
define: U_INDEX
src: linked_list.c
tier: B
native: self
backend: cadical
unwind: 8
unwind_thorough: 12
bound: list length <= 4, all key values incl. duplicates and placeholders [thorough tier: lengths up to 5]
funcs: spif_linked_list_index, spif_linked_list_find, spif_linked_list_contains
*/
/*@unit
name: llist_reverse
define: U_REVERSE, VL_MINN=1
src: linked_list.c
tier: B
native: self
backend: cadical
unwind: 8
unwind_thorough: 12
bound: list length 1..4 [thorough tier: lengths up to 5]
funcs: spif_linked_list_reverse
*/
/*@unit
name: llist_reverse_empty
define: U_REVERSE, VL_FIXN=0
src: linked_list.c
tier: B
native: self
backend: cadical
unwind: 8
unwind_thorough: 12
bound: the empty list
funcs: spif_linked_list_reverse
*/
/*@unit
name: llist_to_array
define: U_TO_ARRAY
src: linked_list.c
tier: B
native: self
backend: cadical
unwind: 8
unwind_thorough: 12
bound: list length <= 4 [thorough tier: lengths up to 5]
funcs: spif_linked_list_to_array
*/
/*@unit
name: llist_iterate
define: U_ITERATE
src: linked_list.c, obj.c
tier: B
native: self
backend: cadical
unwind: 8
unwind_thorough: 12
bound: list length <= 4 [thorough tier: lengths up to 5]
funcs: spif_linked_list_iterator, spif_linked_list_iterator_new, spif_linked_list_iterator_init, spif_linked_list_iterator_has_next, spif_linked_list_iterator_next, spif_linked_list_iterator_del
*/
#include "vprelude.h"
#include "lists.h"
#ifdef U_ITERATE
# define o_class vl_obj_o_class        /* obj.c and the list files both call their class table o_class/… */
# include "src/obj.c"
# undef o_class
#endif
#include "src/linked_list.c"

#define LT spif_linked_list_t
#define IT spif_linked_list_item_t
#define BUILD(self, m) do { VL_INPUTS(vin, a); VL_BUILD(self, LT, IT, SPIF_LISTCLASS_VAR(linked_list), VL_SL, m, vin, vl_data_list); } while (0)
#define CHECK(self, m, OP) VL_CHECK(self, IT, VL_SL, m, OP)

vl_seq_t m;             /* ideal sequence */
vl_in_t vin;            /* the built container's inputs (VND: replayable natively) */
int w_n, w_idx, w_key;

void harness(void)
{
    LT self;
    spif_obj_t x, r, want;
    int k = (int) VND(int, k);      /* key of the element / probe argument (never NULL: C16's subject) */
    spif_listidx_t idx = (spif_listidx_t) VND(int, idx);
    spif_bool_t b;

    BUILD(self, m);
    w_n = m.len; w_idx = idx;

#ifdef U_APPEND
    x = (spif_obj_t) vl_elem(k); w_key = k;
    b = spif_linked_list_append(self, x);
    vl_ideal_append(&m, x, k);
    __CPROVER_assert(b == TRUE, "llist append: returns TRUE");
    CHECK(self, m, "llist append");
#endif
#ifdef U_PREPEND
    x = (spif_obj_t) vl_elem(k); w_key = k;
    b = spif_linked_list_prepend(self, x);
    vl_ideal_insert_pos(&m, 0, x, k);
    __CPROVER_assert(b == TRUE, "llist prepend: returns TRUE");
    CHECK(self, m, "llist prepend");
#endif
#ifdef U_INSERT_AT
    x = (spif_obj_t) vl_elem(k); w_key = k;
    __CPROVER_assume(idx <= m.len + VL_GROW);
# ifdef U_NOT_M1
    __CPROVER_assume(idx != -m.len - 1);
# endif
# ifdef U_M1
    __CPROVER_assume(idx == -m.len - 1);
# endif
# ifdef U_IDX_LE0
    __CPROVER_assume(idx <= 0);
# endif
# ifdef U_IDX_GE1
    __CPROVER_assume(idx >= 1);
# endif
    {
        int ok = vl_ideal_insert_at(&m, x, k, idx);
        b = spif_linked_list_insert_at(self, x, idx);
        __CPROVER_assert((b == TRUE) == (ok == 1) && (b == TRUE || b == FALSE),
                         "llist insert_at: TRUE iff the position does not normalise below zero");
        CHECK(self, m, "llist insert_at");
    }
#endif
#ifdef U_REMOVE_AT
    {
        long p = vl_norm(idx, m.len);
        int wk = (p >= 0 && p < m.len) ? m.key[p] : 0;
        want = vl_ideal_remove_at(&m, idx);
        r = spif_linked_list_remove_at(self, idx);
        __CPROVER_assert(r == want, "llist remove_at: returns the ideal element (NULL when refused)");
        CHECK(self, m, "llist remove_at");
        if (want != NULL) __CPROVER_assert(((velem_t) want)->key == wk, "llist remove_at: removed element is still alive");
    }
#endif
#ifdef U_GET
    want = vl_ideal_get(&m, idx);
    r = spif_linked_list_get(self, idx);
    __CPROVER_assert(r == want, "llist get: returns the ideal element (NULL when refused)");
    CHECK(self, m, "llist get");
#endif
#ifdef U_REMOVE
    x = (spif_obj_t) vl_elem(k); w_key = k;
    {
        int p = vl_ideal_index(&m, k);
        want = (p < 0) ? (spif_obj_t) NULL : m.e[p];
        if (p >= 0) vl_ideal_remove_pos(&m, p);
        r = spif_linked_list_remove(self, x);
        __CPROVER_assert(r == want, "llist remove: returns the first element equal to the probe, else NULL");
        CHECK(self, m, "llist remove");
        if (r != NULL) __CPROVER_assert(((velem_t) r)->key == k, "llist remove: removed element is still alive");
        __CPROVER_assert(((velem_t) x)->key == k, "llist remove: probe untouched");
    }
#endif
#ifdef U_INDEX
    x = (spif_obj_t) vl_elem(k); w_key = k;
    {
        int p = vl_ideal_index(&m, k);
        spif_listidx_t gi = spif_linked_list_index(self, x);
        __CPROVER_assert(gi == p, "llist index: first position of an equal element, else -1");
        r = spif_linked_list_find(self, x);
        __CPROVER_assert(r == ((p < 0) ? (spif_obj_t) NULL : m.e[p]), "llist find: the first equal element, else NULL");
        b = spif_linked_list_contains(self, x);
        __CPROVER_assert(b == ((p >= 0) ? TRUE : FALSE), "llist contains: TRUE iff an equal element is present");
        CHECK(self, m, "llist index/find/contains");
    }
#endif
#ifdef U_REVERSE
    vl_ideal_reverse(&m);
    b = spif_linked_list_reverse(self);
    __CPROVER_assert(b == TRUE, "llist reverse: returns TRUE");
    CHECK(self, m, "llist reverse");
#endif
#ifdef U_TO_ARRAY
    {
        spif_obj_t *a = spif_linked_list_to_array(self);
        int i;
        __CPROVER_assert(m.len == 0 || VL_R_OK(a, sizeof(spif_obj_t) * m.len), "llist to_array: result holds len slots");
        for (i = 0; i < VL_CAP && i < m.len; i++)
            __CPROVER_assert(a[i] == m.e[i], "llist to_array: slot i is ideal element i");
        CHECK(self, m, "llist to_array");
    }
#endif
#ifdef U_ITERATE
    {
        spif_linked_list_iterator_t it = (spif_linked_list_iterator_t) spif_linked_list_iterator(self);
        int i;
        __CPROVER_assert(it != NULL, "llist iterator: created");
        for (i = 0; i < VL_CAP && i < m.len; i++) {
            __CPROVER_assert(spif_linked_list_iterator_has_next(it) == TRUE, "llist iterator: has_next while fewer than count elements were yielded");
            r = spif_linked_list_iterator_next(it);
            __CPROVER_assert(r == m.e[i], "llist iterator: i-th call of next yields ideal element i");
        }
        __CPROVER_assert(spif_linked_list_iterator_has_next(it) == FALSE, "llist iterator: exhausted exactly after count elements");
        __CPROVER_assert(spif_linked_list_iterator_next(it) == NULL, "llist iterator: next after exhaustion yields NULL");
        spif_linked_list_iterator_del(it);
        CHECK(self, m, "llist iterate");
    }
#endif
    VERIF_CANARY();
}
