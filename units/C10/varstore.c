/* C10, user variable store (src/conf.c: spifconf_new_var / free_var / get_var / put_var):
 * a sorted singly linked list, one entry per name.
 *   new_var, free_var  : tier P contracts (fresh zeroed node; node, name and value released).
 *   put_get, leak_*    : tier B, lists of <= 3 entries before the call (<= 4 after), keys of <= 2
 *                        characters over {a,b}: "%put(k v) then %get(k) returns v until k is put again or
 *                        deleted", other keys untouched, list stays strictly ascending; put on an
 *                        existing key and delete release what they drop (var_leak_insert / _replace / _delete).
 */
/*@unit
name: var_new
define: U_NEW
src: conf.c
enforce: spifconf_new_var
backend: sat
*/
/*@unit
name: var_free
define: U_FREE
src: conf.c
enforce: spifconf_free_var
backend: sat
*/
/*@unit
name: var_put_get
define: U_PUT_GET, VERIF_EXACT_LIBC, VERIF_OWN_STRLEN, VERIF_OWN_STRCMP, VERIF_OWN_STRDUP, VERIF_OWN_STRCHR
src: conf.c
tier: B
bound: store of <= 3 entries before the call, keys of <= 2 characters over {a,b}, one put + one re-put + one delete
unwind: 6
backend: sat
native: self
funcs: spifconf_put_var, spifconf_get_var
*/
/*@unit
name: var_leak_insert
define: U_PUT_LEAK, L_INSERT, VERIF_EXACT_LIBC, VERIF_OWN_STRLEN, VERIF_OWN_STRCMP, VERIF_OWN_STRDUP, VERIF_OWN_STRCHR
src: conf.c
tier: B
bound: store of <= 3 entries, keys of <= 2 characters over {a,b}; put of a name that is not in the store, then the whole store is released and cbmc's leak check must find nothing left
unwind: 6
flags: --memory-leak-check
backend: sat
funcs: spifconf_put_var, spifconf_free_var
*/
/*@unit
name: var_leak_replace
define: U_PUT_LEAK, L_REPLACE, VERIF_EXACT_LIBC, VERIF_OWN_STRLEN, VERIF_OWN_STRCMP, VERIF_OWN_STRDUP, VERIF_OWN_STRCHR
src: conf.c
tier: B
bound: store of <= 3 entries, keys of <= 2 characters over {a,b}; put on a name that is already in the store, then the whole store is released and cbmc's leak check must find nothing left
unwind: 6
flags: --memory-leak-check
backend: sat
funcs: spifconf_put_var, spifconf_free_var
*/
/*@unit
name: var_leak_delete
define: U_PUT_LEAK, L_DELETE, VERIF_EXACT_LIBC, VERIF_OWN_STRLEN, VERIF_OWN_STRCMP, VERIF_OWN_STRDUP, VERIF_OWN_STRCHR
src: conf.c
tier: B
bound: store of <= 3 entries, keys of <= 2 characters over {a,b}; delete (NULL value) of a present or absent name, then the whole store is released and cbmc's leak check must find nothing left
unwind: 6
flags: --memory-leak-check
backend: sat
funcs: spifconf_put_var, spifconf_free_var
*/
#include "vprelude.h"
#include "env_expand.h"
#include "expand.h"
#include "rawsrc/conf.c"

#ifdef U_NEW
static spifconf_var_t *spifconf_new_var(void)
__CPROVER_assigns()
__CPROVER_ensures(__CPROVER_is_fresh(__CPROVER_return_value, sizeof(spifconf_var_t)))
__CPROVER_ensures(__CPROVER_return_value->var == NULL && __CPROVER_return_value->value == NULL
                  && __CPROVER_return_value->next == NULL)
;
void harness(void)
{
    spifconf_var_t *v = spifconf_new_var();
    VERIF_CANARY();
}
#endif

#ifdef U_FREE
/* name and value are each absent or an owned heap block; all three blocks are released */
static void spifconf_free_var(spifconf_var_t *v)
__CPROVER_requires(VARNODE_FRESH(v))
__CPROVER_requires(v->var == NULL || __CPROVER_is_fresh(v->var, vg_n1 + 1))
__CPROVER_requires(v->value == NULL || __CPROVER_is_fresh(v->value, vg_n2 + 1))
__CPROVER_assigns(__CPROVER_object_whole(v))
__CPROVER_frees(v, v->var, v->value)
__CPROVER_ensures(__CPROVER_was_freed(v))
__CPROVER_ensures(__CPROVER_old(v->var) == NULL || __CPROVER_was_freed(__CPROVER_old(v->var)))
__CPROVER_ensures(__CPROVER_old(v->value) == NULL || __CPROVER_was_freed(__CPROVER_old(v->value)))
;
void harness(void)
{
    spifconf_var_t *v;
    __CPROVER_assume(vg_n1 <= VCAP && vg_n2 <= VCAP);
    spifconf_free_var(v);
    VERIF_CANARY();
}
#endif

#if defined(U_PUT_GET) || defined(U_PUT_LEAK)
/* keys: "a", "b", "aa", "ab", "ba", "bb" -- heap strings of <= 2 characters; values: one character.
 * All nondeterministic inputs are taken in the harness through VND (native replay: native: self):
 * slots 0..2 the store, slot 3 the key that is put, slot 4 another key. */
static int w_k0[5], w_k1[5], w_v[5];
#define PICK_SLOT(i) { w_k0[i] = (int) VND(int, k##i##a); w_k1[i] = (int) VND(int, k##i##b); w_v[i] = (int) VND(int, v##i); \
    __CPROVER_assume((w_k0[i] == 'a' || w_k0[i] == 'b') && (w_k1[i] == 0 || w_k1[i] == 'a' || w_k1[i] == 'b') && w_v[i] >= 0 && w_v[i] < 128); }
#define PICK_SLOTS() { PICK_SLOT(0) PICK_SLOT(1) PICK_SLOT(2) PICK_SLOT(3) PICK_SLOT(4) }
static char *mk_key(int i)
{
    char *k = malloc(3);
    k[0] = (char) w_k0[i]; k[1] = (char) w_k1[i]; k[2] = 0;
    return k;
}
static char *mk_val(int i)
{
    char *v = malloc(2);
    v[0] = (char) w_v[i]; v[1] = 0;
    return v;
}
static int key_lt(const char *a, const char *b)   /* reference order: byte-wise, shorter first */
{
    if (a[0] != b[0]) return (unsigned char) a[0] < (unsigned char) b[0];
    return (unsigned char) a[1] < (unsigned char) b[1];
}
static int key_eq(const char *a, const char *b) { return a[0] == b[0] && a[1] == b[1]; }

static unsigned build_store(unsigned n)           /* n <= 3 entries from slots 0..n-1, strictly ascending */
{
    unsigned i;
    spifconf_var_t *prev = NULL;
    spifconf_vars = NULL;
    for (i = 0; i < n; i++) {
        spifconf_var_t *v = malloc(sizeof(spifconf_var_t));
        v->var = mk_key((int) i); v->value = mk_val((int) i); v->next = NULL;
        if (prev) { __CPROVER_assume(key_lt(prev->var, v->var)); prev->next = v; } else { spifconf_vars = v; }
        prev = v;
    }
    return n;
}
#define PICK_N() ({ unsigned vq_n = (unsigned) VND(uint, n); __CPROVER_assume(vq_n <= 3); vq_n; })
/* reference lookup, independent of the code under test */
static char *ref_get(const char *k)
{
    spifconf_var_t *v;
    for (v = spifconf_vars; v; v = v->next) if (key_eq(v->var, k)) return v->value;
    return NULL;
}
static unsigned store_len_sorted(void)
{
    unsigned n = 0;
    spifconf_var_t *v;
    for (v = spifconf_vars; v; v = v->next, n++) {
        __CPROVER_assert(v->var != NULL && v->value != NULL, "every entry has a name and a value");
        if (v->next) __CPROVER_assert(key_lt(v->var, v->next->var), "store strictly ascending by name: one entry per name");
    }
    return n;
}
#endif

#ifdef U_PUT_GET
void harness(void)
{
    unsigned n, n1, n2, n3;
    char *k, *v, *other;
    char probe[3];
    PICK_SLOTS();
    n = build_store(PICK_N());
    k = mk_key(3); v = mk_val(3);
    other = mk_key(4);
    probe[0] = k[0]; probe[1] = k[1]; probe[2] = 0;
    __CPROVER_assume(!key_eq(other, probe));
    char *other_before = ref_get(other);
    int present = ref_get(probe) != NULL;

    spifconf_put_var(k, v);                                  /* %put(k v) */
    n1 = store_len_sorted();
    __CPROVER_assert(n1 == n + (present ? 0 : 1), "put: one entry per name (replace, or insert exactly one)");
    __CPROVER_assert(spifconf_get_var(probe) == v, "put then get returns the value just put");
    __CPROVER_assert(ref_get(probe) == v, "put: the value is stored under exactly this name");
    __CPROVER_assert(spifconf_get_var(other) == other_before, "put leaves every other name alone");

    char *k2 = malloc(3), *v2 = mk_val(4);                   /* put again */
    k2[0] = probe[0]; k2[1] = probe[1]; k2[2] = 0;
    spifconf_put_var(k2, v2);
    n2 = store_len_sorted();
    __CPROVER_assert(n2 == n1, "put on an existing name replaces: length unchanged");
    __CPROVER_assert(spifconf_get_var(probe) == v2, "get returns the latest value after a second put");
    __CPROVER_assert(spifconf_get_var(other) == other_before, "second put leaves every other name alone");

    char *k3 = malloc(3);                                    /* delete */
    k3[0] = probe[0]; k3[1] = probe[1]; k3[2] = 0;
    spifconf_put_var(k3, NULL);
    n3 = store_len_sorted();
    __CPROVER_assert(n3 == n2 - 1, "delete removes exactly one entry");
    __CPROVER_assert(spifconf_get_var(probe) == NULL, "get after delete finds nothing");
    __CPROVER_assert(spifconf_get_var(other) == other_before, "delete leaves every other name alone");
    VERIF_CANARY();
}
#endif

#ifdef U_PUT_LEAK
/* spifconf_put_var owns both words it is given (builtin_put hands over two fresh copies and keeps
 * nothing): whatever it does not store it has to release. */
void harness(void)
{
    unsigned n;
    char *k, *v;
    char probe[3];
    spifconf_var_t *p, *q;
    PICK_SLOTS();
    n = build_store(PICK_N());
    k = mk_key(3);
    probe[0] = k[0]; probe[1] = k[1]; probe[2] = 0;
#if defined(L_INSERT)
    v = mk_val(3); __CPROVER_assume(ref_get(probe) == NULL);
#elif defined(L_REPLACE)
    v = mk_val(3); __CPROVER_assume(ref_get(probe) != NULL);
#else
    v = NULL;
#endif
    spifconf_put_var(k, v);
    for (p = spifconf_vars; p; p = q) { q = p->next; spifconf_free_var(p); }
    spifconf_vars = NULL;
    VERIF_CANARY();
}
#endif
