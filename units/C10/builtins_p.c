/* C10, the %put / %get built-ins (src/conf.c builtin_put, builtin_get), tier P: loop-free, the word
 * utilities of strings.c (C12) and the variable store (varstore.c) are represented by declared contracts.
 *
 *  builtin_put : "%put(k v)": exactly when the argument text has two words the store is updated once, with
 *                fresh copies of word 1 (name) and word 2 (value), in this order; otherwise the store is not
 *                touched; the call itself expands to nothing (NULL).
 *  builtin_get : "%get(k)" / "%get(k default)": the result is a fresh copy of the stored value (never the
 *                stored block itself, which the caller would free), else the default word, else NULL; the
 *                name word is released; the store is not modified.
 */
/*@unit
name: builtin_put
define: U_PUT
src: conf.c
enforce: builtin_put
replace: spiftool_num_words, spiftool_get_word, spifconf_put_var
backend: sat
*/
/*@unit
name: builtin_get
define: U_GET, VERIF_OWN_STRDUP
src: conf.c
enforce: builtin_get
replace: spiftool_num_words, spiftool_get_word, spifconf_get_var
backend: sat
*/
#include "vprelude.h"
#include "expand.h"
#include "src/conf.c"
#include "conf.h"

/* ghosts: what the word utilities delivered, what reached the store */
unsigned long vg_nwords;                 /* value returned by spiftool_num_words                          */
spif_charptr_t vg_word[3];               /* block returned for word 1 / word 2 (index = word number)       */
unsigned long vg_put_calls;
spif_charptr_t vg_put_var, vg_put_val;
spif_charptr_t vg_get_arg, vg_get_ret, vg_stored;
size_t vg_wl;

/* strings.c (C12): number of words of a C string -- any count; a word has at least one character, so the
 * count is at most the length (vg_n1 is the ghost length of the argument text, < CONFIG_BUFF at every call
 * site of the built-ins: the text is the Command buffer of spifconf_shell_expand) */
unsigned long spiftool_num_words(const spif_charptr_t str)
__CPROVER_requires(str != NULL)
__CPROVER_assigns(vg_nwords)
__CPROVER_ensures(__CPROVER_return_value == vg_nwords && vg_nwords <= vg_n1)
;
/* strings.c (C12): word number `index` as a fresh heap string, or NULL when there is no such word */
spif_charptr_t spiftool_get_word(unsigned long index, const spif_charptr_t str)
__CPROVER_requires(str != NULL && (index == 1 || index == 2))
__CPROVER_assigns(vg_word[index], vg_wl)
__CPROVER_ensures(__CPROVER_return_value == NULL ||
                  (vg_wl <= VCAP && __CPROVER_is_fresh(__CPROVER_return_value, vg_wl + 1)))
__CPROVER_ensures(vg_word[index] == __CPROVER_return_value)
;

#ifdef U_PUT
static void spifconf_put_var(spif_charptr_t var, spif_charptr_t val)
__CPROVER_assigns(spifconf_vars, vg_put_calls, vg_put_var, vg_put_val)
__CPROVER_ensures(vg_put_calls == __CPROVER_old(vg_put_calls) + 1 && vg_put_var == var && vg_put_val == val)
;
static spif_charptr_t builtin_put(spif_charptr_t param)
__CPROVER_requires(param == NULL || (vg_n1 < CONFIG_BUFF && __CPROVER_is_fresh(param, vg_n1 + 1) && param[vg_n1] == 0))
__CPROVER_requires(FSTK_INV)
__CPROVER_requires(vg_put_calls < 1000)
__CPROVER_assigns(spifconf_vars, vg_put_calls, vg_put_var, vg_put_val, vg_nwords, vg_wl, __CPROVER_object_whole(vg_word))
__CPROVER_ensures(__CPROVER_return_value == NULL)
/* two words: one store update with (word 1, word 2) */
__CPROVER_ensures(!(param != NULL && vg_nwords == 2) ||
                  (vg_put_calls == __CPROVER_old(vg_put_calls) + 1 && vg_put_var == vg_word[1] && vg_put_val == vg_word[2]))
/* anything else: the store is not touched */
__CPROVER_ensures((param != NULL && vg_nwords == 2) ||
                  (vg_put_calls == __CPROVER_old(vg_put_calls) && spifconf_vars == __CPROVER_old(spifconf_vars)))
;
void harness(void)
{
    spif_charptr_t param;
    builtin_put(param);
    VERIF_CANARY();
}
#endif

#ifdef U_GET
/* strdup: fresh block (env.h's model needs strlen; here only freshness matters) */
char *strdup(const char *s)
{
    __CPROVER_assert(s != NULL, "strdup: argument not NULL");
    char *r = malloc(1 + (size_t) nondet_uchar());
    return r;
}
/* the store lookup: NULL or a pointer to the stored value (owned by the store) */
static spif_charptr_t spifconf_get_var(const spif_charptr_t var)
__CPROVER_assigns(vg_get_arg, vg_get_ret)
__CPROVER_ensures(vg_get_arg == var && vg_get_ret == __CPROVER_return_value)
__CPROVER_ensures(__CPROVER_return_value == NULL || __CPROVER_return_value == vg_stored)
;
static spif_charptr_t builtin_get(spif_charptr_t param)
__CPROVER_requires(param == NULL || (vg_n1 < CONFIG_BUFF && __CPROVER_is_fresh(param, vg_n1 + 1) && param[vg_n1] == 0))
__CPROVER_requires(FSTK_INV)
__CPROVER_requires(__CPROVER_is_fresh(vg_stored, 4))
__CPROVER_assigns(vg_get_arg, vg_get_ret, vg_nwords, vg_wl, __CPROVER_object_whole(vg_word))
__CPROVER_frees(vg_word[1], vg_word[2])
/* never hands out the stored block itself, and leaves it alone */
__CPROVER_ensures(__CPROVER_return_value != vg_stored && __CPROVER_rw_ok(vg_stored, 4))
/* malformed call: nothing */
__CPROVER_ensures(!(param == NULL || vg_nwords > 2) || __CPROVER_return_value == NULL)
/* found: a copy (neither word is returned); the name word is released, and so is an unused default */
__CPROVER_ensures(!(param != NULL && vg_nwords <= 2 && vg_get_ret != NULL) ||
                  (__CPROVER_return_value != NULL && __CPROVER_return_value != vg_word[1] &&
                   (vg_nwords != 2 || __CPROVER_return_value != vg_word[2])))
/* not found: the default word when two words were given, else nothing */
__CPROVER_ensures(!(param != NULL && vg_nwords == 2 && vg_get_ret == NULL) || __CPROVER_return_value == vg_word[2])
__CPROVER_ensures(!(param != NULL && vg_nwords < 2 && vg_get_ret == NULL) || __CPROVER_return_value == NULL)
;
void harness(void)
{
    spif_charptr_t param;
    builtin_get(param);
    VERIF_CANARY();
}
#endif
