/* C10, spifconf_shell_expand, tier P (unbounded): loop contracts on the main loop and the six inner
 * loops (annot/conf.c.expand.ann + contracts/expand.h), recursion and built-ins through contracts.
 *
 *  expand_bounds         pbuff stays inside [s, s+N] for ANY position N of a NUL in s (hence for the first);
 *                        every newbuff index written is < CONFIG_BUFF; the 128-byte name buffer and the
 *                        Command copies are never overrun; result NUL-terminated within CONFIG_BUFF.
 *  expand_bounds_pad     same, behaviour "s[N+1] == 0 as well" (cursor may reach N+1)
 */
/*@unit
name: expand_bounds
define: VERIF_EXPAND_ANNOT, VERIF_EXPAND_PSTUBS, VERIF_OWN_STRLEN, VERIF_OWN_STRCMP, U_PAD=0
src: conf.c
enforce: spifconf_shell_expand
giflags: --replace-calls builtin_exec:vb_any --restrict-function-pointer spifconf_shell_expand.function_pointer_call.1/vb_any
backend: sat
loops: 1
timeout: 600
*/
#define VERIF_OWN_STRCPY
#include "vprelude.h"
#include "expand.h"
#include "env_expand.h"
#include "src/conf.c"
#include "conf.h"

/* ---- callee contracts ------------------------------------------------------------------------------ */
/* spiftool_safe_strncpy (strings.c; contract proved in C13.safe_strncpy for a destination of exactly `size`
 * bytes: "writes at most size bytes, leaves dest NUL-terminated, stores the longest prefix that fits").
 * It is used here as an EXECUTABLE MODEL of that contract instead of --replace-call-with-contract, because
 * the frame "the first size bytes from dest" is a symbolic slice of the 20 kB fixed-size array newbuff and
 * cbmc 6.11 cannot havoc such a slice (array_replace on a large constant-size array: the simplifier
 * recurses once per element and overflows the stack).  The model over-approximates the contract: the WHOLE
 * destination object gets arbitrary contents, then (a) the byte at the ghost index vg_k is restored when it
 * lies outside [dest, dest+size) -- frame --, (b) set to the corresponding source byte when it lies inside
 * the copied prefix, (c) the terminator is stored at dest[L], L = min(strlen(src), size-1). */
spif_bool_t spiftool_safe_strncpy(spif_charptr_t dest, const spif_charptr_t src, spif_int32_t size)
{
    __CPROVER_assert(size > 0 && __CPROVER_w_ok(dest, (size_t) size), "safe_strncpy requires: size > 0 and dest has size writable bytes");
    __CPROVER_assert(src != NULL && VG_REGISTERED(src) && __CPROVER_POINTER_OFFSET(src) == 0, "safe_strncpy requires: src is a C string (registered exact length)");
    size_t n = VG_REGLEN(src), L = VMIN(n, (size_t) size - 1), off = __CPROVER_POINTER_OFFSET(dest);
    char *base = dest - off;
    _Bool k_in_obj = vg_k < __CPROVER_OBJECT_SIZE(dest);
    char keep = k_in_obj ? base[vg_k] : 0;
    char from = (vg_k >= off && vg_k - off < L) ? src[vg_k - off] : 0;
    __CPROVER_havoc_object(dest);
    if (k_in_obj && (vg_k < off || vg_k - off >= (size_t) size)) base[vg_k] = keep;
    if (vg_k >= off && vg_k - off < L) base[vg_k] = from;
    dest[L] = 0;
    return n <= (size_t) size - 1 ? TRUE : FALSE;
}

/* built-ins.  The dispatch  (builtins[k].ptr)(Command)  is restricted (goto-instrument
 * --restrict-function-pointer) to the verification built-in vb_any below, and the table precondition says
 * that every registered pointer is vb_any: an abstract built-in that stands for all seven real ones and for
 * user-registered ones.  It returns NULL or a fresh heap string of exactly vg_sl2 characters (registered with
 * the strlen stub) whose byte at the ghost index vg_q is not vg_fb, and may change the variable store.
 * builtin_exec (called directly for back-quotes) is represented by the same model (goto-instrument
 * --replace-calls builtin_exec:vb_any; a declared contract with this postcondition costs cbmc 60 s of
 * symbolic execution per call site, the executable model nothing). */
spif_charptr_t vb_any(spif_charptr_t param)
{
    spifconf_vars = nondet_ptr();
    if (nondet_bool()) return (spif_charptr_t) NULL;
    size_t n = nondet_size_t();
    __CPROVER_assume(n <= VCAP);
    char *r = malloc(n + 1);
    r[n] = 0;
    __CPROVER_assume(n == 0 || r[0] != 0);
    __CPROVER_assume(!(vg_q < n) || r[vg_q] != vg_fb);
    vg_so2 = r; vg_sl2 = n;
    return r;
}
/* ---- the function under proof ---------------------------------------------------------------------- */
/* the built-in table: 0..2 registered entries with heap names (registered lengths), then the NULL name */
#define BLT_OK (__CPROVER_is_fresh(builtins, sizeof(spifconf_func_t) * 3) && builtin_idx <= 2 && \
    (builtin_idx < 1 || (vg_bl0 <= 64 && __CPROVER_is_fresh(builtins[0].name, vg_bl0 + 1) && builtins[0].name[vg_bl0] == 0 && vg_bn0 == builtins[0].name)) && \
    (builtin_idx < 2 || (vg_bl1 <= 64 && __CPROVER_is_fresh(builtins[1].name, vg_bl1 + 1) && builtins[1].name[vg_bl1] == 0 && vg_bn1 == builtins[1].name)) && \
    builtins[builtin_idx].name == NULL)
#define BLT_PTR_OK(p) ((p) == vb_any)

spif_charptr_t spifconf_shell_expand(spif_charptr_t s)
__CPROVER_requires(__CPROVER_is_fresh(s, CONFIG_BUFF))
__CPROVER_requires(vg_nin < CONFIG_BUFF && s[vg_nin] == 0)
__CPROVER_requires(vg_pad == U_PAD && (vg_pad == 0 || (vg_nin + 1 < CONFIG_BUFF && s[vg_nin + 1] == 0)))
__CPROVER_requires(BLT_OK)
__CPROVER_requires(builtin_idx < 1 || BLT_PTR_OK(builtins[0].ptr))
__CPROVER_requires(builtin_idx < 2 || BLT_PTR_OK(builtins[1].ptr))
__CPROVER_requires(FSTK_INV)
__CPROVER_assigns(__CPROVER_object_whole(s), spifconf_vars, EXP_GHOSTS)
__CPROVER_ensures(__CPROVER_return_value == s || __CPROVER_return_value == NULL)
__CPROVER_ensures(__CPROVER_return_value == NULL || (vg_rlen < CONFIG_BUFF && s[vg_rlen] == 0))
;

void harness(void)
{
    spif_charptr_t s;
    spifconf_shell_expand(s);
    VERIF_CANARY();
}
