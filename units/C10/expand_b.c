/* C10, spifconf_shell_expand, tier B (bounded): the REAL conf.c + strings.c, loops unwound, exact byte-loop
 * libc models (contracts/env_expand.h), one environment variable "a", HOME, one registered built-in "a".
 *
 * Why tier B: see units/C10/README in prop.json note -- cbmc's DFCC loop-contract instrumentation of this
 * 230-line function (7 loops, recursion) does not fit in memory (every loop guard dereferences a havocked
 * cursor, which cbmc resolves against each of ~190 bookkeeping objects).
 *
 * exact_*  : the result equals an executable REFERENCE expansion written from the property statement
 *            (ref_expand below), for every input of <= NMAX characters over the unit's alphabet.
 *            Inputs whose meaning the statement does not define (unterminated ${ / $( / %a(, empty ${},
 *            "%a )") are outside these units (they are the business of the reads_* units).
 * reads_*  : the input sits in a heap block of exactly strlen+1 bytes and nothing can grow (HOME, $a unset,
 *            the built-in returns NULL or ""): any read behind the terminator and any write outside a
 *            buffer is a failed pointer check.
 * determinism : two calls on equal text with different bytes behind the terminator (and cbmc's arbitrary
 *            initial contents of the stack buffer) give equal results.
 */
/*@unit
name: exact_quote_tilde
define: U_EXACT, A_SPACE, A_TILDE, A_SQ, A_DQ, NMAX=7, VERIF_EXACT_LIBC, VERIF_OWN_STRLEN, VERIF_OWN_STRCMP, VERIF_OWN_STRDUP, VERIF_OWN_STRCHR
src: conf.c, strings.c
tier: B
bound: input <= 7 characters over {a, space, ~, ', "}; HOME unset, empty or "/h"
unwind: 10
flags: --unwindset strcpy.0:24,spiftool_safe_strncpy.0:4
objbits: 10
backend: sat
timeout: 600
funcs: spifconf_shell_expand, spiftool_safe_strncpy
*/
#include "vprelude.h"
#include "expand.h"
#include "env_expand.h"
#include "strings.h"   /* spec macros / ghosts used by the annotation tables of strings.c (owners strhelp, split) */
#include "split.h"
#include "src/conf.c"
#include "src/strings.c"

/* ---- the registered built-in "a": NULL for NULL or empty arguments, "" when the arguments start with a
 * blank, otherwise the arguments in square brackets ---------------------------------------------------- */
static spif_charptr_t vb_a(spif_charptr_t param)
{
    size_t n, i;
    char *r;
    if (param == NULL || param[0] == 0) return NULL;
    if (param[0] == ' ') { r = malloc(1); r[0] = 0; return r; }
    n = strlen(param);
    r = malloc(n + 3);
    r[0] = '[';
    for (i = 0; i < n; i++) r[i + 1] = param[i];
    r[n + 1] = ']'; r[n + 2] = 0;
    return r;
}

/* ---- reference expansion, from the property statement ------------------------------------------------ */
#define R_OUTMAX 40
#define RF_TRAIL_BS   1u    /* input (or an argument text) ends in a backslash                 */
#define RF_UNTERM     2u    /* ${ or $( without its closer                                     */
#define RF_EMPTYNAME  4u    /* ${} or $()                                                       */
#define RF_MISMATCH   8u    /* %a( without the matching )                                       */
#define RF_CALLSPACE 16u    /* "%a )" -- not a call according to the statement, one for conf.c  */
#define RF_LONEPCT   32u    /* a % that does not start a call (ordinary text, kept)             */
#define RF_LONEDOLLAR 64u   /* a $ that names nothing (ordinary text, kept)                     */
#define RF_OVERFLOW 128u    /* reference buffer too small (never for the bounds used)           */
static unsigned ref_flags;

static char ref_escape(char d)
{
    switch (tolower(d)) {
      case 'n': return '\n'; case 'r': return '\r'; case 't': return '\t'; case 'b': return '\b';
      case 'f': return '\f'; case 'a': return '\a'; case 'v': return '\v'; case 'e': return '\033';
      default:  return d;
    }
}
static int ref_namechar(char c) { return isalnum((unsigned char) c) || c == '_'; }
static const char *ref_env(const char *nm, size_t n)      /* the environment: one variable, "a" */
{
    return (n == 1 && nm[0] == 'a') ? vb_env_a : (const char *) 0;
}
#define R_PUT(ch) do { if (o + 1 >= R_OUTMAX) { ref_flags |= RF_OVERFLOW; return o; } out[o++] = (ch); } while (0)
#define R_PUTS(str) do { const char *vq_s = (str); size_t vq_i; if (vq_s) for (vq_i = 0; vq_s[vq_i]; vq_i++) R_PUT(vq_s[vq_i]); } while (0)

/* expands in[0..len) into out (NUL-terminated); returns the length */
static size_t ref_expand(const char *in, size_t len, char *out)
{
    size_t i = 0, o = 0;
    int sq = 0, dq = 0;
    while (i < len) {
        char c = in[i];
        if (c == '\\') {
            if (i + 1 >= len) { ref_flags |= RF_TRAIL_BS; R_PUT('\\'); i++; }        /* ordinary text */
            else if (!sq) { R_PUT(ref_escape(in[i + 1])); i += 2; }                  /* escape -> control character */
            else if (in[i + 1] == '\'') { R_PUT('\''); i += 2; }                      /* \' inside single quotes */
            else { R_PUT('\\'); R_PUT(in[i + 1]); i += 2; }                           /* left alone */
        } else if (c == '~') {
            if (!sq && !dq && vb_home && vb_home[0]) R_PUTS(vb_home); else R_PUT('~');
            i++;
        } else if (c == '$' && !sq) {
            size_t a, e;
            char close = (i + 1 < len && in[i + 1] == '{') ? '}' : (i + 1 < len && in[i + 1] == '(') ? ')' : 0;
            if (close) {
                a = i + 2;
                for (e = a; e < len && in[e] != close; e++) ;
                if (e >= len) { ref_flags |= RF_UNTERM; out[o] = 0; return o; }
                if (e == a) ref_flags |= RF_EMPTYNAME;
                R_PUTS(ref_env(in + a, e - a));                                       /* value, or nothing */
                i = e + 1;
            } else {
                a = i + 1;
                for (e = a; e < len && ref_namechar(in[e]); e++) ;
                if (e == a) { ref_flags |= RF_LONEDOLLAR; R_PUT('$'); i++; }          /* names nothing: text */
                else { R_PUTS(ref_env(in + a, e - a)); i = e; }
            }
        } else if (c == '%') {
            if (i + 2 < len && tolower(in[i + 1]) == 'a' && in[i + 2] == '(') {       /* %a( ... ) */
                size_t a = i + 3, e, depth = 1;
                char arg[R_OUTMAX];
                size_t alen;
                spif_charptr_t res;
                for (e = a; e < len; e++) {
                    if (in[e] == '(') depth++;
                    else if (in[e] == ')' && --depth == 0) break;
                }
                if (e >= len) { ref_flags |= RF_MISMATCH; out[o] = 0; return o; }
                alen = ref_expand(in + a, e - a, arg);                                /* innermost first */
                (void) alen;
                res = vb_a(arg);
                R_PUTS(res);
                if (res) free(res);
                i = e + 1;
            } else {
                if (i + 3 < len && tolower(in[i + 1]) == 'a' && in[i + 2] == ' ' && in[i + 3] == ')') ref_flags |= RF_CALLSPACE;
                ref_flags |= RF_LONEPCT;
                R_PUT('%'); i++;
            }
        } else {
            if (c == '"' && !sq) dq = !dq;
            if (c == '\'') sq = !sq;
            R_PUT(c); i++;
        }
    }
    out[o] = 0;
    return o;
}

/* ---- harness plumbing -------------------------------------------------------------------------------- */
static int in_alphabet(char c)
{
    if (c == 'a') return 1;
#ifdef A_SPACE
    if (c == ' ') return 1;
#endif
#ifdef A_TILDE
    if (c == '~') return 1;
#endif
#ifdef A_BS
    if (c == '\\') return 1;
#endif
#ifdef A_DOLLAR
    if (c == '$') return 1;
#endif
#ifdef A_BRACE
    if (c == '{' || c == '}') return 1;
#endif
#ifdef A_PAREN
    if (c == '(' || c == ')') return 1;
#endif
#ifdef A_PCT
    if (c == '%') return 1;
#endif
#ifdef A_SQ
    if (c == '\'') return 1;
#endif
#ifdef A_DQ
    if (c == '"') return 1;
#endif
    return 0;
}
static char w_in[NMAX + 1];
static size_t w_len;
static void pick_input(void)                          /* w_in: arbitrary text of <= NMAX characters */
{
    size_t i;
    w_len = nondet_size_t();
    __CPROVER_assume(w_len <= NMAX);
    for (i = 0; i < NMAX; i++) {
        char c = nondet_char();
        __CPROVER_assume(i < w_len ? in_alphabet(c) : c == 0);
        w_in[i] = c;
    }
    w_in[NMAX] = 0;
}
static char *mk_str(const char *lit)
{
    size_t n = strlen(lit), i;
    char *r = malloc(n + 1);
    for (i = 0; i <= n; i++) r[i] = lit[i];
    return r;
}
static void pick_environment(void)
{
    vb_home = nondet_bool() ? (char *) 0 : (nondet_bool() ? mk_str("") : mk_str("/h"));
    vb_env_a = nondet_bool() ? (char *) 0 : (nondet_bool() ? mk_str("") : mk_str("V"));
#ifdef ENV_SET
    __CPROVER_assume(vb_env_a != NULL && vb_env_a[0] != 0);
#endif
#ifdef ENV_UNSET
    __CPROVER_assume(vb_env_a == NULL || vb_env_a[0] == 0);
#endif
}
static void setup_builtins(void)                      /* table: "a" -> vb_a, then the NULL name */
{
    builtin_cnt = 4; builtin_idx = 1;
    builtins = malloc(sizeof(spifconf_func_t) * 4);
    builtins[0].name = (spif_charptr_t) mk_str("a"); builtins[0].ptr = vb_a;
    builtins[1].name = NULL; builtins[1].ptr = NULL;
    fstate_cnt = 2; fstate_idx = 0;
    fstate = malloc(sizeof(fstate_t) * 2);
    fstate[0].path = (spif_charptr_t) mk_str("f"); fstate[0].line = 1; fstate[0].fp = NULL; fstate[0].outfile = NULL; fstate[0].flags = 0;
    libast_debug_level = 0;
}

#ifdef U_EXACT
void harness(void)
{
    char ref[R_OUTMAX];
    size_t rl, i;
    spif_charptr_t buf, r;
    pick_input();
    pick_environment();
    setup_builtins();
    ref_flags = 0;
    rl = ref_expand(w_in, w_len, ref);
#ifndef D_FLAGS
# define D_FLAGS 0u
#endif
    /* the unit's behaviour: exactly the inputs whose reference flags are D_FLAGS-compatible */
    __CPROVER_assume((ref_flags & ~(D_FLAGS)) == 0);
#ifdef D_NEED
    __CPROVER_assume((ref_flags & (D_NEED)) != 0);
#endif
    buf = malloc(CONFIG_BUFF);                          /* a line buffer: text, terminator, leftovers */
    for (i = 0; i <= w_len; i++) buf[i] = w_in[i];
    r = spifconf_shell_expand(buf);
    __CPROVER_assert(r == buf, "expansion succeeds and returns its argument");
    __CPROVER_assert(strlen((char *) buf) == rl, "length of the result equals the reference expansion");
    for (i = 0; i <= rl; i++)
        __CPROVER_assert(buf[i] == ref[i], "result equals the reference expansion (text before and after each construct preserved)");
    VERIF_CANARY();
}
#endif
