/* C10, spifconf_shell_expand, tier B (bounded): the REAL conf.c, loops unwound, exact byte-loop libc models
 * (contracts/env_expand.h), one environment variable "a", HOME, one registered built-in "a".
 *
 * Why tier B: cbmc 6.11 cannot carry the tier P design (loop contracts on the main loop and the six inner
 * loops, DFCC) through this 230-line function: every loop guard dereferences a havocked cursor, which cbmc
 * resolves against each of the ~190 heap objects of the DFCC bookkeeping, and the propositional encoding
 * exceeds 11 GB even with the line buffer shrunk; see units/C10/prop.json.
 *
 * exact_*  : the result equals an executable REFERENCE expansion written from the property statement
 *            (ref_expand below), for every input of <= NMAX characters over the unit's alphabet.
 *            Inputs whose meaning the statement does not define (unterminated ${ / $( / %a(, empty ${},
 *            "%a )") are outside these units (they are the business of the reads_* units).
 */
/*@unit
name: exact_quote_tilde
define: U_EXACT, A_SPACE, A_TILDE, A_SQ, A_DQ, NMAX=8, BUFF=32, VERIF_EXACT_LIBC, VERIF_OWN_STRLEN, VERIF_OWN_STRCMP, VERIF_OWN_STRDUP, VERIF_OWN_STRCHR
src: conf.c
tier: B
bound: input <= 8 characters over {a, space, ~, ', "}; HOME unset, empty or "/h"; line-buffer limit CONFIG_BUFF scaled to 32 bytes (stated re-binding)
unwind: 10
flags: --unwindset strlen.0:20,strcpy.0:20,vb_a.0:20,spiftool_safe_strncpy.0:12,mk_str.0:6,strncasecmp.0:3,spifconf_shell_expand:0,spifconf_shell_expand.7:2,spifconf_shell_expand.10:1,spifconf_shell_expand.15:1,spifconf_shell_expand.21:1,spifconf_shell_expand.22:1,spifconf_shell_expand.23:1,spifconf_shell_expand.28:9,spifconf_shell_expand.29:9,check_exact.0:10,check_exact.1:42
objbits: 10
backend: sat
timeout: 600
quick: yes
native: self
funcs: spifconf_shell_expand
*/
/*@unit
name: exact_escape
define: U_EXACT, A_SPACE, A_BS, A_SQ, A_DQ, NMAX=8, BUFF=32, VERIF_EXACT_LIBC, VERIF_OWN_STRLEN, VERIF_OWN_STRCMP, VERIF_OWN_STRDUP, VERIF_OWN_STRCHR
src: conf.c
tier: B
bound: input <= 8 characters over {a, space, backslash, ', "} that does not end in a backslash; line-buffer limit CONFIG_BUFF scaled to 32 bytes (stated re-binding)
unwind: 10
flags: --unwindset strlen.0:12,strcpy.0:12,vb_a.0:12,spiftool_safe_strncpy.0:12,mk_str.0:6,strncasecmp.0:3,spifconf_shell_expand:0,spifconf_shell_expand.7:2,spifconf_shell_expand.10:1,spifconf_shell_expand.15:1,spifconf_shell_expand.21:1,spifconf_shell_expand.22:1,spifconf_shell_expand.23:1,spifconf_shell_expand.28:9,spifconf_shell_expand.29:9,check_exact.0:10,check_exact.1:42
objbits: 10
backend: sat
timeout: 600
quick: yes
native: self
funcs: spifconf_shell_expand
*/
/*@unit
name: exact_escape_trailing
define: U_EXACT, A_SPACE, A_BS, A_SQ, A_DQ, D_FLAGS=RF_TRAIL_BS, D_NEED=RF_TRAIL_BS, NMAX=8, BUFF=32, VERIF_EXACT_LIBC, VERIF_OWN_STRLEN, VERIF_OWN_STRCMP, VERIF_OWN_STRDUP, VERIF_OWN_STRCHR
src: conf.c
tier: B
bound: input <= 8 characters over {a, space, backslash, ', "} that ends in a backslash; line-buffer limit CONFIG_BUFF scaled to 32 bytes (stated re-binding)
unwind: 10
flags: --unwindset strlen.0:12,strcpy.0:12,vb_a.0:12,spiftool_safe_strncpy.0:12,mk_str.0:6,strncasecmp.0:3,spifconf_shell_expand:0,spifconf_shell_expand.7:2,spifconf_shell_expand.10:1,spifconf_shell_expand.15:1,spifconf_shell_expand.21:1,spifconf_shell_expand.22:1,spifconf_shell_expand.23:1,spifconf_shell_expand.28:9,spifconf_shell_expand.29:9,check_exact.0:10,check_exact.1:42
objbits: 10
backend: sat
timeout: 600
quick: yes
native: self
funcs: spifconf_shell_expand
*/
/*@unit
name: exact_env_set
define: U_EXACT, A_SPACE, A_DOLLAR, ENV_SET, A_SQ, A_DQ, NMAX=8, BUFF=32, VERIF_EXACT_LIBC, VERIF_OWN_STRLEN, VERIF_OWN_STRCMP, VERIF_OWN_STRDUP, VERIF_OWN_STRCHR
src: conf.c
tier: B
bound: input <= 8 characters over {a, space, $, ', "}, every $ followed by a name; $a set to "V"; line-buffer limit CONFIG_BUFF scaled to 32 bytes (stated re-binding)
unwind: 10
flags: --unwindset strlen.0:14,strcpy.0:14,vb_a.0:14,spiftool_safe_strncpy.0:12,mk_str.0:6,strncasecmp.0:3,spifconf_shell_expand:0,spifconf_shell_expand.7:2,spifconf_shell_expand.10:1,spifconf_shell_expand.15:1,spifconf_shell_expand.21:8,spifconf_shell_expand.22:8,spifconf_shell_expand.23:8,spifconf_shell_expand.28:9,spifconf_shell_expand.29:9,check_exact.0:10,check_exact.1:42
objbits: 10
backend: sat
timeout: 600
quick: yes
native: self
funcs: spifconf_shell_expand
*/
/*@unit
name: exact_env_unset
define: U_EXACT, A_SPACE, A_DOLLAR, ENV_UNSET, A_SQ, A_DQ, NMAX=8, BUFF=32, VERIF_EXACT_LIBC, VERIF_OWN_STRLEN, VERIF_OWN_STRCMP, VERIF_OWN_STRDUP, VERIF_OWN_STRCHR
src: conf.c
tier: B
bound: input <= 8 characters over {a, space, $, ', "}, every $ followed by a name; $a unset or empty; line-buffer limit CONFIG_BUFF scaled to 32 bytes (stated re-binding)
unwind: 10
flags: --unwindset strlen.0:12,strcpy.0:12,vb_a.0:12,spiftool_safe_strncpy.0:12,mk_str.0:6,strncasecmp.0:3,spifconf_shell_expand:0,spifconf_shell_expand.7:2,spifconf_shell_expand.10:1,spifconf_shell_expand.15:1,spifconf_shell_expand.21:8,spifconf_shell_expand.22:8,spifconf_shell_expand.23:8,spifconf_shell_expand.28:9,spifconf_shell_expand.29:9,check_exact.0:10,check_exact.1:42
objbits: 10
backend: sat
timeout: 600
quick: yes
native: self
funcs: spifconf_shell_expand
*/
/*@unit
name: exact_env_delim
define: U_EXACT, A_DOLLAR, A_BRACE, A_PAREN, NMAX=8, BUFF=32, VERIF_EXACT_LIBC, VERIF_OWN_STRLEN, VERIF_OWN_STRCMP, VERIF_OWN_STRDUP, VERIF_OWN_STRCHR
src: conf.c
tier: B
bound: input <= 8 characters over {a, $, {, }, (, )}, every ${ and $( closed and named; $a unset, empty or "V"; line-buffer limit CONFIG_BUFF scaled to 32 bytes (stated re-binding)
unwind: 10
flags: --unwindset strlen.0:14,strcpy.0:14,vb_a.0:14,spiftool_safe_strncpy.0:12,mk_str.0:6,strncasecmp.0:3,spifconf_shell_expand:0,spifconf_shell_expand.7:2,spifconf_shell_expand.10:1,spifconf_shell_expand.15:1,spifconf_shell_expand.21:8,spifconf_shell_expand.22:8,spifconf_shell_expand.23:8,spifconf_shell_expand.28:9,spifconf_shell_expand.29:9,check_exact.0:10,check_exact.1:42
objbits: 10
backend: sat
timeout: 600
quick: yes
native: self
funcs: spifconf_shell_expand
*/
/*@unit
name: exact_env_lone_dollar
define: U_EXACT, A_SPACE, A_DOLLAR, D_FLAGS=RF_LONEDOLLAR, D_NEED=RF_LONEDOLLAR, NMAX=6, BUFF=32, VERIF_EXACT_LIBC, VERIF_OWN_STRLEN, VERIF_OWN_STRCMP, VERIF_OWN_STRDUP, VERIF_OWN_STRCHR
src: conf.c
tier: B
bound: input <= 6 characters over {a, space, $} with a $ that names nothing; line-buffer limit CONFIG_BUFF scaled to 32 bytes (stated re-binding)
unwind: 8
flags: --unwindset strlen.0:12,strcpy.0:12,vb_a.0:12,spiftool_safe_strncpy.0:12,mk_str.0:6,strncasecmp.0:3,spifconf_shell_expand:0,spifconf_shell_expand.7:2,spifconf_shell_expand.10:1,spifconf_shell_expand.15:1,spifconf_shell_expand.21:6,spifconf_shell_expand.22:6,spifconf_shell_expand.23:6,spifconf_shell_expand.28:7,spifconf_shell_expand.29:7,check_exact.0:8,check_exact.1:42
objbits: 10
backend: sat
timeout: 600
quick: yes
native: self
funcs: spifconf_shell_expand
*/
/*@unit
name: exact_call_empty
define: U_EXACT, A_SPACE, A_PCT, A_PAREN, SHAPE="?%a()?", NMAX=6, BUFF=32, VERIF_EXACT_LIBC, VERIF_OWN_STRLEN, VERIF_OWN_STRCMP, VERIF_OWN_STRDUP, VERIF_OWN_STRCHR
src: conf.c
tier: B
bound: inputs of the shape ?%a()? -- each ? any of {a, space, %, (, )} -- in which every % starts a balanced call; line-buffer limit CONFIG_BUFF scaled to 32 bytes (stated re-binding)
unwind: 8
flags: --unwindset strlen.0:16,strcpy.0:16,vb_a.0:16,spiftool_safe_strncpy.0:12,mk_str.0:6,strncasecmp.0:3,spifconf_shell_expand:1,spifconf_shell_expand.7:2,spifconf_shell_expand.10:6,spifconf_shell_expand.15:1,spifconf_shell_expand.21:1,spifconf_shell_expand.22:1,spifconf_shell_expand.23:1,spifconf_shell_expand.28:7,spifconf_shell_expand.29:7,check_exact.0:8,check_exact.1:42
objbits: 10
backend: sat
timeout: 600
quick: yes
native: self
funcs: spifconf_shell_expand
*/
/*@unit
name: exact_call_prefix
define: U_EXACT, A_SPACE, A_PCT, A_PAREN, SHAPE="?%a(a)", NMAX=6, BUFF=32, VERIF_EXACT_LIBC, VERIF_OWN_STRLEN, VERIF_OWN_STRCMP, VERIF_OWN_STRDUP, VERIF_OWN_STRCHR
src: conf.c
tier: B
bound: inputs of the shape ?%a(a) -- each ? any of {a, space, %, (, )} -- in which every % starts a balanced call; line-buffer limit CONFIG_BUFF scaled to 32 bytes (stated re-binding)
unwind: 8
flags: --unwindset strlen.0:16,strcpy.0:16,vb_a.0:16,spiftool_safe_strncpy.0:12,mk_str.0:6,strncasecmp.0:3,spifconf_shell_expand:1,spifconf_shell_expand.7:2,spifconf_shell_expand.10:6,spifconf_shell_expand.15:1,spifconf_shell_expand.21:1,spifconf_shell_expand.22:1,spifconf_shell_expand.23:1,spifconf_shell_expand.28:7,spifconf_shell_expand.29:7,check_exact.0:8,check_exact.1:42
objbits: 10
backend: sat
timeout: 600
quick: yes
native: self
funcs: spifconf_shell_expand
*/
/*@unit
name: exact_call_prefix2
define: U_EXACT, A_SPACE, A_PCT, A_PAREN, SHAPE="??%a(a)", NMAX=7, BUFF=32, VERIF_EXACT_LIBC, VERIF_OWN_STRLEN, VERIF_OWN_STRCMP, VERIF_OWN_STRDUP, VERIF_OWN_STRCHR
src: conf.c
tier: B
bound: inputs of the shape ??%a(a) -- each ? any of {a, space, %, (, )} -- in which every % starts a balanced call; line-buffer limit CONFIG_BUFF scaled to 32 bytes (stated re-binding)
unwind: 9
flags: --unwindset strlen.0:16,strcpy.0:16,vb_a.0:16,spiftool_safe_strncpy.0:12,mk_str.0:6,strncasecmp.0:3,spifconf_shell_expand:1,spifconf_shell_expand.7:2,spifconf_shell_expand.10:7,spifconf_shell_expand.15:1,spifconf_shell_expand.21:1,spifconf_shell_expand.22:1,spifconf_shell_expand.23:1,spifconf_shell_expand.28:8,spifconf_shell_expand.29:8,check_exact.0:9,check_exact.1:42
objbits: 10
backend: sat
timeout: 600
quick: no
native: self
funcs: spifconf_shell_expand
*/
/*@unit
name: exact_call_suffix
define: U_EXACT, A_SPACE, A_PCT, A_PAREN, SHAPE="%a(a)??", NMAX=7, BUFF=32, VERIF_EXACT_LIBC, VERIF_OWN_STRLEN, VERIF_OWN_STRCMP, VERIF_OWN_STRDUP, VERIF_OWN_STRCHR
src: conf.c
tier: B
bound: inputs of the shape %a(a)?? -- each ? any of {a, space, %, (, )} -- in which every % starts a balanced call; line-buffer limit CONFIG_BUFF scaled to 32 bytes (stated re-binding)
unwind: 9
flags: --unwindset strlen.0:16,strcpy.0:16,vb_a.0:16,spiftool_safe_strncpy.0:12,mk_str.0:6,strncasecmp.0:3,spifconf_shell_expand:1,spifconf_shell_expand.7:2,spifconf_shell_expand.10:7,spifconf_shell_expand.15:1,spifconf_shell_expand.21:1,spifconf_shell_expand.22:1,spifconf_shell_expand.23:1,spifconf_shell_expand.28:8,spifconf_shell_expand.29:8,check_exact.0:9,check_exact.1:42
objbits: 10
backend: sat
timeout: 600
quick: yes
native: self
funcs: spifconf_shell_expand
*/
/*@unit
name: exact_call_cases
define: U_CASES, CASESET=1, A_SPACE, A_TILDE, A_BS, A_SQ, A_DQ, A_PCT, A_PAREN, NMAX=14, BUFF=32, VERIF_EXACT_LIBC, VERIF_OWN_STRLEN, VERIF_OWN_STRCMP, VERIF_OWN_STRDUP, VERIF_OWN_STRCHR
src: conf.c
tier: B
bound: 18 concrete inputs with calls of the built-in a: arguments with blanks, empty, nested two and three deep (innermost first), in sequence, inside quotes, with tilde / escape / quotes / parentheses inside the arguments; HOME and $a unset, empty or set; line-buffer limit CONFIG_BUFF scaled to 32 bytes (stated re-binding)
unwind: 16
flags: --unwindset strlen.0:26,strcpy.0:26,vb_a.0:26,spiftool_safe_strncpy.0:12,mk_str.0:6,strncasecmp.0:3,spifconf_shell_expand:3,spifconf_shell_expand.7:2,spifconf_shell_expand.10:14,spifconf_shell_expand.15:1,spifconf_shell_expand.21:1,spifconf_shell_expand.22:1,spifconf_shell_expand.23:1,spifconf_shell_expand.28:15,spifconf_shell_expand.29:15,harness.0:20,harness.1:16,harness.2:20,check_exact.0:16,check_exact.1:42
objbits: 10
backend: sat
timeout: 600
quick: yes
native: self
funcs: spifconf_shell_expand
*/
/*@unit
name: exact_call_lone_pct
define: U_CASES, CASESET=2, A_SPACE, A_PCT, A_PAREN, D_FLAGS=RF_LONEPCT, NMAX=14, BUFF=32, VERIF_EXACT_LIBC, VERIF_OWN_STRLEN, VERIF_OWN_STRCMP, VERIF_OWN_STRDUP, VERIF_OWN_STRCHR
src: conf.c
tier: B
bound: 6 concrete inputs with a % that starts no call, not at the end of the input; line-buffer limit CONFIG_BUFF scaled to 32 bytes (stated re-binding)
unwind: 16
flags: --unwindset strlen.0:26,strcpy.0:26,vb_a.0:26,spiftool_safe_strncpy.0:12,mk_str.0:6,strncasecmp.0:3,spifconf_shell_expand:3,spifconf_shell_expand.7:2,spifconf_shell_expand.10:14,spifconf_shell_expand.15:1,spifconf_shell_expand.21:1,spifconf_shell_expand.22:1,spifconf_shell_expand.23:1,spifconf_shell_expand.28:15,spifconf_shell_expand.29:15,harness.0:20,harness.1:16,harness.2:20,check_exact.0:16,check_exact.1:42
objbits: 10
backend: sat
timeout: 600
quick: yes
native: self
funcs: spifconf_shell_expand
*/
/*@unit
name: reads_ok
define: U_READS, VB_NOGROW, A_SPACE, A_TILDE, A_BS, A_BRACE, A_PAREN, A_SQ, A_DQ, D_FLAGS=0u, NMAX=6, BUFF=32, VERIF_EXACT_LIBC, VERIF_OWN_STRLEN, VERIF_OWN_STRCMP, VERIF_OWN_STRDUP, VERIF_OWN_STRCHR
src: conf.c
tier: B
bound: input <= 6 characters over {a, space, ~, backslash, {, }, (, ), ', "} not ending in a backslash, in a block of exactly strlen+1 bytes; line-buffer limit CONFIG_BUFF scaled to 32 bytes (stated re-binding)
unwind: 8
flags: --unwindset strlen.0:10,strcpy.0:10,vb_a.0:10,spiftool_safe_strncpy.0:12,mk_str.0:6,strncasecmp.0:3,spifconf_shell_expand:0,spifconf_shell_expand.7:2,spifconf_shell_expand.10:1,spifconf_shell_expand.15:1,spifconf_shell_expand.21:1,spifconf_shell_expand.22:1,spifconf_shell_expand.23:1,spifconf_shell_expand.28:7,spifconf_shell_expand.29:7
objbits: 10
backend: sat
timeout: 600
quick: yes
native: self
funcs: spifconf_shell_expand
*/
/*@unit
name: reads_backslash
define: U_READS, VB_NOGROW, A_BS, A_SQ, D_FLAGS=RF_TRAIL_BS, D_NEED=RF_TRAIL_BS, NMAX=6, BUFF=32, VERIF_EXACT_LIBC, VERIF_OWN_STRLEN, VERIF_OWN_STRCMP, VERIF_OWN_STRDUP, VERIF_OWN_STRCHR
src: conf.c
tier: B
bound: input <= 6 characters over {a, backslash, '} ending in a backslash, in a block of exactly strlen+1 bytes; line-buffer limit CONFIG_BUFF scaled to 32 bytes (stated re-binding)
unwind: 8
flags: --unwindset strlen.0:10,strcpy.0:10,vb_a.0:10,spiftool_safe_strncpy.0:12,mk_str.0:6,strncasecmp.0:3,spifconf_shell_expand:0,spifconf_shell_expand.7:2,spifconf_shell_expand.10:1,spifconf_shell_expand.15:1,spifconf_shell_expand.21:1,spifconf_shell_expand.22:1,spifconf_shell_expand.23:1,spifconf_shell_expand.28:7,spifconf_shell_expand.29:7
objbits: 10
backend: sat
timeout: 600
quick: yes
native: self
funcs: spifconf_shell_expand
*/
/*@unit
name: reads_dollar_ok
define: U_READS, VB_NOGROW, A_DOLLAR, A_BRACE, A_PAREN, D_FLAGS=(RF_LONEDOLLAR|RF_EMPTYNAME), NMAX=4, BUFF=32, VERIF_EXACT_LIBC, VERIF_OWN_STRLEN, VERIF_OWN_STRCMP, VERIF_OWN_STRDUP, VERIF_OWN_STRCHR
src: conf.c
tier: B
bound: input <= 4 characters over {a, $, {, }, (, )} with every ${ and $( closed, in a block of exactly strlen+1 bytes; $a unset or empty; line-buffer limit CONFIG_BUFF scaled to 32 bytes (stated re-binding)
unwind: 6
flags: --unwindset strlen.0:10,strcpy.0:10,vb_a.0:10,spiftool_safe_strncpy.0:12,mk_str.0:6,strncasecmp.0:3,spifconf_shell_expand:0,spifconf_shell_expand.7:2,spifconf_shell_expand.10:1,spifconf_shell_expand.15:1,spifconf_shell_expand.21:4,spifconf_shell_expand.22:4,spifconf_shell_expand.23:4,spifconf_shell_expand.28:5,spifconf_shell_expand.29:5
objbits: 10
backend: sat
timeout: 600
quick: yes
mem: 12
native: self
funcs: spifconf_shell_expand
*/
/*@unit
name: reads_dollar_unterminated
define: U_READS, VB_NOGROW, A_DOLLAR, A_BRACE, A_PAREN, D_FLAGS=(RF_UNTERM|RF_LONEDOLLAR|RF_EMPTYNAME), D_NEED=RF_UNTERM, NMAX=4, BUFF=32, VERIF_EXACT_LIBC, VERIF_OWN_STRLEN, VERIF_OWN_STRCMP, VERIF_OWN_STRDUP, VERIF_OWN_STRCHR
src: conf.c
tier: B
bound: input <= 4 characters over {a, $, {, }, (, )} with an unclosed ${ or $(, in a block of exactly strlen+1 bytes; line-buffer limit CONFIG_BUFF scaled to 32 bytes (stated re-binding)
unwind: 6
flags: --unwindset strlen.0:10,strcpy.0:10,vb_a.0:10,spiftool_safe_strncpy.0:12,mk_str.0:6,strncasecmp.0:3,spifconf_shell_expand:0,spifconf_shell_expand.7:2,spifconf_shell_expand.10:1,spifconf_shell_expand.15:1,spifconf_shell_expand.21:4,spifconf_shell_expand.22:4,spifconf_shell_expand.23:4,spifconf_shell_expand.28:5,spifconf_shell_expand.29:5
objbits: 10
backend: sat
timeout: 600
quick: yes
mem: 12
native: self
funcs: spifconf_shell_expand
*/
/*@unit
name: reads_percent_ok
define: U_READS, VB_NOGROW, A_SPACE, A_PCT, A_PAREN, D_FLAGS=0u, NMAX=4, BUFF=32, VERIF_EXACT_LIBC, VERIF_OWN_STRLEN, VERIF_OWN_STRCMP, VERIF_OWN_STRDUP, VERIF_OWN_STRCHR
src: conf.c
tier: B
bound: input <= 4 characters over {a, space, %, (, )}, every % a balanced call, in a block of exactly strlen+1 bytes; the built-in returns NULL or ""; line-buffer limit CONFIG_BUFF scaled to 32 bytes (stated re-binding)
unwind: 6
flags: --unwindset strlen.0:10,strcpy.0:10,vb_a.0:10,spiftool_safe_strncpy.0:12,mk_str.0:6,strncasecmp.0:3,spifconf_shell_expand:1,spifconf_shell_expand.7:2,spifconf_shell_expand.10:4,spifconf_shell_expand.15:1,spifconf_shell_expand.21:1,spifconf_shell_expand.22:1,spifconf_shell_expand.23:1,spifconf_shell_expand.28:5,spifconf_shell_expand.29:5
objbits: 10
backend: sat
timeout: 900
quick: no
mem: 12
native: self
funcs: spifconf_shell_expand
*/
/*@disabled-unit (lead: the 5-character instance exhausts 12 GB under 14 parallel jobs and ends UNDECIDED; the <= 3 / <= 4 character instances stay)
name: reads_percent_ok_5
define: U_READS, VB_NOGROW, A_SPACE, A_PCT, A_PAREN, D_FLAGS=0u, NMAX=5, BUFF=32, VERIF_EXACT_LIBC, VERIF_OWN_STRLEN, VERIF_OWN_STRCMP, VERIF_OWN_STRDUP, VERIF_OWN_STRCHR
src: conf.c
tier: B
bound: input <= 5 characters over {a, space, %, (, )}, every % a balanced call, in a block of exactly strlen+1 bytes; the built-in returns NULL or ""; line-buffer limit CONFIG_BUFF scaled to 32 bytes (stated re-binding)
unwind: 7
flags: --unwindset strlen.0:10,strcpy.0:10,vb_a.0:10,spiftool_safe_strncpy.0:12,mk_str.0:6,strncasecmp.0:3,spifconf_shell_expand:1,spifconf_shell_expand.7:2,spifconf_shell_expand.10:5,spifconf_shell_expand.15:1,spifconf_shell_expand.21:1,spifconf_shell_expand.22:1,spifconf_shell_expand.23:1,spifconf_shell_expand.28:6,spifconf_shell_expand.29:6
objbits: 10
backend: sat
timeout: 900
quick: no
mem: 12
native: self
funcs: spifconf_shell_expand
*/
/*@unit
name: reads_percent_lone
define: U_READS, VB_NOGROW, A_SPACE, A_PCT, A_PAREN, D_FLAGS=RF_LONEPCT, D_NEED=RF_LONEPCT, NMAX=3, BUFF=32, VERIF_EXACT_LIBC, VERIF_OWN_STRLEN, VERIF_OWN_STRCMP, VERIF_OWN_STRDUP, VERIF_OWN_STRCHR
src: conf.c
tier: B
bound: input <= 3 characters over {a, space, %, (, )} with a % that starts no call, in a block of exactly strlen+1 bytes; line-buffer limit CONFIG_BUFF scaled to 32 bytes (stated re-binding)
unwind: 5
flags: --unwindset strlen.0:10,strcpy.0:10,vb_a.0:10,spiftool_safe_strncpy.0:12,mk_str.0:6,strncasecmp.0:3,spifconf_shell_expand:1,spifconf_shell_expand.7:2,spifconf_shell_expand.10:3,spifconf_shell_expand.15:1,spifconf_shell_expand.21:1,spifconf_shell_expand.22:1,spifconf_shell_expand.23:1,spifconf_shell_expand.28:4,spifconf_shell_expand.29:4
objbits: 10
backend: sat
timeout: 900
quick: yes
mem: 12
native: self
funcs: spifconf_shell_expand
*/
/*@disabled-unit (lead: the 5-character instance exhausts 12 GB under 14 parallel jobs and ends UNDECIDED; the <= 3 / <= 4 character instances stay)
name: reads_percent_lone_5
define: U_READS, VB_NOGROW, A_SPACE, A_PCT, A_PAREN, D_FLAGS=RF_LONEPCT, D_NEED=RF_LONEPCT, NMAX=5, BUFF=32, VERIF_EXACT_LIBC, VERIF_OWN_STRLEN, VERIF_OWN_STRCMP, VERIF_OWN_STRDUP, VERIF_OWN_STRCHR
src: conf.c
tier: B
bound: input <= 5 characters over {a, space, %, (, )} with a % that starts no call, in a block of exactly strlen+1 bytes; line-buffer limit CONFIG_BUFF scaled to 32 bytes (stated re-binding)
unwind: 7
flags: --unwindset strlen.0:10,strcpy.0:10,vb_a.0:10,spiftool_safe_strncpy.0:12,mk_str.0:6,strncasecmp.0:3,spifconf_shell_expand:1,spifconf_shell_expand.7:2,spifconf_shell_expand.10:5,spifconf_shell_expand.15:1,spifconf_shell_expand.21:1,spifconf_shell_expand.22:1,spifconf_shell_expand.23:1,spifconf_shell_expand.28:6,spifconf_shell_expand.29:6
objbits: 10
backend: sat
timeout: 900
quick: no
mem: 12
native: self
funcs: spifconf_shell_expand
*/
/*@unit
name: reads_percent_open
define: U_READS, VB_NOGROW, A_SPACE, A_PCT, A_PAREN, D_FLAGS=RF_MISMATCH, D_NEED=RF_MISMATCH, NMAX=3, BUFF=32, VERIF_EXACT_LIBC, VERIF_OWN_STRLEN, VERIF_OWN_STRCMP, VERIF_OWN_STRDUP, VERIF_OWN_STRCHR
src: conf.c
tier: B
bound: input <= 3 characters over {a, space, %, (, )} with an unclosed %a(, in a block of exactly strlen+1 bytes; line-buffer limit CONFIG_BUFF scaled to 32 bytes (stated re-binding)
unwind: 5
flags: --unwindset strlen.0:10,strcpy.0:10,vb_a.0:10,spiftool_safe_strncpy.0:12,mk_str.0:6,strncasecmp.0:3,spifconf_shell_expand:1,spifconf_shell_expand.7:2,spifconf_shell_expand.10:3,spifconf_shell_expand.15:1,spifconf_shell_expand.21:1,spifconf_shell_expand.22:1,spifconf_shell_expand.23:1,spifconf_shell_expand.28:4,spifconf_shell_expand.29:4
objbits: 10
backend: sat
timeout: 900
quick: yes
mem: 12
native: self
funcs: spifconf_shell_expand
*/
/*@disabled-unit (lead: the 5-character instance exhausts 12 GB under 14 parallel jobs and ends UNDECIDED; the <= 3 / <= 4 character instances stay)
name: reads_percent_open_5
define: U_READS, VB_NOGROW, A_SPACE, A_PCT, A_PAREN, D_FLAGS=RF_MISMATCH, D_NEED=RF_MISMATCH, NMAX=5, BUFF=32, VERIF_EXACT_LIBC, VERIF_OWN_STRLEN, VERIF_OWN_STRCMP, VERIF_OWN_STRDUP, VERIF_OWN_STRCHR
src: conf.c
tier: B
bound: input <= 5 characters over {a, space, %, (, )} with an unclosed %a(, in a block of exactly strlen+1 bytes; line-buffer limit CONFIG_BUFF scaled to 32 bytes (stated re-binding)
unwind: 7
flags: --unwindset strlen.0:10,strcpy.0:10,vb_a.0:10,spiftool_safe_strncpy.0:12,mk_str.0:6,strncasecmp.0:3,spifconf_shell_expand:1,spifconf_shell_expand.7:2,spifconf_shell_expand.10:5,spifconf_shell_expand.15:1,spifconf_shell_expand.21:1,spifconf_shell_expand.22:1,spifconf_shell_expand.23:1,spifconf_shell_expand.28:6,spifconf_shell_expand.29:6
objbits: 10
backend: sat
timeout: 900
quick: no
mem: 12
native: self
funcs: spifconf_shell_expand
*/
/*@unit
name: reads_backquote
define: U_READS, VB_NOGROW, A_BQ, NMAX=3, BUFF=32, VERIF_EXACT_LIBC, VERIF_OWN_STRLEN, VERIF_OWN_STRCMP, VERIF_OWN_STRDUP, VERIF_OWN_STRCHR
src: conf.c
tier: B
bound: input <= 3 characters over {a, back-quote} in a block of exactly strlen+1 bytes; builtin_exec cannot create its temporary file and returns NULL; line-buffer limit CONFIG_BUFF scaled to 32 bytes (stated re-binding)
unwind: 5
flags: --unwindset strlen.0:16,strcpy.0:16,vb_a.0:10,spiftool_safe_strncpy.0:12,mk_str.0:6,strncasecmp.0:3,spifconf_shell_expand:1,spifconf_shell_expand.7:2,spifconf_shell_expand.10:1,spifconf_shell_expand.15:5,spifconf_shell_expand.21:1,spifconf_shell_expand.22:1,spifconf_shell_expand.23:1,spifconf_shell_expand.28:4,spifconf_shell_expand.29:4,strcat.0:4
objbits: 10
backend: sat
timeout: 600
quick: yes
mem: 12
native: self
funcs: spifconf_shell_expand
*/
/*@unit
name: determinism_plain
define: U_DET, A_SPACE, A_TILDE, A_BS, A_SQ, A_DQ, NMAX=6, BUFF=32, VERIF_EXACT_LIBC, VERIF_OWN_STRLEN, VERIF_OWN_STRCMP, VERIF_OWN_STRDUP, VERIF_OWN_STRCHR
src: conf.c
tier: B
bound: two calls, input <= 6 characters over {a, space, ~, backslash, ', "} not ending in a backslash, different leftovers; line-buffer limit CONFIG_BUFF scaled to 32 bytes (stated re-binding)
unwind: 8
flags: --unwindset strlen.0:16,strcpy.0:16,vb_a.0:16,spiftool_safe_strncpy.0:12,mk_str.0:6,strncasecmp.0:3,spifconf_shell_expand:0,spifconf_shell_expand.7:2,spifconf_shell_expand.10:1,spifconf_shell_expand.15:1,spifconf_shell_expand.21:1,spifconf_shell_expand.22:1,spifconf_shell_expand.23:1,spifconf_shell_expand.28:7,spifconf_shell_expand.29:7,strcmp.0:16
objbits: 10
backend: sat
timeout: 600
quick: yes
native: self
funcs: spifconf_shell_expand
*/
/*@unit
name: determinism_env
define: U_DET, A_SPACE, A_DOLLAR, A_BRACE, D_FLAGS=RF_LONEDOLLAR, NMAX=6, BUFF=32, VERIF_EXACT_LIBC, VERIF_OWN_STRLEN, VERIF_OWN_STRCMP, VERIF_OWN_STRDUP, VERIF_OWN_STRCHR
src: conf.c
tier: B
bound: two calls, input <= 6 characters over {a, space, $, {, }} with every ${ closed and named, different leftovers; line-buffer limit CONFIG_BUFF scaled to 32 bytes (stated re-binding)
unwind: 8
flags: --unwindset strlen.0:12,strcpy.0:12,vb_a.0:12,spiftool_safe_strncpy.0:12,mk_str.0:6,strncasecmp.0:3,spifconf_shell_expand:0,spifconf_shell_expand.7:2,spifconf_shell_expand.10:1,spifconf_shell_expand.15:1,spifconf_shell_expand.21:6,spifconf_shell_expand.22:6,spifconf_shell_expand.23:6,spifconf_shell_expand.28:7,spifconf_shell_expand.29:7,strcmp.0:12
objbits: 10
backend: sat
timeout: 600
quick: yes
native: self
funcs: spifconf_shell_expand
*/
/*@unit
name: limit_tilde_env
define: U_LIMIT, A_TILDE, A_DOLLAR, A_SQ, VLEN=14, NMAX=4, BUFF=12, VERIF_EXACT_LIBC, VERIF_OWN_STRLEN, VERIF_OWN_STRCMP, VERIF_OWN_STRDUP, VERIF_OWN_STRCHR
src: conf.c
tier: B
bound: input <= 4 characters over {a, ~, $, '}; HOME and $a unset or any string of <= 14 characters; line-buffer limit CONFIG_BUFF scaled to 12 bytes (stated re-binding)
unwind: 8
flags: --unwindset strlen.0:16,strcpy.0:16,vb_a.0:16,spiftool_safe_strncpy.0:12,mk_str.0:6,strncasecmp.0:3,spifconf_shell_expand:0,spifconf_shell_expand.7:2,spifconf_shell_expand.10:1,spifconf_shell_expand.15:1,spifconf_shell_expand.21:4,spifconf_shell_expand.22:4,spifconf_shell_expand.23:4,spifconf_shell_expand.28:5,spifconf_shell_expand.29:5,pick_value.0:16,harness.1:14
objbits: 10
backend: sat
timeout: 600
quick: yes
funcs: spifconf_shell_expand
*/
/*@unit
name: namebuf_brace
define: U_NAMEBUF, A_DOLLAR, FORM=1, NMAX=134, BUFF=160, VERIF_EXACT_LIBC, VERIF_OWN_STRLEN, VERIF_OWN_STRCMP, VERIF_OWN_STRDUP, VERIF_OWN_STRCHR
src: conf.c
tier: B
bound: input ${ + 127 x a + <= 5 characters of {a, }, ), space}; line-buffer limit CONFIG_BUFF scaled to 160 bytes (stated re-binding)
unwind: 8
flags: --unwindset strlen.0:140,strcpy.0:140,vb_a.0:142,spiftool_safe_strncpy.0:12,mk_str.0:6,strncasecmp.0:3,spifconf_shell_expand:0,spifconf_shell_expand.7:2,spifconf_shell_expand.10:1,spifconf_shell_expand.15:1,spifconf_shell_expand.21:130,spifconf_shell_expand.22:130,spifconf_shell_expand.23:130,spifconf_shell_expand.28:8,spifconf_shell_expand.29:8,harness.0:128,harness.1:6
objbits: 10
backend: sat
timeout: 600
quick: yes
funcs: spifconf_shell_expand
*/
/*@unit
name: namebuf_paren
define: U_NAMEBUF, A_DOLLAR, FORM=2, NMAX=134, BUFF=160, VERIF_EXACT_LIBC, VERIF_OWN_STRLEN, VERIF_OWN_STRCMP, VERIF_OWN_STRDUP, VERIF_OWN_STRCHR
src: conf.c
tier: B
bound: input $( + 127 x a + <= 5 characters of {a, }, ), space}; line-buffer limit CONFIG_BUFF scaled to 160 bytes (stated re-binding)
unwind: 8
flags: --unwindset strlen.0:140,strcpy.0:140,vb_a.0:142,spiftool_safe_strncpy.0:12,mk_str.0:6,strncasecmp.0:3,spifconf_shell_expand:0,spifconf_shell_expand.7:2,spifconf_shell_expand.10:1,spifconf_shell_expand.15:1,spifconf_shell_expand.21:130,spifconf_shell_expand.22:130,spifconf_shell_expand.23:130,spifconf_shell_expand.28:8,spifconf_shell_expand.29:8,harness.0:128,harness.1:6
objbits: 10
backend: sat
timeout: 600
quick: yes
funcs: spifconf_shell_expand
*/
/*@unit
name: namebuf_plain
define: U_NAMEBUF, A_DOLLAR, FORM=3, NMAX=134, BUFF=160, VERIF_EXACT_LIBC, VERIF_OWN_STRLEN, VERIF_OWN_STRCMP, VERIF_OWN_STRDUP, VERIF_OWN_STRCHR
src: conf.c
tier: B
bound: input $ + 127 x a + <= 5 characters of {a, }, ), space}; line-buffer limit CONFIG_BUFF scaled to 160 bytes (stated re-binding)
unwind: 8
flags: --unwindset strlen.0:140,strcpy.0:140,vb_a.0:142,spiftool_safe_strncpy.0:12,mk_str.0:6,strncasecmp.0:3,spifconf_shell_expand:0,spifconf_shell_expand.7:2,spifconf_shell_expand.10:1,spifconf_shell_expand.15:1,spifconf_shell_expand.21:130,spifconf_shell_expand.22:130,spifconf_shell_expand.23:130,spifconf_shell_expand.28:8,spifconf_shell_expand.29:8,harness.0:128,harness.1:6
objbits: 10
backend: sat
timeout: 600
quick: yes
funcs: spifconf_shell_expand
*/
#include "vprelude.h"
/* tier B runs the loops unwound: the identity re-basing of walking pointers (needed only under loop
 * contracts) is switched off -- cbmc 6.11 crashes on the unrolled chain p = base + POINTER_OFFSET(p) */
#undef VERIF_ANCHOR
#define VERIF_ANCHOR(p, base) ((void) 0)
#include "expand.h"
#include "env_expand.h"
/* STATED RE-BINDING (tier B only): the line-buffer limit CONFIG_BUFF (20480 in libast.h) is scaled down to
 * BUFF bytes for the code under test.  conf.c uses the limit only through this macro (newbuff[CONFIG_BUFF],
 * max = CONFIG_BUFF - 1, MALLOC(CONFIG_BUFF)), so the scaled build is the same program with a smaller line
 * buffer: inputs of a few characters then reach the limit and exercise the truncation arithmetic, and cbmc
 * can treat the buffers cell by cell (its array theory needs > 6 GB for inputs of 2 characters at 20480). */
#if defined(BUFF) && !defined(VERIF_NATIVE)    /* a native replay runs the real limit (and the real libc) */
# undef CONFIG_BUFF
# define CONFIG_BUFF BUFF
#endif
#include "rawsrc/conf.c"                       /* the untouched copy: tier B applies no loop contracts */

#ifdef U_SPAWN
/* C11 (units/C11/expand_spawn.c): process creation only counts */
unsigned long vg_spawned;
#endif
#ifndef VERIF_NATIVE

/* spiftool_safe_strncpy (strings.c): EXECUTABLE MODEL of the contract proved in C13.safe_strncpy ("writes at
 * most size bytes, leaves dest NUL-terminated, stores the longest prefix of src that fits, TRUE iff nothing
 * was cut").  The real strings.c cannot be unwound here: its annotation table re-bases the walking pointers
 * (p = base + POINTER_OFFSET(p) - POINTER_OFFSET(base)) and cbmc 6.11 crashes on the unrolled chain. */
spif_bool_t spiftool_safe_strncpy(spif_charptr_t dest, const spif_charptr_t src, spif_int32_t size)
{
    spif_int32_t i;
    __CPROVER_assert(dest != NULL && src != NULL && size > 0, "safe_strncpy requires: dest, src not NULL and size > 0");
    for (i = 0; i < size - 1 && src[i]; i++) {
        __CPROVER_assert((size_t) i < VREMAIN(dest), "safe_strncpy: destination has size bytes");
        dest[i] = src[i];
    }
    __CPROVER_assert((size_t) i < VREMAIN(dest), "safe_strncpy: destination has size bytes");
    dest[i] = 0;
    return src[i] ? FALSE : TRUE;
}

/* back-quote execution: the temporary file cannot be created, builtin_exec gives up and returns NULL (one
 * of the outcomes the environment allows; the alphabets of these units hold no back-quote, this only keeps
 * cbmc from unrolling the command-building code on a path that cannot be taken) */
#ifndef U_SPAWN
int spiftool_temp_file(spif_charptr_t ftemplate, size_t len) { return -1; }
#else
/* spawn-freedom unit: the temporary file CAN be created, so builtin_exec goes all the way to system();
 * every way of creating a process only bumps vg_spawned; the output file then cannot be re-opened */
int spiftool_temp_file(spif_charptr_t ftemplate, size_t len) { return nondet_bool() ? -1 : 5; }
int fchmod(int fd, mode_t mode) { return 0; }
int system(const char *cmd) { vg_spawned++; return 0; }
FILE *popen(const char *cmd, const char *mode) { vg_spawned++; return (FILE *) 0; }
pid_t fork(void) { vg_spawned++; return -1; }
int execv(const char *path, char *const argv[]) { vg_spawned++; return -1; }
int execvp(const char *file, char *const argv[]) { vg_spawned++; return -1; }
int execve(const char *path, char *const argv[], char *const envp[]) { vg_spawned++; return -1; }
FILE *fdopen(int fd, const char *mode) { return (FILE *) 0; }
char *strerror(int e) { return (char *) "error"; }
#endif
/* cbmc turns the dispatch (builtins[k].ptr)(Command) into a switch over every function of that signature
 * whose address is taken anywhere in conf.c, i.e. also the seven real built-ins, although the table of these
 * units holds vb_a only.  Their library callees get trivial bodies so that those (infeasible) branches stay
 * small: no words, no directory, no formatted output. */
unsigned long spiftool_num_words(const spif_charptr_t str) { return 0; }
spif_charptr_t spiftool_get_word(unsigned long index, const spif_charptr_t str) { return (spif_charptr_t) NULL; }
DIR *opendir(const char *name) { return (DIR *) 0; }
int snprintf(char *str, size_t size, const char *format, ...) { if (size) str[0] = 0; return 0; }
#endif /* !VERIF_NATIVE */

/* ---- the registered built-in "a": NULL for NULL or empty arguments, "" when the arguments start with a
 * blank, otherwise the arguments in square brackets ---------------------------------------------------- */
static spif_charptr_t vb_a(spif_charptr_t param)
{
    size_t n, i;
    char *r;
    if (param == NULL || param[0] == 0) return NULL;
#ifdef VB_NOGROW
    r = malloc(1); r[0] = 0; return r;            /* reads_* units: the result never makes the text longer */
#endif
    if (param[0] == ' ') { r = malloc(1); r[0] = 0; return r; }
    n = strlen(param);
    r = malloc(n + 3);
    r[0] = '[';
    for (i = 0; i < n; i++) r[i + 1] = param[i];
    r[n + 1] = ']'; r[n + 2] = 0;
    return r;
}

/* ---- reference expansion, from the property statement ------------------------------------------------ */
#define R_OUTMAX 40
#define RF_TRAIL_BS   1u    /* input (or an argument text) ends in a backslash                 */
#define RF_UNTERM     2u    /* ${ or $( without its closer                                     */
#define RF_EMPTYNAME  4u    /* ${} or $()                                                       */
#define RF_MISMATCH   8u    /* %a( without the matching )                                       */
#define RF_CALLSPACE 16u    /* "%a )" -- not a call according to the statement, one for conf.c  */
#define RF_LONEPCT   32u    /* a % that does not start a call (ordinary text, kept)             */
#define RF_LONEDOLLAR 64u   /* a $ that names nothing (ordinary text, kept)                     */
#define RF_OVERFLOW 128u    /* reference buffer too small (never for the bounds used)           */
static unsigned ref_flags;

static char ref_escape(char d)
{
    switch (tolower(d)) {
      case 'n': return '\n'; case 'r': return '\r'; case 't': return '\t'; case 'b': return '\b';
      case 'f': return '\f'; case 'a': return '\a'; case 'v': return '\v'; case 'e': return '\033';
      default:  return d;
    }
}
static int ref_namechar(char c) { return isalnum((unsigned char) c) || c == '_'; }
static const char *ref_env(const char *nm, size_t n)      /* the environment: one variable, "a" */
{
    return (n == 1 && nm[0] == 'a') ? vb_env_a : (const char *) 0;
}
#define R_PUT(ch) do { if (o + 1 >= R_OUTMAX) { ref_flags |= RF_OVERFLOW; return o; } out[o++] = (ch); } while (0)
#define R_PUTS(str) do { const char *vq_s = (str); size_t vq_i; if (vq_s) for (vq_i = 0; vq_s[vq_i]; vq_i++) R_PUT(vq_s[vq_i]); } while (0)

/* expands in[0..len) into out (NUL-terminated); returns the length */
static size_t ref_expand(const char *in, size_t len, char *out, int depth)
{
    size_t i = 0, o = 0;
    int sq = 0, dq = 0;
    while (i < len) {
        char c = in[i];
#ifdef A_BS
        if (c == '\\') {
            if (i + 1 >= len) { ref_flags |= RF_TRAIL_BS; R_PUT('\\'); i++; }        /* ordinary text */
            else if (!sq) { R_PUT(ref_escape(in[i + 1])); i += 2; }                  /* escape -> control character */
            else if (in[i + 1] == '\'') { R_PUT('\''); i += 2; }                      /* \' inside single quotes */
            else { R_PUT('\\'); R_PUT(in[i + 1]); i += 2; }                           /* left alone */
        } else
#endif
        if (c == '~') {
            if (!sq && !dq && vb_home && vb_home[0]) R_PUTS(vb_home); else R_PUT('~');
            i++;
        }
#ifdef A_DOLLAR
        else if (c == '$' && !sq) {
            size_t a, e;
            char close = (i + 1 < len && in[i + 1] == '{') ? '}' : (i + 1 < len && in[i + 1] == '(') ? ')' : 0;
            if (close) {
                a = i + 2;
                for (e = a; e < len && in[e] != close; e++) ;
                if (e >= len) { ref_flags |= RF_UNTERM; out[o] = 0; return o; }
                if (e == a) ref_flags |= RF_EMPTYNAME;
                R_PUTS(ref_env(in + a, e - a));                                       /* value, or nothing */
                i = e + 1;
            } else {
                a = i + 1;
                for (e = a; e < len && ref_namechar(in[e]); e++) ;
                if (e == a) { ref_flags |= RF_LONEDOLLAR; R_PUT('$'); i++; }          /* names nothing: text */
                else { R_PUTS(ref_env(in + a, e - a)); i = e; }
            }
        }
#endif
#if defined(A_PCT) || defined(A_PCT_FIXED)
        else if (c == '%') {
            if (i + 2 < len && tolower(in[i + 1]) == 'a' && in[i + 2] == '(') {       /* %a( ... ) */
                size_t a = i + 3, e, nest = 1;
                char arg[R_OUTMAX];
                size_t alen;
                spif_charptr_t res;
                for (e = a; e < len; e++) {
                    if (in[e] == '(') nest++;
                    else if (in[e] == ')' && --nest == 0) break;
                }
                if (e >= len) { ref_flags |= RF_MISMATCH; out[o] = 0; return o; }
                if (depth <= 0) { ref_flags |= RF_OVERFLOW; out[o] = 0; return o; }
                alen = ref_expand(in + a, e - a, arg, depth - 1);                     /* innermost first */
                (void) alen;
                res = vb_a(arg);
                R_PUTS(res);
                if (res) free(res);
                i = e + 1;
            } else {
                if (i + 3 < len && tolower(in[i + 1]) == 'a' && in[i + 2] == ' ' && in[i + 3] == ')') ref_flags |= RF_CALLSPACE;
                ref_flags |= RF_LONEPCT;
                R_PUT('%'); i++;
            }
        }
#endif
        else {
            if (c == '"' && !sq) dq = !dq;
            if (c == '\'') sq = !sq;
            R_PUT(c); i++;
        }
    }
    out[o] = 0;
    return o;
}

/* ---- harness plumbing -------------------------------------------------------------------------------- */
/* ---- inputs.  Every nondeterministic input is taken IN THE HARNESS through VND(kind, name), so that a
 * native replay (unit field native: self) re-runs the real code on the verifier's witness. -------------- */
static int in_alphabet(char c)
{
    if (c == 'a') return 1;
#ifdef A_SPACE
    if (c == ' ') return 1;
#endif
#ifdef A_TILDE
    if (c == '~') return 1;
#endif
#ifdef A_BS
    if (c == '\\') return 1;
#endif
#ifdef A_DOLLAR
    if (c == '$') return 1;
#endif
#ifdef A_BRACE
    if (c == '{' || c == '}') return 1;
#endif
#ifdef A_PAREN
    if (c == '(' || c == ')') return 1;
#endif
#ifdef A_PCT
    if (c == '%') return 1;
#endif
#ifdef A_SQ
    if (c == '\'') return 1;
#endif
#ifdef A_DQ
    if (c == '"') return 1;
#endif
#ifdef A_BQ
    if (c == '`') return 1;
#endif
#ifdef A_EXEC
    if (c == 'e' || c == 'x' || c == 'c') return 1;
#endif
    return 0;
}
static char w_in[NMAX + 1];
static size_t w_len;
#ifdef SHAPE
static const char w_shape[] = SHAPE;      /* structural characters fixed, each ? any character of the alphabet */
# define PICK1(i) { if ((i) < NMAX) { if (w_shape[i] == '?') { int vq_i = (int) VND(int, c##i); char vq_c; __CPROVER_assume(vq_i >= 0 && vq_i < 128); vq_c = (char) vq_i; \
        __CPROVER_assume(in_alphabet(vq_c)); w_in[i] = vq_c; } else w_in[i] = w_shape[i]; } }
# define PICK_LEN() (w_len = sizeof(w_shape) - 1)
#else
# define PICK1(i) { if ((i) < NMAX) { int vq_i = (int) VND(int, c##i); char vq_c; /* int: the witness then is a plain number */ \
        __CPROVER_assume(vq_i >= 0 && vq_i < 128); vq_c = (char) vq_i; \
        __CPROVER_assume((size_t) (i) < w_len ? in_alphabet(vq_c) : vq_c == 0); w_in[i] = vq_c; } }
# define PICK_LEN() { w_len = (size_t) VND(size_t, len); __CPROVER_assume(w_len <= NMAX); }
#endif
/* (plain blocks, not do-while(0): cbmc numbers every do-while as a loop and the unwind limits go by number) */
/* w_in: arbitrary text of <= NMAX (<= 14) characters over the unit's alphabet */
#define PICK_INPUT() { PICK_LEN(); PICK1(0); PICK1(1); PICK1(2); PICK1(3); PICK1(4); PICK1(5); PICK1(6); PICK1(7); \
        PICK1(8); PICK1(9); PICK1(10); PICK1(11); PICK1(12); PICK1(13); w_in[NMAX] = 0; }
static char *mk_str(const char *lit)
{
    size_t n = strlen(lit), i;
    char *r = malloc(n + 1);
    for (i = 0; i <= n; i++) r[i] = lit[i];
    return r;
}
/* HOME and $a: 0 unset, 1 empty, 2 set ("/h", "V") */
static void set_environment(int home_kind, int env_kind)
{
    vb_home = home_kind == 0 ? (char *) 0 : (home_kind == 1 ? mk_str("") : mk_str("/h"));
    vb_env_a = env_kind == 0 ? (char *) 0 : (env_kind == 1 ? mk_str("") : mk_str("V"));
#ifdef VERIF_NATIVE
    if (vb_home) setenv("HOME", vb_home, 1); else unsetenv("HOME");
    if (vb_env_a) setenv("a", vb_env_a, 1); else unsetenv("a");
#endif
}
#ifdef ENV_SET
# define ENV_OK(k) ((k) == 2)
#elif defined(ENV_UNSET)
# define ENV_OK(k) ((k) == 0 || (k) == 1)
#else
# define ENV_OK(k) ((k) >= 0 && (k) <= 2)
#endif
#define PICK_ENVIRONMENT() { int vq_h = (int) VND(int, home_kind), vq_e = (int) VND(int, env_kind); \
        __CPROVER_assume(vq_h >= 0 && vq_h <= 2 && ENV_OK(vq_e)); set_environment(vq_h, vq_e); }
static void setup_builtins(void)                      /* table: "a" -> vb_a, then the NULL name */
{
    static spifconf_func_t tab[3];                    /* every slot holds a known pointer: cbmc then resolves the */
    builtins = tab;                                   /* dispatch (builtins[k].ptr)(...) to the table's functions  */
#ifdef U_SPAWN
    builtin_cnt = 3; builtin_idx = 2;                 /* exec (the real builtin_exec) + the abstract built-in a    */
    builtins[0].name = (spif_charptr_t) "exec"; builtins[0].ptr = builtin_exec;
    builtins[1].name = (spif_charptr_t) "a"; builtins[1].ptr = vb_a;
    builtins[2].name = NULL; builtins[2].ptr = vb_a;
#else
    builtin_cnt = 2; builtin_idx = 1;
    builtins[0].name = (spif_charptr_t) "a"; builtins[0].ptr = vb_a;
    builtins[1].name = NULL; builtins[1].ptr = vb_a;
    builtins[2].name = NULL; builtins[2].ptr = vb_a;
#endif
    fstate_cnt = 2; fstate_idx = 0;
    fstate = malloc(sizeof(fstate_t) * 2);
    fstate[0].path = (spif_charptr_t) mk_str("f"); fstate[0].line = 1; fstate[0].fp = NULL; fstate[0].outfile = NULL; fstate[0].flags = 0;
    libast_debug_level = 0;
}

#if defined(U_EXACT) || defined(U_CASES)
#ifndef D_FLAGS
# define D_FLAGS 0u
#endif
static void check_exact(void)                       /* w_in / w_len: the input */
{
    char ref[R_OUTMAX];
    size_t rl, i;
    spif_charptr_t buf, r;
    ref_flags = 0;
    rl = ref_expand(w_in, w_len, ref, 3);
    /* the unit's behaviour: exactly the inputs whose reference flags are D_FLAGS-compatible */
    __CPROVER_assume((ref_flags & ~(D_FLAGS)) == 0);
#ifdef D_NEED
    __CPROVER_assume((ref_flags & (D_NEED)) != 0);
#endif
    /* the caller's line buffer: text, terminator, leftovers */
    buf = malloc(CONFIG_BUFF);
    for (i = 0; i <= w_len; i++) buf[i] = w_in[i];
    r = spifconf_shell_expand(buf);
    __CPROVER_assert(r == buf, "expansion succeeds and returns its argument");
    __CPROVER_assert(strlen((char *) buf) == rl, "length of the result equals the reference expansion");
    for (i = 0; i < R_OUTMAX; i++)
        if (i <= rl) __CPROVER_assert(buf[i] == ref[i], "result equals the reference expansion (text before and after each construct preserved)");
}
#endif
#ifdef U_EXACT
void harness(void)
{
    PICK_INPUT();
    PICK_ENVIRONMENT();
    setup_builtins();
    check_exact();
    VERIF_CANARY();
}
#endif
#ifdef U_CASES
/* concrete inputs (cbmc executes them; HOME and $a still range over unset / empty / set) */
static const char *const cases[] = {
#if CASESET == 1
    "%a(a)", "%a(a a)", "%a( a)", "%a()", "a%a(a)a", "%a(%a(a))", "%a(a%a( ))a", "%a(%a(%a(a)))", "%a(a)%a(a)", "%A(a)",
    "'%a(a)'", "\"%a(~)\"", "%a(~)", "%a(\\a)", "%a('~')", "%a((a))", "%a(a) )", "~%a(~)~",
#elif CASESET == 2
    "a%a", "a% a", "%%a(a)", "%(a)", "50%a a", "% %a(a)",
#elif CASESET == 3
    "%", "a%", "%a(a)%",
#endif
};
#define NCASES (sizeof(cases) / sizeof(cases[0]))
void harness(void)
{
    size_t t, i;
    PICK_ENVIRONMENT();
    setup_builtins();
    for (t = 0; t < NCASES; t++) {
        for (i = 0; i < NMAX && cases[t][i]; i++) w_in[i] = cases[t][i];
        w_len = i;
        for (; i <= NMAX; i++) w_in[i] = 0;
        check_exact();
    }
    VERIF_CANARY();
}
#endif

#ifdef U_READS
/* nothing can grow (HOME and $a unset or empty, the built-in returns NULL or ""), so a block of exactly
 * strlen+1 bytes is a legitimate argument: every read behind the terminator, every write outside a buffer
 * is a failed pointer check of cbmc. */
void harness(void)
{
    size_t i;
    spif_charptr_t buf, r;
    PICK_INPUT();
    {   int vq_h = (int) VND(int, home_kind), vq_e = (int) VND(int, env_kind);      /* unset or empty */
        __CPROVER_assume(vq_h >= 0 && vq_h <= 1 && vq_e >= 0 && vq_e <= 1);
        set_environment(vq_h, vq_e);
    }
    setup_builtins();
#ifdef D_FLAGS
    {   /* the unit's behaviour, selected through the flags the reference expansion raises for the input */
        char ref[R_OUTMAX];
        ref_flags = 0;
        (void) ref_expand(w_in, w_len, ref, 2);
        __CPROVER_assume((ref_flags & ~(D_FLAGS)) == 0);
# ifdef D_NEED
        __CPROVER_assume((ref_flags & (D_NEED)) != 0);
# endif
    }
#endif
    buf = malloc(w_len + 1);
    for (i = 0; i <= w_len; i++) buf[i] = w_in[i];
    r = spifconf_shell_expand(buf);
    __CPROVER_assert(r == buf || r == NULL, "returns its argument or NULL");
    VERIF_CANARY();
}
#endif

#ifdef U_DET
/* determinism lemma: equal text, equal environment, equal (empty) variable store; the bytes behind the
 * terminator of the two line buffers differ arbitrarily, and so do the initial contents of the stack buffer
 * newbuff of the two calls (cbmc gives every uninitialised local fresh arbitrary contents). */
void harness(void)
{
    char ref[R_OUTMAX];
    size_t i;
    spif_charptr_t b1, b2, r1, r2;
    PICK_INPUT();
    PICK_ENVIRONMENT();
    setup_builtins();
    ref_flags = 0;
    (void) ref_expand(w_in, w_len, ref, 2);
#ifndef D_FLAGS
# define D_FLAGS 0u
#endif
    __CPROVER_assume((ref_flags & ~(D_FLAGS)) == 0);         /* the unit's behaviour (defined inputs) */
    b1 = malloc(CONFIG_BUFF); b2 = malloc(CONFIG_BUFF);      /* arbitrary, independent contents */
    for (i = 0; i <= w_len; i++) { b1[i] = w_in[i]; b2[i] = w_in[i]; }
    r1 = spifconf_shell_expand(b1);
    r2 = spifconf_shell_expand(b2);
    __CPROVER_assert((r1 == NULL) == (r2 == NULL), "both calls succeed or both fail");
    __CPROVER_assert(strcmp((char *) b1, (char *) b2) == 0, "two calls on the same text give the same result (no dependence on leftover stack or heap bytes)");
    VERIF_CANARY();
}
#endif

#ifdef U_LIMIT
/* the buffer limit: values of arbitrary length <= VLEN make the output index reach the (scaled) limit after
 * a few characters.  Obligations: every access inside its buffer (cbmc checks), the result is NUL-terminated
 * and not longer than CONFIG_BUFF-1, or NULL is returned and the argument is still a C string. */
static char *pick_value(void)
{
    size_t n = nondet_size_t(), i;
    char *v;
    if (nondet_bool()) return (char *) 0;
    __CPROVER_assume(n <= VLEN);
    v = malloc(VLEN + 1);
    for (i = 0; i < VLEN; i++) { char c = nondet_char(); __CPROVER_assume(i < n ? c != 0 : c == 0); v[i] = c; }
    v[VLEN] = 0;
    return v;
}
void harness(void)
{
    size_t i, n;
    spif_charptr_t buf, r;
    PICK_INPUT();
    vb_home = pick_value();
    vb_env_a = pick_value();
    setup_builtins();
    buf = malloc(CONFIG_BUFF);
    for (i = 0; i <= w_len; i++) buf[i] = w_in[i];
    r = spifconf_shell_expand(buf);
    __CPROVER_assert(r == buf || r == NULL, "returns its argument or NULL");
    for (n = 0; n < CONFIG_BUFF && buf[n]; n++) ;
    __CPROVER_assert(n <= CONFIG_BUFF - 1, "result NUL-terminated and not longer than the line-buffer limit");
    VERIF_CANARY();
}
#endif

#ifdef U_NAMEBUF
/* the 128-byte name buffer: a reference whose name has 127 + up to 5 more characters */
void harness(void)
{
    size_t i, pos = 0;
    spif_charptr_t buf, r;
    buf = malloc(CONFIG_BUFF);
    buf[pos++] = '$';
#if FORM == 1
    buf[pos++] = '{';
#elif FORM == 2
    buf[pos++] = '(';
#endif
    for (i = 0; i < 127; i++) buf[pos++] = 'a';
    for (i = 0; i < 5; i++) {                              /* tail: more name characters, the closer, or the end */
        char c = nondet_char();
        __CPROVER_assume(c == 'a' || c == '}' || c == ')' || c == ' ' || c == 0);
        buf[pos++] = c;
    }
    buf[pos] = 0;
    vb_home = (char *) 0;
    vb_env_a = nondet_bool() ? (char *) 0 : mk_str("V");
    setup_builtins();
    r = spifconf_shell_expand(buf);
    __CPROVER_assert(r == buf || r == NULL, "returns its argument or NULL");
    VERIF_CANARY();
}
#endif

#ifdef U_SPAWN
/* C11 spawn freedom (units/C11/expand_spawn.c): text that contains neither a back-quote nor an %exec
 * directive never causes a process to be spawned.  The built-in table holds exec (the real builtin_exec,
 * whose temporary file can be created) and the abstract built-in a. */
static int has_exec_directive(const char *t, size_t n)       /* "%exec", any case */
{
    size_t i;
    for (i = 0; i + 4 < n; i++)
        if (t[i] == '%' && tolower(t[i + 1]) == 'e' && tolower(t[i + 2]) == 'x' && tolower(t[i + 3]) == 'e' && tolower(t[i + 4]) == 'c') return 1;
    return 0;
}
static void check_spawn(void)                       /* w_in / w_len: the input */
{
    size_t i;
    int bq = 0;
    spif_charptr_t buf;
    for (i = 0; i < w_len; i++) if (w_in[i] == '`') bq = 1;
    buf = malloc(CONFIG_BUFF);
    for (i = 0; i <= w_len; i++) buf[i] = w_in[i];
#ifdef SPAWN_CASES
    for (; i < CONFIG_BUFF; i++) buf[i] = 0;            /* concrete texts: concrete (empty) leftovers, cbmc just executes */
#endif
    vg_spawned = 0;
    (void) spifconf_shell_expand(buf);
    __CPROVER_assert(bq || has_exec_directive(w_in, w_len) || vg_spawned == 0,
                     "no back-quote and no %exec directive in the text: no process is spawned");
    __CPROVER_assert(vg_spawned <= 1 || bq || has_exec_directive(w_in, w_len), "spawn count");
}
#ifndef SPAWN_CASES
void harness(void)
{
    PICK_INPUT();
    PICK_ENVIRONMENT();
    setup_builtins();
    check_spawn();
    VERIF_CANARY();
}
#else
static const char *const spawn_cases[] = { SPAWN_CASES };
void harness(void)
{
    size_t t, i;
    PICK_ENVIRONMENT();
    setup_builtins();
    for (t = 0; t < sizeof(spawn_cases) / sizeof(spawn_cases[0]); t++) {
        for (i = 0; i < NMAX && spawn_cases[t][i]; i++) w_in[i] = spawn_cases[t][i];
        w_len = i;
        for (; i <= NMAX; i++) w_in[i] = 0;
        check_spawn();
    }
    VERIF_CANARY();
}
#endif
#endif
