"""regenerates the /*@unit*/ headers of units/C10/expand_b.c (unwind limits per loop, bounds, alphabets).  Run: python3 units/C10/gen_units.py"""
p = '/verif/units/C10/expand_b.c'
s = open(p).read()
common = "VERIF_EXACT_LIBC, VERIF_OWN_STRLEN, VERIF_OWN_STRCMP, VERIF_OWN_STRDUP, VERIF_OWN_STRCHR"
units = []
L2, L3, L4, L5, L6, L7, LM = 7, 10, 15, 21, 22, 23, 28     # cbmc loop numbers inside spifconf_shell_expand


def U(name, defs, bound, res, nmax=None, shape=None, recursion=0, quick='yes', timeout=600, buff=32, mem=None, over=None, unwind=None):
    n = len(shape) if shape else nmax
    has_pct = 'A_PCT' in defs or (shape and '%' in shape)
    has_dol = 'A_DOLLAR' in defs
    us = {"strlen.0": res + 2, "strcpy.0": res + 2, "vb_a.0": res + 2, "spiftool_safe_strncpy.0": 12, "mk_str.0": 6,
          "strncasecmp.0": 3, "spifconf_shell_expand": recursion,
          "spifconf_shell_expand.%d" % L2: 2,
          "spifconf_shell_expand.%d" % L3: n if has_pct else 1,
          "spifconf_shell_expand.%d" % L4: 1,
          "spifconf_shell_expand.%d" % L5: n if has_dol else 1,
          "spifconf_shell_expand.%d" % L6: n if has_dol else 1,
          "spifconf_shell_expand.%d" % L7: n if has_dol else 1,
          "spifconf_shell_expand.%d" % LM: n + 1,
          "spifconf_shell_expand.%d" % (LM + 1): n + 1}     # the main loop's number once FREE(EnvVar) (a do-while macro) is added by the proposed fix
    if 'U_EXACT' in defs:
        us["check_exact.0"] = n + 2
        us["check_exact.1"] = 42
    if over:
        us.update(over)
    d = defs + (', SHAPE="%s"' % shape if shape else '') + ", NMAX=%d, BUFF=%d, " % (n, buff) + common
    units.append('''/*@unit
name: %s
define: %s
src: conf.c
tier: B
bound: %s; line-buffer limit CONFIG_BUFF scaled to %d bytes (stated re-binding)
unwind: %d
flags: --unwindset %s
objbits: 10
backend: sat
timeout: %d
quick: %s
%s%sfuncs: spifconf_shell_expand
*/
''' % (name, d, bound, buff, unwind if unwind else n + 2, ','.join("%s:%d" % kv for kv in us.items()), timeout, quick,
       ('mem: %d\n' % mem) if mem else '', '' if ('U_LIMIT' in defs or 'U_NAMEBUF' in defs) else 'native: self\n'))


Q = "A_SQ, A_DQ"
U('exact_quote_tilde', 'U_EXACT, A_SPACE, A_TILDE, ' + Q, "input <= 8 characters over {a, space, ~, ', \"}; HOME unset, empty or \"/h\"", 18, nmax=8)
U('exact_escape', 'U_EXACT, A_SPACE, A_BS, ' + Q, "input <= 8 characters over {a, space, backslash, ', \"} that does not end in a backslash", 10, nmax=8)
U('exact_escape_trailing', 'U_EXACT, A_SPACE, A_BS, ' + Q + ', D_FLAGS=RF_TRAIL_BS, D_NEED=RF_TRAIL_BS',
  "input <= 8 characters over {a, space, backslash, ', \"} that ends in a backslash", 10, nmax=8)
U('exact_env_set', 'U_EXACT, A_SPACE, A_DOLLAR, ENV_SET, ' + Q, "input <= 8 characters over {a, space, $, ', \"}, every $ followed by a name; $a set to \"V\"", 12, nmax=8)
U('exact_env_unset', 'U_EXACT, A_SPACE, A_DOLLAR, ENV_UNSET, ' + Q, "input <= 8 characters over {a, space, $, ', \"}, every $ followed by a name; $a unset or empty", 10, nmax=8)
U('exact_env_delim', 'U_EXACT, A_DOLLAR, A_BRACE, A_PAREN', "input <= 8 characters over {a, $, {, }, (, )}, every ${ and $( closed and named; $a unset, empty or \"V\"", 12, nmax=8)
U('exact_env_lone_dollar', 'U_EXACT, A_SPACE, A_DOLLAR, D_FLAGS=RF_LONEDOLLAR, D_NEED=RF_LONEDOLLAR', "input <= 6 characters over {a, space, $} with a $ that names nothing", 10, nmax=6)
A = "U_EXACT, A_SPACE, A_PCT, A_PAREN"
ALPH = "each ? any of {a, space, %, (, )}"
U('exact_call_empty', A, "inputs of the shape ?%a()? -- " + ALPH + " -- in which every % starts a balanced call", 14, shape='?%a()?', recursion=1)
U('exact_call_prefix', A, "inputs of the shape ?%a(a) -- " + ALPH + " -- in which every % starts a balanced call", 14, shape='?%a(a)', recursion=1)
U('exact_call_prefix2', A, "inputs of the shape ??%a(a) -- " + ALPH + " -- in which every % starts a balanced call", 14, shape='??%a(a)', recursion=1, quick='no')
U('exact_call_suffix', A, "inputs of the shape %a(a)?? -- " + ALPH + " -- in which every % starts a balanced call", 14, shape='%a(a)??', recursion=1)
CS = {'harness.0': 20, 'harness.1': 16, 'harness.2': 20, 'check_exact.0': 16, 'check_exact.1': 42}
U('exact_call_cases', 'U_CASES, CASESET=1, A_SPACE, A_TILDE, A_BS, A_SQ, A_DQ, A_PCT, A_PAREN',
  "18 concrete inputs with calls of the built-in a: arguments with blanks, empty, nested two and three deep (innermost first), in sequence, inside quotes, with tilde / escape / quotes / parentheses inside the arguments; HOME and $a unset, empty or set",
  24, nmax=14, recursion=3, over=CS, unwind=16)
U('exact_call_lone_pct', 'U_CASES, CASESET=2, A_SPACE, A_PCT, A_PAREN, D_FLAGS=RF_LONEPCT',
  "6 concrete inputs with a % that starts no call, not at the end of the input", 24, nmax=14, recursion=3, over=CS, unwind=16)
R = "U_READS, VB_NOGROW"
U('reads_ok', R + ', A_SPACE, A_TILDE, A_BS, A_BRACE, A_PAREN, ' + Q + ', D_FLAGS=0u', "input <= 6 characters over {a, space, ~, backslash, {, }, (, ), ', \"} not ending in a backslash, in a block of exactly strlen+1 bytes", 8, nmax=6)
U('reads_backslash', R + ', A_BS, A_SQ, D_FLAGS=RF_TRAIL_BS, D_NEED=RF_TRAIL_BS', "input <= 6 characters over {a, backslash, '} ending in a backslash, in a block of exactly strlen+1 bytes", 8, nmax=6)
U('reads_dollar_ok', R + ', A_DOLLAR, A_BRACE, A_PAREN, D_FLAGS=(RF_LONEDOLLAR|RF_EMPTYNAME)', "input <= 4 characters over {a, $, {, }, (, )} with every ${ and $( closed, in a block of exactly strlen+1 bytes; $a unset or empty", 8, nmax=4, mem=12)
U('reads_dollar_unterminated', R + ', A_DOLLAR, A_BRACE, A_PAREN, D_FLAGS=(RF_UNTERM|RF_LONEDOLLAR|RF_EMPTYNAME), D_NEED=RF_UNTERM', "input <= 4 characters over {a, $, {, }, (, )} with an unclosed ${ or $(, in a block of exactly strlen+1 bytes", 8, nmax=4, mem=12)
U('reads_percent_ok', R + ', A_SPACE, A_PCT, A_PAREN, D_FLAGS=0u', "input <= 4 characters over {a, space, %, (, )}, every % a balanced call, in a block of exactly strlen+1 bytes; the built-in returns NULL or \"\"", 8, nmax=4, recursion=1, quick='no', timeout=900, mem=12)
U('reads_percent_ok_5', R + ', A_SPACE, A_PCT, A_PAREN, D_FLAGS=0u', "input <= 5 characters over {a, space, %, (, )}, every % a balanced call, in a block of exactly strlen+1 bytes; the built-in returns NULL or \"\"", 8, nmax=5, recursion=1, quick='no', timeout=900, mem=12)
U('reads_percent_lone', R + ', A_SPACE, A_PCT, A_PAREN, D_FLAGS=RF_LONEPCT, D_NEED=RF_LONEPCT', "input <= 3 characters over {a, space, %, (, )} with a % that starts no call, in a block of exactly strlen+1 bytes", 8, nmax=3, recursion=1, timeout=900, mem=12)
U('reads_percent_lone_5', R + ', A_SPACE, A_PCT, A_PAREN, D_FLAGS=RF_LONEPCT, D_NEED=RF_LONEPCT', "input <= 5 characters over {a, space, %, (, )} with a % that starts no call, in a block of exactly strlen+1 bytes", 8, nmax=5, recursion=1, quick='no', timeout=900, mem=12)
U('reads_percent_open', R + ', A_SPACE, A_PCT, A_PAREN, D_FLAGS=RF_MISMATCH, D_NEED=RF_MISMATCH', "input <= 3 characters over {a, space, %, (, )} with an unclosed %a(, in a block of exactly strlen+1 bytes", 8, nmax=3, recursion=1, timeout=900, mem=12)
U('reads_percent_open_5', R + ', A_SPACE, A_PCT, A_PAREN, D_FLAGS=RF_MISMATCH, D_NEED=RF_MISMATCH', "input <= 5 characters over {a, space, %, (, )} with an unclosed %a(, in a block of exactly strlen+1 bytes", 8, nmax=5, recursion=1, quick='no', timeout=900, mem=12)
U('reads_backquote', R + ', A_BQ', "input <= 3 characters over {a, back-quote} in a block of exactly strlen+1 bytes; builtin_exec cannot create its temporary file and returns NULL", 8, nmax=3, recursion=1, mem=12,
  over={"spifconf_shell_expand.%d" % L4: 5, 'strcat.0': 4, 'strcpy.0': 16, 'strlen.0': 16})
U('determinism_plain', 'U_DET, A_SPACE, A_TILDE, A_BS, ' + Q, "two calls, input <= 6 characters over {a, space, ~, backslash, ', \"} not ending in a backslash, different leftovers", 14, nmax=6, over={'strcmp.0': 16})
U('determinism_env', 'U_DET, A_SPACE, A_DOLLAR, A_BRACE, D_FLAGS=RF_LONEDOLLAR', "two calls, input <= 6 characters over {a, space, $, {, }} with every ${ closed and named, different leftovers", 10, nmax=6, over={'strcmp.0': 12})
U('limit_tilde_env', 'U_LIMIT, A_TILDE, A_DOLLAR, A_SQ, VLEN=14', "input <= 4 characters over {a, ~, $, '}; HOME and $a unset or any string of <= 14 characters", 14, nmax=4, buff=12,
  over={'pick_value.0': 16, 'harness.1': 14}, unwind=8)
NB = {"spifconf_shell_expand.%d" % LM: 8, "spifconf_shell_expand.%d" % (LM + 1): 8, "spifconf_shell_expand.%d" % L5: 130, "spifconf_shell_expand.%d" % L6: 130,
      "spifconf_shell_expand.%d" % L7: 130, 'harness.0': 128, 'harness.1': 6, 'strlen.0': 140, 'strcpy.0': 140}
U('namebuf_brace', 'U_NAMEBUF, A_DOLLAR, FORM=1', "input ${ + 127 x a + <= 5 characters of {a, }, ), space}", 140, nmax=134, buff=160, over=NB, unwind=8)
U('namebuf_paren', 'U_NAMEBUF, A_DOLLAR, FORM=2', "input $( + 127 x a + <= 5 characters of {a, }, ), space}", 140, nmax=134, buff=160, over=NB, unwind=8)
U('namebuf_plain', 'U_NAMEBUF, A_DOLLAR, FORM=3', "input $ + 127 x a + <= 5 characters of {a, }, ), space}", 140, nmax=134, buff=160, over=NB, unwind=8)
start = s.index('/*@unit')
end = s.index('#include "vprelude.h"')
s = s[:start] + ''.join(units) + s[end:]
open(p, 'w').write(s)
print(len(units), "units")
