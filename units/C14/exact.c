/* C14 (bounded part): component exactness and parse . unparse . parse.
 *
 * Tier B.  The URL is ASSEMBLED by the harness from a component tuple
 *      [proto ":"] ["//"] [user [":" passwd] "@"] host [":" port] ["/" path...] ["?" query]      or a bare path
 * with every optional part present/absent, total length <= URL_MAX characters, characters of each
 * component drawn from the component's alphabet over {a, ':', '/', '@', '?', '.', digit}:
 *      proto  {a,digit}+          user  {a,digit,.}+        passwd {a,digit,.,:}+     host {a,digit,.}+
 *      port   {digit}+            path  "/" {a,digit,.,/,:,@}*                        query {a,digit,.,:,@,?}+
 * and parsed by the REAL url.c (every loop unwound, unwinding assertions on).  The parse result is
 * compared with the tuple the text was assembled from; then unparse, parse again, compare again.
 *
 * DEVIATION from the plan ("real str.c included"): with the real str.c every component buffer is a
 * malloc of symbolic size (strnlen of symbolic characters); ONE fully concrete shape of 15 characters was
 * already a 6.4 M-variable, 15 GB SAT instance, the symbolic-shape run went past 34 GB.  The str calls
 * are therefore EXACT EXECUTABLE MODELS here (section "str models": fixed-capacity buffers, the same
 * length/capacity arithmetic as str.c, byte-exact copies) - the executable reading of the assumed str
 * contracts of contracts/url.h.  str.c itself is agent str's C01.
 *
 * Input shaping (grammar ambiguities, not defects): without a protocol the text must not start with
 * alnum* ':' (that IS a protocol by the grammar); a bare path must not start with "//"; '//' only in
 * front of a host; user/port only with a host.
 * Lookups: getprotobyname fails at the first call (the protocol word is not itself an IP protocol: that
 * case is unit parse.proto_found); getservbyname returns nothing or a record with an arbitrary 16-bit
 * port, the expected port text is then its decimal rendering (exact "%d" model of snprintf below).
 *
 * (cbmc 6.11 dies with a stack overflow in symex on this TU under --pointer-overflow-check: that one
 * check is off here (checks_off); it is on in the P units of the same functions.)
 *
 * Native replay (native: self): the same harness natively - real libc, real str.c, lookups interposed by the
 * fixed database below - with the component tuple from the verifier's witness.
 *
 *   exact.parse.{n,p}{n,u}      parse result == tuple   (split: protocol absent/present x user absent/present)
 *   exact.parse_qslash.{n,p}    the same with '/' allowed in a query that follows the host directly (RFC 3986 allows it)
 *   exact.roundtrip.{n,p}{n,u}  parse(unparse(parse(t))) == parse(t), URL <= 7 characters (direct check at a small bound; for
 *                               canonical texts <= 14 characters the round trip is a corollary of exact.parse + unparse.*:
 *                               the canonical text is itself an assembled text with '//' iff a host is present)
 */
/*@unit
name: exact.parse.nn
define: U_PARSE, URL_MAX=14, U_PROTO=0, U_USER=0, VERIF_OWN_STRCHR, VERIF_OWN_STRLEN, VERIF_OWN_SNPRINTF, VERIF_OWN_LOOKUPS, VERIF_NO_ASSUMED_STR_CONTRACTS
src: url.c
tier: B
bound: URL text <= 14 characters over {a,:,/,@,?,.,digit}, each component <= 5 characters, optional components present/absent (protocol absent, user absent); exact executable str models instead of str.c; loops unwound 16 with unwinding assertions
unwind: 16
backend: cadical
timeout: 280
checks_off: --pointer-overflow-check
native: self
funcs: spif_url_new_from_ptr, spif_url_init_from_ptr, spif_url_parse
*/
/*@unit
name: exact.parse.nu
define: U_PARSE, URL_MAX=14, U_PROTO=0, U_USER=1, VERIF_OWN_STRCHR, VERIF_OWN_STRLEN, VERIF_OWN_SNPRINTF, VERIF_OWN_LOOKUPS, VERIF_NO_ASSUMED_STR_CONTRACTS
src: url.c
tier: B
bound: URL text <= 14 characters over {a,:,/,@,?,.,digit}, each component <= 5 characters, optional components present/absent (protocol absent, user present); exact executable str models instead of str.c; loops unwound 16 with unwinding assertions
unwind: 16
backend: cadical
timeout: 280
checks_off: --pointer-overflow-check
native: self
funcs: spif_url_new_from_ptr, spif_url_init_from_ptr, spif_url_parse
*/
/*@unit
name: exact.parse.pn
define: U_PARSE, URL_MAX=14, U_PROTO=1, U_USER=0, VERIF_OWN_STRCHR, VERIF_OWN_STRLEN, VERIF_OWN_SNPRINTF, VERIF_OWN_LOOKUPS, VERIF_NO_ASSUMED_STR_CONTRACTS
src: url.c
tier: B
bound: URL text <= 14 characters over {a,:,/,@,?,.,digit}, each component <= 5 characters, optional components present/absent (protocol present, user absent); exact executable str models instead of str.c; loops unwound 16 with unwinding assertions
unwind: 16
backend: cadical
timeout: 280
checks_off: --pointer-overflow-check
native: self
funcs: spif_url_new_from_ptr, spif_url_init_from_ptr, spif_url_parse
*/
/*@unit
name: exact.parse.pu
define: U_PARSE, URL_MAX=14, U_PROTO=1, U_USER=1, VERIF_OWN_STRCHR, VERIF_OWN_STRLEN, VERIF_OWN_SNPRINTF, VERIF_OWN_LOOKUPS, VERIF_NO_ASSUMED_STR_CONTRACTS
src: url.c
tier: B
bound: URL text <= 14 characters over {a,:,/,@,?,.,digit}, each component <= 5 characters, optional components present/absent (protocol present, user present); exact executable str models instead of str.c; loops unwound 16 with unwinding assertions
unwind: 16
backend: cadical
timeout: 280
checks_off: --pointer-overflow-check
native: self
funcs: spif_url_new_from_ptr, spif_url_init_from_ptr, spif_url_parse
*/
/*@unit
name: exact.parse_qslash.n
define: U_PARSE, U_QUERY_SLASH, URL_MAX=14, U_PROTO=0, U_USER=-1, VERIF_OWN_STRCHR, VERIF_OWN_STRLEN, VERIF_OWN_SNPRINTF, VERIF_OWN_LOOKUPS, VERIF_NO_ASSUMED_STR_CONTRACTS
src: url.c
tier: B
bound: URL text <= 14 characters over {a,:,/,@,?,.,digit}, each component <= 5 characters, optional components present/absent (protocol absent, query may contain '/', no path); exact executable str models instead of str.c; loops unwound 16 with unwinding assertions
unwind: 16
backend: cadical
timeout: 280
checks_off: --pointer-overflow-check
native: self
funcs: spif_url_new_from_ptr, spif_url_parse
*/
/*@unit
name: exact.parse_qslash.p
define: U_PARSE, U_QUERY_SLASH, URL_MAX=14, U_PROTO=1, U_USER=-1, VERIF_OWN_STRCHR, VERIF_OWN_STRLEN, VERIF_OWN_SNPRINTF, VERIF_OWN_LOOKUPS, VERIF_NO_ASSUMED_STR_CONTRACTS
src: url.c
tier: B
bound: URL text <= 14 characters over {a,:,/,@,?,.,digit}, each component <= 5 characters, optional components present/absent (protocol present, query may contain '/', no path); exact executable str models instead of str.c; loops unwound 16 with unwinding assertions
unwind: 16
backend: cadical
timeout: 280
checks_off: --pointer-overflow-check
native: self
funcs: spif_url_new_from_ptr, spif_url_parse
*/
/*@unit
name: exact.roundtrip.nn
define: U_ROUNDTRIP, URL_MAX=7, CMAX=3, U_PROTO=0, U_USER=0, VERIF_OWN_STRCHR, VERIF_OWN_STRLEN, VERIF_OWN_SNPRINTF, VERIF_OWN_LOOKUPS, VERIF_NO_ASSUMED_STR_CONTRACTS
src: url.c
tier: B
bound: URL text <= 7 characters over {a,:,/,@,?,.,digit}, each component <= 3 characters, optional components present/absent (protocol absent, user absent); empty service database (no port is resolved); exact executable str models instead of str.c; loops unwound 12 with unwinding assertions
unwind: 12
backend: cadical
timeout: 280
checks_off: --pointer-overflow-check
native: self
funcs: spif_url_new_from_ptr, spif_url_new_from_str, spif_url_parse, spif_url_unparse
*/
/*@unit
name: exact.roundtrip.nu
define: U_ROUNDTRIP, URL_MAX=7, CMAX=3, U_PROTO=0, U_USER=1, VERIF_OWN_STRCHR, VERIF_OWN_STRLEN, VERIF_OWN_SNPRINTF, VERIF_OWN_LOOKUPS, VERIF_NO_ASSUMED_STR_CONTRACTS
src: url.c
tier: B
bound: URL text <= 7 characters over {a,:,/,@,?,.,digit}, each component <= 3 characters, optional components present/absent (protocol absent, user present); empty service database (no port is resolved); exact executable str models instead of str.c; loops unwound 12 with unwinding assertions
unwind: 12
backend: cadical
timeout: 280
checks_off: --pointer-overflow-check
native: self
funcs: spif_url_new_from_ptr, spif_url_new_from_str, spif_url_parse, spif_url_unparse
*/
/*@unit
name: exact.roundtrip.pn
define: U_ROUNDTRIP, URL_MAX=7, CMAX=3, U_PROTO=1, U_USER=0, VERIF_OWN_STRCHR, VERIF_OWN_STRLEN, VERIF_OWN_SNPRINTF, VERIF_OWN_LOOKUPS, VERIF_NO_ASSUMED_STR_CONTRACTS
src: url.c
tier: B
bound: URL text <= 7 characters over {a,:,/,@,?,.,digit}, each component <= 3 characters, optional components present/absent (protocol present, user absent); empty service database (no port is resolved); exact executable str models instead of str.c; loops unwound 12 with unwinding assertions
unwind: 12
backend: cadical
timeout: 280
checks_off: --pointer-overflow-check
native: self
funcs: spif_url_new_from_ptr, spif_url_new_from_str, spif_url_parse, spif_url_unparse
*/
/*@unit
name: exact.roundtrip.pu
define: U_ROUNDTRIP, URL_MAX=7, CMAX=3, U_PROTO=1, U_USER=1, VERIF_OWN_STRCHR, VERIF_OWN_STRLEN, VERIF_OWN_SNPRINTF, VERIF_OWN_LOOKUPS, VERIF_NO_ASSUMED_STR_CONTRACTS
src: url.c
tier: B
bound: URL text <= 7 characters over {a,:,/,@,?,.,digit}, each component <= 3 characters, optional components present/absent (protocol present, user present); empty service database (no port is resolved); exact executable str models instead of str.c; loops unwound 12 with unwinding assertions
unwind: 12
backend: cadical
timeout: 280
checks_off: --pointer-overflow-check
native: self
funcs: spif_url_new_from_ptr, spif_url_new_from_str, spif_url_parse, spif_url_unparse
*/
#define VERIF_OWN_STRDUP
#define NET_EXACT_LIBC
#include "vprelude.h"

#ifndef VERIF_NATIVE
/* exact, loop-based libc string functions for the bounded run */
size_t strlen(const char *s) { size_t n = 0; while (s[n]) n++; return n; }
size_t strnlen(const char *s, size_t m) { size_t n = 0; while (n < m && s[n]) n++; return n; }
char *strchr(const char *s, int c) { for (;; s++) { if (*s == (char) c) return (char *) s; if (!*s) return 0; } }
char *strrchr(const char *s, int c) { const char *r = 0; for (;; s++) { if (*s == (char) c) r = s; if (!*s) return (char *) r; } }
char *index(const char *s, int c) { return strchr(s, c); }
char *rindex(const char *s, int c) { return strrchr(s, c); }
char *strstr(const char *h, const char *n) { return nondet_bool() ? 0 : (char *) h; }
char *strdup(const char *s) { size_t n = strlen(s) + 1; char *r = malloc(n); memcpy(r, s, n); return r; }

#endif

#include "env_net.h"

#ifndef VERIF_NATIVE
/* exact "%d" rendering of one non-negative int (the only snprintf url.c reaches from parse) */
int vg_snprintf(char *buf, size_t size, const char *fmt, long v)
{
    char tmp[24]; int n = 0, i;
    __CPROVER_assert(fmt[0] == '%' && fmt[1] == 'd' && fmt[2] == 0, "bounded snprintf model: format is \"%d\"");
    __CPROVER_assert(v >= 0 && v <= 65535 && size >= 6, "bounded snprintf model: 16-bit value, room for it");
    do { tmp[n++] = (char) ('0' + v % 10); v /= 10; } while (v);
    for (i = 0; i < n; i++) buf[i] = tmp[n - 1 - i];
    buf[n] = 0;
    return n;
}

#endif

/* lookups: the name-service database is fixed for the whole run (the harness picks it once, so the
 * second parse of the round trip sees the same database as the first): the protocol word is never an
 * IP protocol itself (first getprotobyname fails; that case is unit parse.proto_found); the word is or
 * is not a tcp service, is or is not a udp service, with one arbitrary 16-bit port; the service's own
 * protocol is or is not known. */
int w_port; _Bool w_serv_tcp, w_serv_udp, w_servproto_known;
#define W_RESOLVES ((w_serv_tcp || w_serv_udp) && w_servproto_known)
struct protoent *getprotobyname(const char *name)
{
    vg_getproto_calls++;
    if (name != vg_servent_proto || !w_servproto_known) return 0;     /* only the service's protocol resolves */
    vg_protoent_name[0] = 't'; vg_protoent_name[1] = 0;
    vg_protoent.p_name = vg_protoent_name; vg_protoent.p_aliases = vg_no_aliases; vg_protoent.p_proto = 6;
    return &vg_protoent;
}
struct servent *getservbyname(const char *name, const char *proto)
{
    vg_getserv_calls++;
    if (!((proto[0] == 't') ? w_serv_tcp : w_serv_udp)) return 0;
    vg_servent_name[0] = 0; vg_servent_proto[0] = 't'; vg_servent_proto[1] = 0;
    vg_servent.s_name = vg_servent_name; vg_servent.s_aliases = vg_no_aliases; vg_servent.s_proto = vg_servent_proto;
    vg_servent.s_port = htons((unsigned short) w_port);
    return &vg_servent;
}

#ifndef VERIF_NATIVE
/* ---- str models: exact, executable, fixed capacity ------------------------------------------------- */
#define CBUF_TO_NUM 6
#define MCAP 40                     /* bytes per model buffer: >= any size field reached within the bound */
static SPIF_CONST_TYPE(strclass) s_class;       /* identity only */
SPIF_TYPE(class) SPIF_CLASS_VAR(str) = (spif_class_t) &s_class;
SPIF_TYPE(strclass) SPIF_STRCLASS_VAR(str) = &s_class;
spif_bool_t spif_obj_set_class(spif_obj_t self, spif_class_t cls) { self->cls = cls; return TRUE; }
#ifdef U_ROUNDTRIP
#define MCOPY (URL_MAX + 3)         /* longest copy: canonical text ("//" added; no port is resolved in these units) + NUL */
#else
#define MCOPY (URL_MAX + 1)         /* longest copy: the text + NUL */
#endif
static void m_copy(char *d, const char *s, spif_stridx_t n)
{
    int i;
    __CPROVER_assert(n >= 0 && n <= MCOPY, "str model: copy length within the bound");
    for (i = 0; i < MCOPY; i++) if (i < n) d[i] = s[i];
}
spif_bool_t spif_str_init(spif_str_t self)
{ self->parent.cls = SPIF_CLASS_VAR(str); self->s = NULL; self->len = 0; self->size = 0; return TRUE; }
spif_bool_t spif_str_init_from_ptr(spif_str_t self, spif_charptr_t old)
{
    if (old == NULL) return spif_str_init(self);
    self->parent.cls = SPIF_CLASS_VAR(str);
    self->len = strlen(old); self->size = self->len + 1;
    __CPROVER_assert(self->size <= MCAP, "str model: capacity suffices within the bound");
    self->s = malloc(MCAP); m_copy(self->s, old, self->size);
    return TRUE;
}
spif_bool_t spif_str_init_from_buff(spif_str_t self, spif_charptr_t buff, spif_stridx_t size)
{
    self->parent.cls = SPIF_CLASS_VAR(str);
    self->size = size;
    self->len = buff ? (spif_stridx_t) strnlen(buff, size) : 0;
    if (self->size == self->len) self->size++;
    __CPROVER_assert(self->size >= 0 && self->size <= MCAP, "str model: capacity suffices within the bound");
    self->s = malloc(MCAP);
    if (buff) m_copy(self->s, buff, self->len);
    self->s[self->len] = 0;
    return TRUE;
}
spif_str_t spif_str_new_from_ptr(spif_charptr_t old) { spif_str_t r = malloc(sizeof(spif_const_str_t)); spif_str_init_from_ptr(r, old); return r; }
spif_str_t spif_str_new_from_buff(spif_charptr_t b, spif_stridx_t n) { spif_str_t r = malloc(sizeof(spif_const_str_t)); spif_str_init_from_buff(r, b, n); return r; }
spif_bool_t spif_str_done(spif_str_t self)
{ if (self->size) { free(self->s); self->len = 0; self->size = 0; self->s = NULL; } return TRUE; }
spif_bool_t spif_str_del(spif_str_t self) { spif_str_done(self); free(self); return TRUE; }
spif_bool_t spif_str_append(spif_str_t self, spif_str_t other)
{
    if (other->size && other->len) {
        __CPROVER_assert(self->s != NULL, "str model: append on the non-empty state");
        self->size += other->size - 1;
        __CPROVER_assert(self->size <= MCAP, "str model: capacity suffices within the bound");
        m_copy(self->s + self->len, other->s, other->len + 1);
        self->len += other->len;
    }
    return TRUE;
}
spif_bool_t spif_str_append_char(spif_str_t self, spif_char_t c)
{
    __CPROVER_assert(self->s != NULL, "str model: append_char on the non-empty state");
    self->len++;
    if (self->size <= self->len) self->size++;
    __CPROVER_assert(self->size <= MCAP, "str model: capacity suffices within the bound");
    self->s[self->len - 1] = c; self->s[self->len] = 0;
    return TRUE;
}
spif_bool_t spif_str_append_from_ptr(spif_str_t self, spif_charptr_t other)
{
    spif_stridx_t len = strlen(other);
    if (len) {
        __CPROVER_assert(self->s != NULL, "str model: append_from_ptr on the non-empty state");
        self->size += len;
        __CPROVER_assert(self->size <= MCAP, "str model: capacity suffices within the bound");
        m_copy(self->s + self->len, other, len + 1);
        self->len += len;
    }
    return TRUE;
}
spif_cmp_t spif_str_comp(spif_str_t a, spif_str_t b) { return SPIF_CMP_EQUAL; }   /* not reached */

/* str.c:spif_str_to_num on a short decimal text (reached only by mutants of the parser) */
size_t spif_str_to_num(spif_str_t self, int base)
{
    size_t v = 0; int i;
    for (i = 0; i < CBUF_TO_NUM; i++) { char ch = self->s[i]; if (ch < '0' || ch > '9') break; v = v * 10 + (size_t) (ch - '0'); }
    return v;
}
#endif   /* !VERIF_NATIVE: the native replay links the REAL str.c */

#ifdef VERIF_NATIVE
# include "rawsrc/url.c"
#else
# include "src/url.c"
#endif


/* ---- assembling ---------------------------------------------------------------------------------- */
#ifndef CMAX
#define CMAX 5
#endif
//                      /* longest single component */
#define CBUF ((CMAX) < 5 ? 5 : (CMAX))   /* a resolved port has up to 5 digits */
typedef struct { _Bool has; unsigned char len; char c[CBUF + 1]; } comp_t;
enum { A_ALNUM = 1, A_DOT = 2, A_COLON = 4, A_SLASH = 8, A_AT = 16, A_QM = 32, A_DIGITONLY = 64 };

static _Bool ch_ok(char ch, int alpha)
{
    if (alpha & A_DIGITONLY) return ch >= '0' && ch <= '9';
    if (ch == 'a' || (ch >= '0' && ch <= '9')) return (alpha & A_ALNUM) != 0;
    if (ch == '.') return (alpha & A_DOT) != 0;
    if (ch == ':') return (alpha & A_COLON) != 0;
    if (ch == '/') return (alpha & A_SLASH) != 0;
    if (ch == '@') return (alpha & A_AT) != 0;
    if (ch == '?') return (alpha & A_QM) != 0;
    return 0;
}
/* every input is taken in harness() through VND (the native replay reads it from the witness) */
static void pick_check(comp_t *c, int alpha, unsigned minlen)
{
    unsigned i;
    __CPROVER_assume(c->len >= minlen && c->len <= CMAX);
    for (i = 0; i < CMAX; i++) __CPROVER_assume(i >= c->len || ch_ok(c->c[i], alpha));
    c->c[c->len] = 0;
}
#define PICK(V_, N_, alpha, minlen) do { (V_).has = VND(bool, N_ ## _has); (V_).len = VND(uchar, N_ ## _len); \
    (V_).c[0] = VND(char, N_ ## _c0); (V_).c[1] = VND(char, N_ ## _c1); (V_).c[2] = VND(char, N_ ## _c2); \
    (V_).c[3] = VND(char, N_ ## _c3); (V_).c[4] = VND(char, N_ ## _c4); (V_).c[5] = 0; pick_check(&(V_), alpha, minlen); } while (0)
static unsigned put(char *buf, unsigned at, const char *s, unsigned n)
{
    unsigned i;
    for (i = 0; i < n; i++) { __CPROVER_assume(at < URL_MAX); buf[at++] = s[i]; }
    return at;
}
/* (macros: __CPROVER_assert wants literal descriptions) */
#define same(got, want, what_absent, what_text) do { unsigned i_; \
    __CPROVER_assert(((got) != NULL) == ((want)->has != 0), what_absent); \
    if ((got) != NULL && (want)->has) { \
        __CPROVER_assert((got)->len == (want)->len && (got)->s[(got)->len] == 0, what_text); \
        for (i_ = 0; i_ < CBUF; i_++) __CPROVER_assert(i_ >= (want)->len || (got)->s[i_] == (want)->c[i_], what_text); \
    } } while (0)
#define same_str(a, b, what) do { unsigned i_; \
    __CPROVER_assert(((a) != NULL) == ((b) != NULL), what); \
    if ((a) && (b)) { \
        __CPROVER_assert((a)->len == (b)->len, what); \
        for (i_ = 0; i_ < CBUF; i_++) __CPROVER_assert(i_ >= (unsigned) (a)->len || (a)->s[i_] == (b)->s[i_], what); \
    } } while (0)

char w_text[URL_MAX + 1];

void harness(void)
{
    comp_t proto, user, pw, host, port, path, query, xport;
    _Bool slashes = VND(bool, slashes);
    char buf[URL_MAX + 1];
    unsigned n = 0, i;

    libast_debug_level = VND(uint, debug_level);
#ifndef VERIF_NATIVE
    spif_str_strclass = &s_class; spif_str_class = (spif_class_t) &s_class; spif_url_class = &u_class;
#endif
    vg_getproto_calls = 0; vg_getserv_calls = 0;
#ifdef U_ROUNDTRIP
    /* round-trip units: empty service database (port resolution is covered by exact.parse.p*; a resolved port
     * lengthens the canonical text by ":65535" and, for a bare path, by "//localhost": too long for this bound) */
    w_serv_tcp = 0; w_serv_udp = 0; w_servproto_known = VND(bool, servproto_known);
#else
    w_serv_tcp = VND(bool, serv_tcp); w_serv_udp = VND(bool, serv_udp); w_servproto_known = VND(bool, servproto_known);
#endif
    w_port = VND(int, serv_port); __CPROVER_assume(w_port >= 0 && w_port <= 65535);

    PICK(proto, proto, A_ALNUM, 1);
    PICK(user, user, A_ALNUM | A_DOT, 1);
    PICK(pw, pw, A_ALNUM | A_DOT | A_COLON, 0);                /* a password may be present and empty: user:@host */
    PICK(host, host, A_ALNUM | A_DOT, 1);
    PICK(port, port, A_DIGITONLY, 0);                          /* a port may be present and empty: host:/path */
    PICK(path, path, A_ALNUM | A_DOT | A_SLASH | A_COLON | A_AT, 1);
#ifdef U_QUERY_SLASH
    PICK(query, query, A_ALNUM | A_DOT | A_COLON | A_AT | A_QM | A_SLASH, 0);
    __CPROVER_assume(query.has && !path.has);
#else
    PICK(query, query, A_ALNUM | A_DOT | A_COLON | A_AT | A_QM, 0);   /* a query may be present and empty: host? */
#endif
    /* behaviour split (union of the units = every presence vector) */
    proto.has = (U_PROTO != 0);
    if (U_USER >= 0) user.has = (U_USER != 0);
#ifdef U_HOST
    host.has = (U_HOST != 0);
#endif
    /* shape */
    __CPROVER_assume(!path.has || path.c[0] == '/');
    __CPROVER_assume(host.has || path.has);                       /* something to parse */
    __CPROVER_assume(host.has || (!user.has && !port.has && !slashes));
    __CPROVER_assume(user.has || !pw.has);
    __CPROVER_assume(host.has || path.len < 2 || path.c[1] != '/');   /* bare path does not look like //host */

    if (proto.has) { n = put(buf, n, proto.c, proto.len); n = put(buf, n, ":", 1); }
    if (slashes) n = put(buf, n, "//", 2);
    if (user.has) {
        n = put(buf, n, user.c, user.len);
        if (pw.has) { n = put(buf, n, ":", 1); n = put(buf, n, pw.c, pw.len); }
        n = put(buf, n, "@", 1);
    }
    if (host.has) {
        n = put(buf, n, host.c, host.len);
        if (port.has) { n = put(buf, n, ":", 1); n = put(buf, n, port.c, port.len); }
    }
    if (path.has) n = put(buf, n, path.c, path.len);
    if (query.has) { n = put(buf, n, "?", 1); n = put(buf, n, query.c, query.len); }
    __CPROVER_assume(n <= URL_MAX);
    buf[n] = 0;
    /* grammar ambiguity: without a protocol, the text must not begin alnum* ':' */
    if (!proto.has) {
        _Bool looks_like_proto = 0, stop = 0;
        for (i = 0; i < URL_MAX; i++) {
            if (!stop && i < n) {
                if (buf[i] == ':') { looks_like_proto = 1; stop = 1; }
                else if (!(buf[i] == 'a' || (buf[i] >= '0' && buf[i] <= '9'))) stop = 1;
            }
        }
        __CPROVER_assume(!looks_like_proto);
    }
    for (i = 0; i <= URL_MAX; i++) w_text[i] = (i <= n) ? buf[i] : 0;

    spif_url_t u = spif_url_new_from_ptr((spif_charptr_t) buf);
    __CPROVER_assert(u != NULL, "a URL object is returned");

    /* expected port: given, or filled from the service database when there is a protocol and no port */
    xport = port;
    if (!port.has && proto.has && W_RESOLVES) {
        char tmp[8]; int k = 0, j; long v = w_port;
        do { tmp[k++] = (char) ('0' + v % 10); v /= 10; } while (v);
        xport.has = 1; xport.len = (unsigned char) k;
        for (j = 0; j < k; j++) xport.c[j] = tmp[k - 1 - j];
        xport.c[k] = 0;
    }
    same(u->proto, &proto, "proto reported present iff assembled", "proto text is the assembled one");
    same(u->user, &user, "user reported present iff assembled", "user text is the assembled one");
    same(u->passwd, &pw, "passwd reported present iff assembled", "passwd text is the assembled one");
    same(u->host, &host, "host reported present iff assembled", "host text is the assembled one");
    same(u->port, &xport, "port reported present iff given or resolved", "port text is the given / resolved one");
    same(u->path, &path, "path reported present iff assembled", "path text is the assembled one");
    same(u->query, &query, "query reported present iff assembled", "query text is the assembled one");

#ifdef U_ROUNDTRIP
    {
        spif_url_t v;
        spif_bool_t ok = spif_url_unparse(u);
        __CPROVER_assert(ok == TRUE, "unparse succeeds");
        __CPROVER_assert(SPIF_STR(u)->s != NULL && SPIF_STR(u)->s[SPIF_STR(u)->len] == 0, "canonical text is terminated");
        v = spif_url_new_from_str(SPIF_STR(u));
        __CPROVER_assert(v != NULL, "a URL object is returned for the canonical text");
        same_str(v->proto, u->proto, "round trip keeps proto");
        same_str(v->user, u->user, "round trip keeps user");
        same_str(v->passwd, u->passwd, "round trip keeps passwd");
        same_str(v->host, u->host, "round trip keeps host");
        same_str(v->port, u->port, "round trip keeps port");
        same_str(v->path, u->path, "round trip keeps path");
        same_str(v->query, u->query, "round trip keeps query");
    }
#endif
    VERIF_CANARY();
}
