/* C14: spif_url_parse is memory-safe for ANY byte string and for every outcome of the
 * protocol/service lookups; it never dereferences a lookup result it did not obtain; every
 * component it stores is absent or a fresh, owned, NUL-terminated str; the text is untouched;
 * no lookup is made unless a protocol word was found.
 *
 * Tier P: both loops carry loop contracts (annot/url.c.net.ann); text length symbolic (< VCAP),
 * capacity slack behind the terminator allowed.  str constructors by ASSUMED contract
 * (contracts/url.h), strchr by the exact-extent model of contracts/env_net.h.
 *
 * Behaviours (union = every lookup outcome):
 *   parse.noproto_lookup   getprotobyname(word) fails  -> service path (tcp, udp, protocol of service)
 *   parse.proto_found      getprotobyname(word) succeeds at the first call
 */
/*@unit
name: parse.noproto_lookup
define: U_FIRST_PROTO_LOOKUP_FAILS, VERIF_OWN_STRCHR, VERIF_STRCHR_TEXT_ONLY, VERIF_OWN_LOOKUPS, NET_NO_CONTENT
src: url.c
enforce: spif_url_parse
replace: spif_str_new_from_buff, spif_str_new_from_ptr
backend: sat
loops: 2
objbits: 9
timeout: 400
*/
/*@unit
name: parse.proto_found
define: U_FIRST_PROTO_LOOKUP_SUCCEEDS, VERIF_OWN_STRCHR, VERIF_STRCHR_TEXT_ONLY, VERIF_OWN_LOOKUPS, NET_NO_CONTENT
src: url.c
enforce: spif_url_parse
replace: spif_str_new_from_buff, spif_str_new_from_ptr
backend: sat
loops: 2
objbits: 9
timeout: 400
*/
#include "vprelude.h"
#include "env_net.h"
#include "url.h"

/* lookups as in env_net.h, except that the outcome of the FIRST getprotobyname call of the run
 * is fixed by the unit (splitting the behaviours); every later call is free again */
struct protoent *getprotobyname(const char *name)
{
    __CPROVER_assert(name != NULL && __CPROVER_r_ok(name, 1), "getprotobyname: name is a readable string");
    _Bool first = (vg_getproto_calls == 0);
    vg_getproto_calls++;
    _Bool fail = nondet_bool();
#ifdef U_FIRST_PROTO_LOOKUP_FAILS
    if (first) fail = 1;
#else
    if (first) fail = 0;
#endif
    if (fail) return (struct protoent *) 0;
    vg_protoent_name[7] = 0;
    vg_no_aliases[0] = (char *) 0;
    vg_protoent.p_name = vg_protoent_name;
    vg_protoent.p_aliases = vg_no_aliases;
    vg_protoent.p_proto = nondet_int();
    return &vg_protoent;
}
struct servent *getservbyname(const char *name, const char *proto)
{
    __CPROVER_assert(name != NULL && __CPROVER_r_ok(name, 1), "getservbyname: name is a readable string");
    __CPROVER_assert(proto == NULL || __CPROVER_r_ok(proto, 1), "getservbyname: proto is NULL or a readable string");
    vg_getserv_calls++;
    if (nondet_bool()) return (struct servent *) 0;
    vg_servent_name[7] = 0;
    vg_servent_proto[7] = 0;
    vg_no_aliases[0] = (char *) 0;
    vg_servent.s_name = vg_servent_name;
    vg_servent.s_aliases = vg_no_aliases;
    vg_servent.s_proto = vg_servent_proto;
    int port = nondet_int();
    __CPROVER_assume(port >= 0 && port <= 65535);
    vg_servent.s_port = port;
    return &vg_servent;
}

#include "src/url.c"

static spif_bool_t spif_url_parse(spif_url_t self)
__CPROVER_requires(__CPROVER_is_fresh(self, sizeof(spif_const_url_t)) && URL_TEXT_OK(self) && URL_COMPS_NULL(self))
__CPROVER_requires(vg_getproto_calls == 0 && vg_getserv_calls == 0)
__CPROVER_assigns(URL_COMP_ASSIGNS(self), vg_txt, vg_txt_len, vg_buf, vg_buf_len, VG_LOOKUP_ASSIGNS)
__CPROVER_ensures(__CPROVER_return_value == TRUE || __CPROVER_return_value == FALSE)
/* every component: absent, or a NEW str object with its own terminated buffer */
__CPROVER_ensures(NSTR_OPT(self->proto))
__CPROVER_ensures(NSTR_OPT(self->user))
__CPROVER_ensures(NSTR_OPT(self->passwd))
__CPROVER_ensures(NSTR_OPT(self->host))
__CPROVER_ensures(NSTR_OPT(self->port))
__CPROVER_ensures(NSTR_OPT(self->path))
__CPROVER_ensures(NSTR_OPT(self->query))
/* a password only with a user; a lookup only with a protocol word */
__CPROVER_ensures(self->passwd == NULL || self->user != NULL)
__CPROVER_ensures(self->proto != NULL || (vg_getproto_calls == 0 && vg_getserv_calls == 0))
/* the text is still the same terminated string */
__CPROVER_ensures(NSTR(self)->s == vg_txt && (size_t) NSTR(self)->len == vg_txt_len && vg_txt[vg_txt_len] == 0)
;

void harness(void)
{
    spif_url_t u;
    spif_url_parse(u);
    VERIF_CANARY();
}
