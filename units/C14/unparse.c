/* C14: spif_url_unparse rebuilds the canonical text
 *      [proto ":"] ["//" if host] [user [":" passwd] "@"] [host [":" port]] [path] ["?" query]
 * from the components that are present (a port without a host gets the host "localhost").
 *
 * Three units over the same harness (one SAT instance with all of them did not finish in 200 s):
 *   unparse.frame   str preconditions, memory safety, leak check, frame, host rule, class
 *   unparse.length  length = sum of parts, capacity above it
 *   unparse.text    byte vg_k of the text = byte of the canonical concatenation
 * (the model-internal assertions - str preconditions, cut lemmas - are obligations of all three.)
 *
 * Tier P: the function is loop-free, nothing is unwound, every length is symbolic (< VCAP/16 per part).
 * PLAIN HARNESS (no DFCC enforce/replace): 16 replaced str calls on one path made the DFCC instance
 * 8-14 M SAT variables (> 10 GB, > 600 s; see report).  Instead the str calls are represented by the
 * GHOST-VIEW MODELS below, which are the NET_STR_VIEW contracts of contracts/url.h written as code:
 * each model asserts the contract's `requires`, then produces exactly the effects the contract's
 * `ensures` describes (length, capacity, buffer re-seated: old block freed, new block allocated; the
 * byte at ghost index vg_k of the text under construction is tracked in vg_view).  What is proved is
 * therefore "as far as the assumed str contracts allow":
 *   - no str call is made outside its assumed precondition (e.g. never an append on the (NULL,0,0) state);
 *   - the length is the sum of the present parts and their separators (component present <=> its
 *     separator emitted), the capacity stays above it;
 *   - byte vg_k of the text (vg_k arbitrary) is the byte the canonical concatenation has there;
 *   - components are neither modified nor re-seated, except host in the localhost case;
 *   - the object keeps its class (C05 type());  nothing is freed twice / used after free / leaked.
 */
/*@unit
name: unparse.frame
define: U_FRAME, NET_CSTR_LITERALS, VERIF_NO_ASSUMED_STR_CONTRACTS
src: url.c
backend: cadical
timeout: 200
flags: --memory-leak-check
funcs: spif_url_unparse, spif_obj_set_class, spif_str_done, spif_str_init_from_ptr, spif_str_append, spif_str_append_char, spif_str_append_from_ptr, spif_str_new_from_ptr
*/
/*@unit
name: unparse.length
define: U_LENGTH, NET_CSTR_LITERALS, VERIF_NO_ASSUMED_STR_CONTRACTS
src: url.c
backend: cadical
timeout: 200
funcs: spif_url_unparse
*/
/*@unit
name: unparse.text
define: U_TEXT, NET_CSTR_LITERALS, VERIF_NO_ASSUMED_STR_CONTRACTS
src: url.c
backend: cadical
timeout: 200
funcs: spif_url_unparse
*/
#include "vprelude.h"
#include "env_net.h"
#include "url.h"

/* ---- ghost-view models of the assumed str contracts ------------------------------------------- */
spif_str_t vg_view_of;      /* the str whose text is observed (the URL's own text) */
spif_char_t vg_view;        /* byte vg_k of that text, meaningful while vg_k < len */
int vg_cls_writes;          /* number of times a str initialiser re-stamped the observed object's class */

/* cut: a fact the model's own arithmetic establishes is asserted and then assumed, so that the
 * solver need not re-derive it through the whole chain of additions (sound: the assert is checked) */
#define M_CUT(c, txt) do { __CPROVER_assert((c), txt); __CPROVER_assume(c); } while (0)
#define M_STATE_OK(p) ((p) != NULL && (p)->s != NULL && (p)->len >= 0 && (p)->len < (p)->size && (p)->size <= VCAP)

/* obj.c:386 (trivial setter, written out) */
spif_bool_t spif_obj_set_class(spif_obj_t self, spif_class_t cls)
{
    __CPROVER_assert(self != NULL, "requires of spif_obj_set_class");
    self->cls = cls;
    return TRUE;
}
spif_bool_t spif_str_done(spif_str_t self)
{
    __CPROVER_assert(self != NULL && (self->size == 0 || self->s != NULL), "requires of spif_str_done");
    if (self->size != 0) {
        free(self->s);
        self->s = NULL; self->len = 0; self->size = 0;
    }
    return TRUE;
}
spif_bool_t spif_str_init_from_ptr(spif_str_t self, spif_charptr_t old)
{
    __CPROVER_assert(self != NULL && VCSTR_OK(old), "requires of spif_str_init_from_ptr");
    self->parent.cls = SPIF_CLASS(SPIF_STRCLASS_VAR(str));          /* str.c:186 re-stamps the class */
    if (self == vg_view_of) vg_cls_writes++;
    self->len = VCSTR_SHORT_LEN(old);
    self->size = self->len + 1;
    self->s = malloc(self->size);
    if (self == vg_view_of && vg_k < (size_t) self->len) vg_view = old[vg_k];
    return TRUE;
}
spif_str_t spif_str_new_from_ptr(spif_charptr_t old)
{
    __CPROVER_assert(VCSTR_OK(old), "requires of spif_str_new_from_ptr");
    spif_str_t r = malloc(sizeof(spif_const_str_t));
    r->parent.cls = SPIF_CLASS(SPIF_STRCLASS_VAR(str));
    r->len = VCSTR_SHORT_LEN(old);
    r->size = r->len + 1;
    r->s = malloc(r->size);
    r->s[r->len] = 0;
    if (vg_k2 < (size_t) r->len) r->s[vg_k2] = old[vg_k2];       /* bytes by a second ghost index */
    return r;
}
spif_bool_t spif_str_append(spif_str_t self, spif_str_t other)
{
    __CPROVER_assert(M_STATE_OK(self), "requires of spif_str_append: self in the non-empty state");
    __CPROVER_assert(M_STATE_OK(other) && other->s[other->len] == 0, "requires of spif_str_append: other valid");
    __CPROVER_assert(self == vg_view_of, "view model: the appended-to string is the observed one");
    if (other->len != 0) {
        spif_stridx_t olen = self->len;
        self->size += other->size - 1;
        free(self->s);
        self->s = malloc(self->size);
        self->len += other->len;
        if (vg_k >= (size_t) olen && vg_k < (size_t) self->len) vg_view = other->s[vg_k - (size_t) olen];
    }
    M_CUT(self->len < self->size, "ensures of spif_str_append: terminator fits");
    return TRUE;
}
spif_bool_t spif_str_append_char(spif_str_t self, spif_char_t c)
{
    __CPROVER_assert(M_STATE_OK(self) && self->size < VCAP, "requires of spif_str_append_char: self in the non-empty state");
    __CPROVER_assert(self == vg_view_of, "view model: the appended-to string is the observed one");
    self->len++;
    if (self->size <= self->len) {
        self->size++;
        free(self->s);
        self->s = malloc(self->size);
    }
    if (vg_k == (size_t) self->len - 1) vg_view = c;
    M_CUT(self->len < self->size, "ensures of spif_str_append_char: terminator fits");
    return TRUE;
}
spif_bool_t spif_str_append_from_ptr(spif_str_t self, spif_charptr_t other)
{
    __CPROVER_assert(M_STATE_OK(self), "requires of spif_str_append_from_ptr: self in the non-empty state");
    __CPROVER_assert(VCSTR_OK(other), "requires of spif_str_append_from_ptr: other is a C string");
    __CPROVER_assert(self == vg_view_of, "view model: the appended-to string is the observed one");
    spif_stridx_t n = VCSTR_SHORT_LEN(other);
    if (n != 0) {
        spif_stridx_t olen = self->len;
        self->size += n;
        free(self->s);
        self->s = malloc(self->size);
        self->len += n;
        if (vg_k >= (size_t) olen && vg_k < (size_t) self->len) vg_view = other[vg_k - (size_t) olen];
    }
    M_CUT(self->len < self->size, "ensures of spif_str_append_from_ptr: terminator fits");
    return TRUE;
}

#include "src/url.c"

#define UCAP (VCAP / 16)
/* lengths of the parts (components are unchanged: asserted below) */
#define LEN0(p)   ((p) ? (size_t) (p)->len : (size_t) 0)
#define O1(u) ((u)->proto ? LEN0((u)->proto) + 1 : (size_t) 0)
#define O2(u) (O1(u) + ((u)->host ? 2 : 0))
#define O3(u) (O2(u) + ((u)->user ? LEN0((u)->user) + ((u)->passwd ? 1 + LEN0((u)->passwd) : 0) + 1 : 0))
#define O4(u) (O3(u) + ((u)->host ? LEN0((u)->host) + ((u)->port ? 1 + LEN0((u)->port) : 0) : 0))
#define O5(u) (O4(u) + LEN0((u)->path))
#define O6(u) (O5(u) + ((u)->query ? 1 + LEN0((u)->query) : 0))

/* one component: absent, or a str with a buffer of symbolic size holding a terminated text */
static spif_str_t mk_comp(void)
{
    if (nondet_bool()) return NULL;
    spif_str_t p = malloc(sizeof(spif_const_str_t));
    p->parent.cls = SPIF_CLASS(SPIF_STRCLASS_VAR(str));
    p->len = nondet_long(); p->size = nondet_long();
    __CPROVER_assume(p->len >= 0 && p->len < p->size && p->size <= UCAP);
    p->s = malloc(p->size);
    p->s[p->len] = 0;
    return p;
}
static void rm_comp(spif_str_t p) { if (p) { free(p->s); free(p); } }

/* byte k of the canonical concatenation, by cases (k < total) */
static spif_char_t expect_at(spif_url_t u, size_t k)
{
    if (k < O1(u)) return (k < LEN0(u->proto)) ? u->proto->s[k] : ':';
    if (k < O2(u)) return '/';
    if (k < O3(u)) {
        size_t j = k - O2(u);
        if (j < LEN0(u->user)) return u->user->s[j];
        if (u->passwd) {
            if (j == LEN0(u->user)) return ':';
            if (j < LEN0(u->user) + 1 + LEN0(u->passwd)) return u->passwd->s[j - LEN0(u->user) - 1];
        }
        return '@';
    }
    if (k < O4(u)) {
        size_t j = k - O3(u);
        if (j < LEN0(u->host)) return u->host->s[j];
        if (j == LEN0(u->host)) return ':';
        return u->port->s[j - LEN0(u->host) - 1];
    }
    if (k < O5(u)) return u->path->s[k - O4(u)];
    if (k == O5(u)) return '?';
    return u->query->s[k - O5(u) - 1];
}

void harness(void)
{
    /* any URL object: text in either legal state, every component absent or present */
    libast_debug_level = nondet_uint();          /* every run-time debug level */
    spif_url_t u = malloc(sizeof(spif_const_url_t));
    spif_class_t cls0 = SPIF_CLASS_VAR(url) = &u_class;
    SPIF_STRCLASS_VAR(str) = (spif_strclass_t) nondet_ptr();
    NSTR(u)->parent.cls = cls0;
    if (nondet_bool()) {
        NSTR(u)->s = NULL; NSTR(u)->len = 0; NSTR(u)->size = 0;
    } else {
        NSTR(u)->len = nondet_long(); NSTR(u)->size = nondet_long();
        __CPROVER_assume(NSTR(u)->len >= 0 && NSTR(u)->len < NSTR(u)->size && NSTR(u)->size <= UCAP);
        NSTR(u)->s = malloc(NSTR(u)->size);
    }
    u->proto = mk_comp(); u->user = mk_comp(); u->passwd = mk_comp(); u->host = mk_comp();
    u->port = mk_comp(); u->path = mk_comp(); u->query = mk_comp();
    spif_const_url_t before = *u;
    size_t lens[7] = { LEN0(u->proto), LEN0(u->user), LEN0(u->passwd), LEN0(u->host), LEN0(u->port), LEN0(u->path), LEN0(u->query) };
    spif_char_t probe = 0; spif_str_t probed = NULL; size_t pk = nondet_size_t();     /* a byte of some component */
    if (u->path && pk < (size_t) u->path->len) { probed = u->path; probe = u->path->s[pk]; }
    vg_view_of = NSTR(u); vg_cls_writes = 0;

    spif_bool_t r = spif_url_unparse(u);

#ifdef U_FRAME
    __CPROVER_assert(r == TRUE, "unparse returns TRUE");
    /* frame: components not re-seated, their lengths and (probed) bytes unchanged */
    __CPROVER_assert(u->proto == before.proto && u->user == before.user && u->passwd == before.passwd &&
                     u->port == before.port && u->path == before.path && u->query == before.query,
                     "unparse leaves the component pointers alone");
    __CPROVER_assert(LEN0(u->proto) == lens[0] && LEN0(u->user) == lens[1] && LEN0(u->passwd) == lens[2] &&
                     LEN0(u->port) == lens[4] && LEN0(u->path) == lens[5] && LEN0(u->query) == lens[6],
                     "unparse leaves the component lengths alone");
    __CPROVER_assert(probed == NULL || probed->s[pk] == probe, "unparse leaves component bytes alone");
    /* host rule */
    if (before.host == NULL && before.port != NULL) {
        __CPROVER_assert(u->host != NULL && u->host != before.port && u->host->len == 9 && u->host->s[9] == 0,
                         "port without host: host becomes a new 9-character string");
        __CPROVER_assert(!(vg_k2 < 9) || u->host->s[vg_k2] == "localhost"[vg_k2], "port without host: host is \"localhost\"");
    } else {
        __CPROVER_assert(u->host == before.host && LEN0(u->host) == lens[3], "host otherwise unchanged");
    }
#endif
#ifdef U_LENGTH
    /* text: length = sum of present parts and their separators; capacity above it; buffer present */
    __CPROVER_assert((size_t) NSTR(u)->len == O6(u), "text length is the sum of the present components and their separators");
    __CPROVER_assert(NSTR(u)->len < NSTR(u)->size && NSTR(u)->s != NULL, "text has room for its terminator");
#endif
#ifdef U_TEXT
    /* text: byte vg_k (arbitrary) is the byte of the canonical concatenation */
    if (vg_k < O6(u))
        __CPROVER_assert(vg_view == expect_at(u, vg_k), "text byte vg_k is the byte of the canonical concatenation");
#endif
#ifdef U_FRAME
    /* class: a URL stays a URL (C05 type()) */
    __CPROVER_assert(NSTR(u)->parent.cls == cls0, "unparse leaves the object's class alone");
#endif
    VERIF_CANARY();
    /* ownership: deleting what the caller owns leaves nothing behind (--memory-leak-check) */
    free(NSTR(u)->s);
    rm_comp(u->proto); rm_comp(u->user); rm_comp(u->passwd); rm_comp(u->host);
    rm_comp(u->port); rm_comp(u->path); rm_comp(u->query);
    free(u);
}
