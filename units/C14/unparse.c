/* C14: spif_url_unparse rebuilds the canonical text
 *      [proto ":"] ["//" if host] [user [":" passwd] "@"] [host [":" port]] [path] ["?" query]
 * from the components that are present (a port without a host gets the host "localhost").
 *
 * The specification is the ITEM SEQUENCE the harness builds from the components (function canon()): the present
 * items in canonical order, each a component text, a separator character or the literal "//"; a separator is an
 * item iff its component is present.  Claim: the text after unparse is the concatenation of the items.
 *
 * Tier P: the function is loop-free, nothing is unwound (the harness' own loop over the 13 item slots has a constant
 * bound), every length is symbolic (< VCAP/16 per part).
 * PLAIN HARNESS (no DFCC enforce/replace): 16 replaced str calls on one path made the DFCC instance 8-14 M SAT
 * variables (> 10 GB, > 600 s).  The str calls are the GHOST-VIEW MODELS below = the NET_STR_VIEW contracts of
 * contracts/url.h written as code: each model asserts the contract's `requires`, then produces the effects the
 * contract's `ensures` describes (length, capacity, buffer re-seated: old block freed, new block allocated; the byte
 * at ghost index vg_k of the text under construction is tracked in vg_view).  Each append model also checks - and
 * then may use - that it continues the item sequence: it is append number j, the text is seq_start[j] long and the
 * appended piece is item j (cut: without it the solver has to relate two differently associated chains of 64-bit
 * additions, which did not finish).  What is proved is "as far as the assumed str contracts allow":
 *   unparse.items   every append continues the item sequence (position, length), exactly the items are appended (a
 *                   separator iff its component), so the length is the sum of the items; capacity stays above it
 *   unparse.text    byte vg_k (arbitrary) of the text is the byte of the concatenation of the items
 *   unparse.frame   no str call outside its assumed precondition (never an append on the (NULL,0,0) state); components
 *                   neither modified nor re-seated, except host in the localhost case; the object keeps its class
 *                   (C05 type()); nothing freed twice / used after free / leaked
 * Native replay (native: self): the same harness natively with the REAL str.c (no models), component presence and
 * lengths from the witness, texts filled with patterns; the real text is compared with the item concatenation.
 */
/*@unit
name: unparse.frame
define: U_FRAME, NET_CSTR_LITERALS, VERIF_NO_ASSUMED_STR_CONTRACTS
src: url.c
backend: cadical
timeout: 300
native: self
flags: --memory-leak-check
funcs: spif_url_unparse, spif_obj_set_class, spif_str_done, spif_str_init_from_ptr, spif_str_append, spif_str_append_char, spif_str_append_from_ptr, spif_str_new_from_ptr
*/
/*@unit
name: unparse.items
define: U_TEXT, U_ITEMS, NET_CSTR_LITERALS, VERIF_NO_ASSUMED_STR_CONTRACTS
src: url.c
backend: cadical
timeout: 300
native: self
funcs: spif_url_unparse
*/
/*@unit
name: unparse.text
define: U_TEXT, U_VIEW, NET_CSTR_LITERALS, VERIF_NO_ASSUMED_STR_CONTRACTS
src: url.c
backend: cadical
timeout: 300
native: self
funcs: spif_url_unparse
*/
#include "vprelude.h"
#include "env_net.h"
#include "url.h"

/* ---- the item sequence (specification) ------------------------------------------------------------ */
#define NITEM 13
/* slot numbers in canonical order */
enum { I_PROTO, I_PROTO_COLON, I_SLASHES, I_USER, I_PW_COLON, I_PW, I_AT, I_HOST, I_PORT_COLON, I_PORT, I_PATH, I_QM, I_QUERY };
typedef struct { _Bool present; const char *src; size_t n; } item_t;     /* n bytes at src, if present */
item_t seq[NITEM]; size_t seq_start[NITEM + 1];
static const char LIT_COLON[] = ":", LIT_SLASHES[] = "//", LIT_AT[] = "@", LIT_QM[] = "?", LIT_LOCALHOST[] = "localhost";
#define ITEM(i, p, s_, n_) do { seq[i].present = (p); seq[i].src = (s_); seq[i].n = (n_); \
                                seq_start[(i) + 1] = seq_start[i] + (seq[i].present ? seq[i].n : 0); } while (0)
#define TXT_OF(p) ((p) ? (const char *) (p)->s : (const char *) 0)
#define LEN0(p)   ((p) ? (size_t) (p)->len : (size_t) 0)
/* canonical order; a separator iff its component; a port without a host brings the host "localhost" */
static void canon(spif_url_t u)
{
    _Bool lh = (u->host == NULL && u->port != NULL), host = (u->host != NULL) || lh;
    seq_start[0] = 0;
    ITEM(I_PROTO, u->proto != NULL, TXT_OF(u->proto), LEN0(u->proto));
    ITEM(I_PROTO_COLON, u->proto != NULL, LIT_COLON, 1);
    ITEM(I_SLASHES, host, LIT_SLASHES, 2);
    ITEM(I_USER, u->user != NULL, TXT_OF(u->user), LEN0(u->user));
    ITEM(I_PW_COLON, u->user != NULL && u->passwd != NULL, LIT_COLON, 1);
    ITEM(I_PW, u->user != NULL && u->passwd != NULL, TXT_OF(u->passwd), LEN0(u->passwd));
    ITEM(I_AT, u->user != NULL, LIT_AT, 1);
    ITEM(I_HOST, host, lh ? LIT_LOCALHOST : TXT_OF(u->host), lh ? 9 : LEN0(u->host));
    ITEM(I_PORT_COLON, host && u->port != NULL, LIT_COLON, 1);
    ITEM(I_PORT, host && u->port != NULL, TXT_OF(u->port), LEN0(u->port));
    ITEM(I_PATH, u->path != NULL, TXT_OF(u->path), LEN0(u->path));
    ITEM(I_QM, u->query != NULL, LIT_QM, 1);
    ITEM(I_QUERY, u->query != NULL, TXT_OF(u->query), LEN0(u->query));
}

#ifndef VERIF_NATIVE
/* ---- ghost-view models of the assumed str contracts ------------------------------------------- */
spif_str_t vg_view_of;      /* the str whose text is observed (the URL's own text) */
spif_char_t vg_view;        /* byte vg_k of that text, meaningful while vg_k < len */
_Bool vg_done[NITEM];       /* item i has been appended */
int vg_last;                /* slot of the last append (-1: none yet) */
spif_url_t vg_u;            /* the URL object (to recognise which component is being appended) */
_Bool vg_lh;                /* the host item is the literal "localhost" (its text lives in a new object) */
/* which item a call appends, recognised from its argument and from what was appended last (each call site of
 * spif_url_unparse appends one fixed item; the index is concrete on every path, so the tables are read at constants) */
static int slot_of_str(spif_str_t other)
{
    if (other == vg_u->proto) return I_PROTO;   if (other == vg_u->user) return I_USER;   if (other == vg_u->passwd) return I_PW;
    if (other == vg_u->host) return I_HOST;     if (other == vg_u->port) return I_PORT;   if (other == vg_u->path) return I_PATH;
    if (other == vg_u->query) return I_QUERY;
    return -1;
}
static int slot_of_char(spif_char_t c)
{
    if (c == '@') return I_AT;
    if (c == '?') return I_QM;
    if (c == ':') return (vg_last == I_PROTO) ? I_PROTO_COLON : (vg_last == I_USER) ? I_PW_COLON : (vg_last == I_HOST) ? I_PORT_COLON : -1;
    return -1;
}

/* cut: a fact the model's own arithmetic establishes is asserted and then assumed, so that the
 * solver need not re-derive it through the whole chain of additions (sound: the assert is checked) */
#define M_CUT(c, txt) do { __CPROVER_assert((c), txt); __CPROVER_assume(c); } while (0)
/* the byte this append puts at ghost position vg_k is the byte the item has there (by the assumed contracts later
 * appends keep it: vg_view is not assigned again, vg_written counts the assignments) */
#define M_BYTE(i_, expected) __CPROVER_assert(vg_view == (expected), "text byte vg_k is the byte of the concatenation of the items")
unsigned vg_written;
#define M_STATE_OK(p) ((p) != NULL && (p)->s != NULL && (p)->len >= 0 && (p)->len < (p)->size && (p)->size <= VCAP)
/* this append is item i_: it starts where the item starts and appends the item's n bytes */
#define M_ITEM(i_, n_) do { M_CUT((i_) >= 0 && (i_) < NITEM && seq[i_].present && !vg_done[i_], "each append is an item of the canonical text, appended once"); \
    M_CUT((size_t) self->len == seq_start[i_] && (size_t) (n_) == seq[i_].n, \
          "each append continues the canonical text: it starts at the item's offset and has the item's length"); \
    vg_done[i_] = 1; vg_last = (i_); } while (0)

/* obj.c:386 (trivial setter, written out) */
spif_bool_t spif_obj_set_class(spif_obj_t self, spif_class_t cls)
{
    __CPROVER_assert(self != NULL, "requires of spif_obj_set_class");
    self->cls = cls;
    return TRUE;
}
spif_bool_t spif_str_done(spif_str_t self)
{
    __CPROVER_assert(self != NULL && (self->size == 0 || self->s != NULL), "requires of spif_str_done");
    if (self->size != 0) {
        free(self->s);
        self->s = NULL; self->len = 0; self->size = 0;
    }
    return TRUE;
}
spif_bool_t spif_str_init_from_ptr(spif_str_t self, spif_charptr_t old)
{
    __CPROVER_assert(self != NULL && VCSTR_OK(old), "requires of spif_str_init_from_ptr");
    self->parent.cls = SPIF_CLASS(SPIF_STRCLASS_VAR(str));          /* str.c:186 re-stamps the class */
    self->len = VCSTR_SHORT_LEN(old);
    self->size = self->len + 1;
    self->s = malloc(self->size);
    if (self == vg_view_of && vg_k < (size_t) self->len) vg_view = old[vg_k];
    return TRUE;
}
spif_str_t spif_str_new_from_ptr(spif_charptr_t old)
{
    __CPROVER_assert(VCSTR_OK(old), "requires of spif_str_new_from_ptr");
    spif_str_t r = malloc(sizeof(spif_const_str_t));
    r->parent.cls = SPIF_CLASS(SPIF_STRCLASS_VAR(str));
    r->len = VCSTR_SHORT_LEN(old);
    r->size = r->len + 1;
    r->s = malloc(10);                                              /* short literal: copied byte for byte */
    __CPROVER_assert(r->size <= 10, "model: short literal");
    r->s[0] = old[0]; if (r->len > 0) r->s[1] = old[1]; if (r->len > 1) r->s[2] = old[2]; if (r->len > 2) r->s[3] = old[3];
    if (r->len > 3) r->s[4] = old[4]; if (r->len > 4) r->s[5] = old[5]; if (r->len > 5) r->s[6] = old[6];
    if (r->len > 6) r->s[7] = old[7]; if (r->len > 7) r->s[8] = old[8]; if (r->len > 8) r->s[9] = old[9];
    return r;
}
spif_bool_t spif_str_append(spif_str_t self, spif_str_t other)
{
    __CPROVER_assert(M_STATE_OK(self), "requires of spif_str_append: self in the non-empty state");
    __CPROVER_assert(M_STATE_OK(other) && other->s[other->len] == 0, "requires of spif_str_append: other valid");
    __CPROVER_assert(self == vg_view_of, "view model: the appended-to string is the observed one");
    int it = slot_of_str(other);
    M_ITEM(it, other->len);
    if (other->len != 0) {
        spif_stridx_t olen = self->len;
        self->size += other->size - 1;
        free(self->s);
        self->s = malloc(self->size);
        self->len += other->len;
        if (vg_k >= (size_t) olen && vg_k < (size_t) self->len) {
            vg_view = other->s[vg_k - (size_t) olen]; vg_written++;
            M_BYTE(it, (vg_lh && it == I_HOST) ? LIT_LOCALHOST[vg_k - seq_start[it]] : seq[it].src[vg_k - seq_start[it]]);
        }
    }
    M_CUT(self->len < self->size, "ensures of spif_str_append: terminator fits");
    return TRUE;
}
spif_bool_t spif_str_append_char(spif_str_t self, spif_char_t c)
{
    __CPROVER_assert(M_STATE_OK(self) && self->size < VCAP, "requires of spif_str_append_char: self in the non-empty state");
    __CPROVER_assert(self == vg_view_of, "view model: the appended-to string is the observed one");
    int it = slot_of_char(c);
    M_ITEM(it, 1);
    self->len++;
    if (self->size <= self->len) {
        self->size++;
        free(self->s);
        self->s = malloc(self->size);
    }
    if (vg_k == (size_t) self->len - 1) { vg_view = c; vg_written++; M_BYTE(it, seq[it].src[0]); }
    M_CUT(self->len < self->size, "ensures of spif_str_append_char: terminator fits");
    return TRUE;
}
spif_bool_t spif_str_append_from_ptr(spif_str_t self, spif_charptr_t other)
{
    __CPROVER_assert(M_STATE_OK(self), "requires of spif_str_append_from_ptr: self in the non-empty state");
    __CPROVER_assert(VCSTR_OK(other), "requires of spif_str_append_from_ptr: other is a C string");
    __CPROVER_assert(self == vg_view_of, "view model: the appended-to string is the observed one");
    spif_stridx_t n = VCSTR_SHORT_LEN(other);
    M_ITEM(I_SLASHES, n);
    M_CUT(n == 2 && other[0] == '/' && other[1] == '/', "each append continues the canonical text: the appended literal is \"//\"");
    if (n != 0) {
        spif_stridx_t olen = self->len;
        self->size += n;
        free(self->s);
        self->s = malloc(self->size);
        self->len += n;
        if (vg_k >= (size_t) olen && vg_k < (size_t) self->len) { vg_view = other[vg_k - (size_t) olen]; vg_written++; M_BYTE(I_SLASHES, LIT_SLASHES[vg_k - seq_start[I_SLASHES]]); }
    }
    M_CUT(self->len < self->size, "ensures of spif_str_append_from_ptr: terminator fits");
    return TRUE;
}
# include "src/url.c"
#else
# include "rawsrc/url.c"
#endif

#ifndef VCAP
# define VCAP 0x3fffffffL          /* (native replay: env.h is not included) */
#endif
#define UCAP (VCAP / 16)
/* one component: absent, or a str with a buffer of symbolic size holding a terminated text
 * (inputs come from harness() through VND; natively the texts get a recognisable pattern and lengths are capped) */
#define NAT_CAP 64
static spif_str_t mk_comp(_Bool has, long len, long size, char pat)
{
    spif_str_t p; long i;
    if (!has) return NULL;
    p = malloc(sizeof(spif_const_str_t));
    p->parent.cls = SPIF_CLASS(SPIF_STRCLASS_VAR(str));
    p->len = len; p->size = size;
    __CPROVER_assume(p->len >= 0 && p->len < p->size && p->size <= UCAP);
#ifdef VERIF_NATIVE              /* the witness' lengths may be huge: replay the same shape with short texts */
    if (len > NAT_CAP / 2) len = NAT_CAP / 2 - (len % 7);
    if (size - p->len > NAT_CAP / 2) size = len + 1 + (size % 5); else size = len + (size - p->len);
    p->len = len; p->size = size;
#endif
    p->s = malloc(p->size);
#ifdef VERIF_NATIVE
    for (i = 0; i < len; i++) p->s[i] = (char) (pat + i % 10);
#endif
    p->s[p->len] = 0;
    return p;
}
#define ANY_COMP(n, pat) mk_comp(VND(bool, has_ ## n), VND(long, len_ ## n), VND(long, size_ ## n), pat)
static void rm_comp(spif_str_t p) { if (p) { free(p->s); free(p); } }

void harness(void)
{
    /* any URL object: text in either legal state, every component absent or present */
    libast_debug_level = VND(uint, debug_level);          /* every run-time debug level */
    spif_url_t u = malloc(sizeof(spif_const_url_t));
#ifdef VERIF_NATIVE
    spif_class_t cls0 = SPIF_CLASS_VAR(url);
#else
    spif_class_t cls0 = SPIF_CLASS_VAR(url) = &u_class;
    SPIF_STRCLASS_VAR(str) = (spif_strclass_t) nondet_ptr();
#endif
    NSTR(u)->parent.cls = cls0;
    if (VND(bool, text_empty)) {
        NSTR(u)->s = NULL; NSTR(u)->len = 0; NSTR(u)->size = 0;
    } else {
        spif_str_t t = mk_comp(1, VND(long, len_text), VND(long, size_text), 'T');
        NSTR(u)->s = t->s; NSTR(u)->len = t->len; NSTR(u)->size = t->size; free(t);
    }
    u->proto = ANY_COMP(proto, 'a'); u->user = ANY_COMP(user, 'b'); u->passwd = ANY_COMP(passwd, 'c'); u->host = ANY_COMP(host, 'd');
    u->port = ANY_COMP(port, '0'); u->path = ANY_COMP(path, 'e'); u->query = ANY_COMP(query, 'f');
    spif_const_url_t before = *u;
    size_t lens[7] = { LEN0(u->proto), LEN0(u->user), LEN0(u->passwd), LEN0(u->host), LEN0(u->port), LEN0(u->path), LEN0(u->query) };
    spif_char_t probe = 0; spif_str_t probed = NULL; size_t pk = VND(size_t, probe_k);     /* a byte of some component */
    if (u->path && pk < (size_t) u->path->len) { probed = u->path; probe = u->path->s[pk]; }
    canon(u);                                             /* the specification: items of the canonical text */
    vg_k = VND(size_t, k); vg_k2 = VND(size_t, k2);
#ifndef VERIF_NATIVE
    vg_view_of = NSTR(u); vg_u = u; vg_last = -1; vg_written = 0; vg_lh = (u->host == NULL && u->port != NULL);
    { unsigned j; for (j = 0; j < NITEM; j++) vg_done[j] = 0; }
#endif

    spif_bool_t r = spif_url_unparse(u);

#ifdef U_FRAME
    __CPROVER_assert(r == TRUE, "unparse returns TRUE");
    /* frame: components not re-seated, their lengths and (probed) bytes unchanged */
    __CPROVER_assert(u->proto == before.proto && u->user == before.user && u->passwd == before.passwd &&
                     u->port == before.port && u->path == before.path && u->query == before.query,
                     "unparse leaves the component pointers alone");
    __CPROVER_assert(LEN0(u->proto) == lens[0] && LEN0(u->user) == lens[1] && LEN0(u->passwd) == lens[2] &&
                     LEN0(u->port) == lens[4] && LEN0(u->path) == lens[5] && LEN0(u->query) == lens[6],
                     "unparse leaves the component lengths alone");
    __CPROVER_assert(probed == NULL || probed->s[pk] == probe, "unparse leaves component bytes alone");
    /* host rule */
    if (before.host == NULL && before.port != NULL) {
        __CPROVER_assert(u->host != NULL && u->host != before.port && u->host->len == 9 && u->host->s[9] == 0,
                         "port without host: host becomes a new 9-character string");
        __CPROVER_assert(!(vg_k2 < 9) || u->host->s[vg_k2] == "localhost"[vg_k2], "port without host: host is \"localhost\"");
    } else {
        __CPROVER_assert(u->host == before.host && LEN0(u->host) == lens[3], "host otherwise unchanged");
    }
    /* class: a URL stays a URL (C05 type()) */
    __CPROVER_assert(NSTR(u)->parent.cls == cls0, "unparse leaves the object's class alone");
#endif
#ifdef U_TEXT
    /* text = concatenation of the items */
# if defined(U_ITEMS) || defined(VERIF_NATIVE)
    __CPROVER_assert((size_t) NSTR(u)->len == seq_start[NITEM], "text length is the sum of the items (present components and their separators)");
    __CPROVER_assert(NSTR(u)->len < NSTR(u)->size && NSTR(u)->s != NULL, "text has room for its terminator");
# endif
# ifdef VERIF_NATIVE
    {
        unsigned j; size_t i;
        for (j = 0; j < NITEM; j++)
            for (i = 0; seq[j].present && i < seq[j].n && seq_start[j] + i < (size_t) NSTR(u)->len; i++)
                __CPROVER_assert(NSTR(u)->s[seq_start[j] + i] == seq[j].src[i], "text byte vg_k is the byte of the concatenation of the items");
        __CPROVER_assert(NSTR(u)->s[NSTR(u)->len] == 0, "text byte vg_k is the byte of the concatenation of the items");
    }
# else
    {
        unsigned j;
#  ifdef U_ITEMS
        for (j = 0; j < NITEM; j++)
            __CPROVER_assert(vg_done[j] == seq[j].present, "unparse appends exactly the items of the canonical text (a separator iff its component)");
#  endif
#  ifdef U_VIEW
        /* every position below the final length was written by exactly one append (whose byte was checked there) */
        __CPROVER_assert(vg_written == ((vg_k < (size_t) NSTR(u)->len) ? 1u : 0u), "text byte vg_k is the byte of the concatenation of the items: written once iff inside the text");
#  endif
    }
# endif
#endif
    VERIF_CANARY();
    /* ownership: deleting what the caller owns leaves nothing behind (--memory-leak-check) */
    free(NSTR(u)->s);
    rm_comp(u->proto); rm_comp(u->user); rm_comp(u->passwd); rm_comp(u->host);
    rm_comp(u->port); rm_comp(u->path); rm_comp(u->query);
    free(u);
}
