/* C11: spiftool_temp_file (src/file.c) creates its file through mkstemp with a template ending in
 * XXXXXX under umask 077, restores the umask, forces mode 0600 on the descriptor it returns, returns
 * -1 otherwise, writes at most len bytes (NUL-terminated) back into ftemplate and spawns nothing.
 * Environment: getenv / umask / mkstemp / fchmod stubs of contracts/env_conf.h (they record their
 * arguments in the ghost group vg_tf); snprintf per man page (arbitrary text, NUL within 256 bytes). */

/*@unit
name: temp_file
define: VERIF_OWN_STRCMP, VERIF_OWN_STRCHR
src: file.c
enforce: spiftool_temp_file
backend: sat
timeout: 300
native: c11_replay
native_includes: conf.c
*/
#include "vprelude.h"
#include "env_conf.h"

/* spiftool_safe_strncpy (strings.c; proved in C13.safe_strncpy): model = its contract.
 *   requires size > 0, dest holds size bytes, src a C string;  assigns the size bytes at dest;
 *   ensures dest NUL-terminated within size bytes; TRUE/FALSE */
spif_bool_t spiftool_safe_strncpy(spif_charptr_t dest, const spif_charptr_t src, spif_int32_t size)
{
    __CPROVER_assert(size > 0 && __CPROVER_w_ok(dest, (size_t) size), "safe_strncpy contract: size > 0, dest holds size bytes");
    __CPROVER_assert(src != NULL && __CPROVER_r_ok(src, 1), "safe_strncpy contract: src readable");
    __CPROVER_assume(size > 0);
    __CPROVER_havoc_slice(dest, (size_t) size);
    size_t n = nondet_size_t();
    __CPROVER_assume(n < (size_t) size);
    dest[n] = 0;
    vg_tpl_len = n;
    return nondet_bool() ? TRUE : FALSE;
}

#include "src/file.c"

int spiftool_temp_file(spif_charptr_t ftemplate, size_t len)
__CPROVER_requires(len >= 1 && len <= VCAP && __CPROVER_is_fresh(ftemplate, len) && vg_n1 < len && ftemplate[vg_n1] == 0)
__CPROVER_requires(vg_mkstemp_calls < 1000 && vg_fchmod_calls < 1000 && vg_umask_calls < 1000)
__CPROVER_assigns(__CPROVER_object_whole(ftemplate), vg_tf)
/* exactly one mkstemp, under umask 077; the umask is restored */
__CPROVER_ensures(vg_mkstemp_calls == __CPROVER_old(vg_mkstemp_calls) + 1 && vg_mkstemp_umask == 0077)
__CPROVER_ensures(vg_umask_cur == __CPROVER_old(vg_umask_cur))
/* a descriptor is returned only if it is the one mkstemp created from a template ending in XXXXXX and
 * fchmod(fd, 0600) succeeded on it as the last mode change; -1 otherwise */
__CPROVER_ensures(__CPROVER_return_value == -1 ||
                  (__CPROVER_return_value >= 0 && __CPROVER_return_value == vg_mkstemp_fd && vg_mkstemp_tpl_ok &&
                   vg_fchmod_calls == __CPROVER_old(vg_fchmod_calls) + 1 &&
                   vg_fchmod_fd == __CPROVER_return_value && vg_fchmod_mode == (S_IRUSR | S_IWUSR)))
/* the name handed back is NUL-terminated inside the caller's len bytes */
__CPROVER_ensures(__CPROVER_return_value == -1 || (vg_tpl_len < len && ftemplate[vg_tpl_len] == 0))
;

void harness(void)
{
    spif_charptr_t ft; size_t len;
    vg_umask_cur &= 0777;
    spiftool_temp_file(ft, len);
    VERIF_CANARY();
}
