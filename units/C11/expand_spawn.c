/* C11, spawn freedom of value expansion (owner expand; built on the tier B harness of units/C10/expand_b.c):
 * "text that contains neither a backquote nor an %exec/%preproc directive never causes a process to be spawned".
 *
 * The REAL spifconf_shell_expand and the REAL builtin_exec (conf.c), loops unwound; the built-in table holds
 * exec -> builtin_exec and the abstract built-in a; spiftool_temp_file succeeds or fails, and system(), popen(),
 * fork() and the exec* family only count (vg_spawned).  Obligation: vg_spawned == 0 after the call whenever the
 * text holds no back-quote and no "%exec" (any case).  Inputs: <= 8 characters; the structural characters of a
 * shape are fixed, each ? ranges over {a, e, x, c, space} (fully symbolic texts with a symbolic % do not fit
 * into cbmc: every symbolic position unrolls two recursive expansions), plus a list of concrete texts.
 * %preproc is not a matter of spifconf_shell_expand (spifconf_parse_line, owner conf).
 * No native replay: natively a reproduced violation would run the command. */
/*@unit
name: expand_spawn_cases
define: U_SPAWN, A_SPACE, A_EXEC, SPAWN_CASES=CASELIST, NMAX=8, BUFF=32, VERIF_EXACT_LIBC, VERIF_OWN_STRLEN, VERIF_OWN_STRCMP, VERIF_OWN_STRDUP, VERIF_OWN_STRCHR
src: conf.c
tier: B
bound: 20 concrete texts of <= 8 characters without back-quote and without %exec (near misses of the directive, the "name )" call form, names of 4 characters followed by " )"); line-buffer limit CONFIG_BUFF scaled to 32 bytes (stated re-binding, see units/C10/expand_b.c)
unwind: 10
flags: --unwindset strlen.0:14,strcpy.0:14,strcat.0:14,vb_a.0:12,spiftool_safe_strncpy.0:12,mk_str.0:6,strncasecmp.0:6,spifconf_shell_expand:2,spifconf_shell_expand.7:3,spifconf_shell_expand.10:8,spifconf_shell_expand.15:1,spifconf_shell_expand.21:1,spifconf_shell_expand.22:1,spifconf_shell_expand.23:1,spifconf_shell_expand.28:9,spifconf_shell_expand.29:9,has_exec_directive.0:9,check_spawn.0:34,check_spawn.1:34,harness.0:24,harness.1:24,harness.2:24,check_spawn.2:34
objbits: 10
backend: sat
timeout: 900
mem: 12
quick: yes
funcs: spifconf_shell_expand, builtin_exec
*/
/*@unit
name: expand_spawn_name1
define: U_SPAWN, A_SPACE, A_EXEC, SHAPE="%exe? ))", NMAX=8, BUFF=32, VERIF_EXACT_LIBC, VERIF_OWN_STRLEN, VERIF_OWN_STRCMP, VERIF_OWN_STRDUP, VERIF_OWN_STRCHR
src: conf.c
tier: B
bound: texts of the shape %exe? )) (only %exec )) may spawn) -- each ? any of {a, e, x, c, space}; line-buffer limit CONFIG_BUFF scaled to 32 bytes (stated re-binding, see units/C10/expand_b.c)
unwind: 10
flags: --unwindset strlen.0:14,strcpy.0:14,strcat.0:14,vb_a.0:12,spiftool_safe_strncpy.0:12,mk_str.0:6,strncasecmp.0:6,spifconf_shell_expand:1,spifconf_shell_expand.7:3,spifconf_shell_expand.10:8,spifconf_shell_expand.15:1,spifconf_shell_expand.21:1,spifconf_shell_expand.22:1,spifconf_shell_expand.23:1,spifconf_shell_expand.28:9,spifconf_shell_expand.29:9,has_exec_directive.0:9,check_spawn.0:9,check_spawn.1:10
objbits: 10
backend: sat
timeout: 900
mem: 12
quick: yes
funcs: spifconf_shell_expand, builtin_exec
*/
/*@unit
name: expand_spawn_name2
define: U_SPAWN, A_SPACE, A_EXEC, SHAPE="%a??a ))", NMAX=8, BUFF=32, VERIF_EXACT_LIBC, VERIF_OWN_STRLEN, VERIF_OWN_STRCMP, VERIF_OWN_STRDUP, VERIF_OWN_STRCHR
src: conf.c
tier: B
bound: texts of the shape %a??a )) -- each ? any of {a, e, x, c, space}; line-buffer limit CONFIG_BUFF scaled to 32 bytes (stated re-binding, see units/C10/expand_b.c)
unwind: 10
flags: --unwindset strlen.0:14,strcpy.0:14,strcat.0:14,vb_a.0:12,spiftool_safe_strncpy.0:12,mk_str.0:6,strncasecmp.0:6,spifconf_shell_expand:1,spifconf_shell_expand.7:3,spifconf_shell_expand.10:8,spifconf_shell_expand.15:1,spifconf_shell_expand.21:1,spifconf_shell_expand.22:1,spifconf_shell_expand.23:1,spifconf_shell_expand.28:9,spifconf_shell_expand.29:9,has_exec_directive.0:9,check_spawn.0:9,check_spawn.1:10
objbits: 10
backend: sat
timeout: 900
mem: 12
quick: no
funcs: spifconf_shell_expand, builtin_exec
*/
/*@unit
name: expand_spawn_name4
define: U_SPAWN, A_SPACE, A_EXEC, SHAPE="%???? ))", NMAX=8, BUFF=32, VERIF_EXACT_LIBC, VERIF_OWN_STRLEN, VERIF_OWN_STRCMP, VERIF_OWN_STRDUP, VERIF_OWN_STRCHR
src: conf.c
tier: B
bound: texts of the shape %???? )) -- each ? any of {a, e, x, c, space}; line-buffer limit CONFIG_BUFF scaled to 32 bytes (stated re-binding, see units/C10/expand_b.c)
unwind: 10
flags: --unwindset strlen.0:14,strcpy.0:14,strcat.0:14,vb_a.0:12,spiftool_safe_strncpy.0:12,mk_str.0:6,strncasecmp.0:6,spifconf_shell_expand:1,spifconf_shell_expand.7:3,spifconf_shell_expand.10:8,spifconf_shell_expand.15:1,spifconf_shell_expand.21:1,spifconf_shell_expand.22:1,spifconf_shell_expand.23:1,spifconf_shell_expand.28:9,spifconf_shell_expand.29:9,has_exec_directive.0:9,check_spawn.0:9,check_spawn.1:10
objbits: 10
backend: sat
timeout: 900
mem: 12
quick: no
funcs: spifconf_shell_expand, builtin_exec
*/
/*@unit
name: expand_spawn_call
define: U_SPAWN, A_SPACE, A_EXEC, SHAPE="%e??c(a)", NMAX=8, BUFF=32, VERIF_EXACT_LIBC, VERIF_OWN_STRLEN, VERIF_OWN_STRCMP, VERIF_OWN_STRDUP, VERIF_OWN_STRCHR
src: conf.c
tier: B
bound: texts of the shape %e??c(a) -- each ? any of {a, e, x, c, space}: the regular call form; %exec(a) may spawn, every other name must not; line-buffer limit CONFIG_BUFF scaled to 32 bytes (stated re-binding, see units/C10/expand_b.c)
unwind: 10
flags: --unwindset strlen.0:14,strcpy.0:14,strcat.0:14,vb_a.0:12,spiftool_safe_strncpy.0:12,mk_str.0:6,strncasecmp.0:6,spifconf_shell_expand:1,spifconf_shell_expand.7:3,spifconf_shell_expand.10:8,spifconf_shell_expand.15:1,spifconf_shell_expand.21:1,spifconf_shell_expand.22:1,spifconf_shell_expand.23:1,spifconf_shell_expand.28:9,spifconf_shell_expand.29:9,has_exec_directive.0:9,check_spawn.0:9,check_spawn.1:10
objbits: 10
backend: sat
timeout: 900
mem: 12
quick: no
funcs: spifconf_shell_expand, builtin_exec
*/
#define CASELIST "%aaaa ))", "%xece ))", "%exe  ))", "exec(a)", "%a(exec)", "%ex ec()", "%a( )", "% exec(a", "%a )a)", "%a(a) )", "e%xec(a)", "%e xec()", "%(exec)", "%%a(a)", "a %a(e)c", "(exec a)", "%a", "%exe", "%exe(a)", "%execa)"
#include "units/C10/expand_b.c"
