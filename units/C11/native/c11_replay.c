/* Native replay for the C11 units: sweeps of small cases on the REAL code (conf.c is included for its file-local
 * state; file.c etc. are linked), judged by ASan/UBSan plus explicit checks.  Exit 3 = a check fails; a sanitizer
 * report aborts.  The witness is not needed: every sweep is total for its small domain.
 *   find_file   file/dir/search-path element lengths around every PATH_MAX boundary, with and without trailing '/'
 *   open_file   empty file, header without newline, wrong magic, header longer than the 256-byte buffer, version forms
 *   temp_file   mode 0600 on the descriptor, unique names, umask restored, small and large name buffers
 *   dirscan     80 regular files with 255-character names (fills the CONFIG_BUFF list buffer exactly)
 *   lifecycle   three init / register / %put / %get / free cycles: no dangling file-local pointer, tables terminated */
#include <libast_internal.h>
#include "vnative.h"
#include "conf.c"
#include <unistd.h>
#include <sys/stat.h>
#include <fcntl.h>

static int bad;
#define CHECK(c, ...) do { if (!(c)) { fprintf(stderr, "NATIVE-REPLAY: " __VA_ARGS__); fprintf(stderr, "\n"); bad = 1; } } while (0)
static spif_charptr_t nop_builtin(spif_charptr_t p) { return NULL; }
static void *nop_handler(spif_charptr_t b, void *s) { return s; }

static char *rep(char c, size_t n) { char *s = malloc(n + 1); memset(s, c, n); s[n] = 0; return s; }

static void sweep_find_file(void)
{
    static const size_t flen[] = { 1, 7, 100 }, dlen[] = { 0, 1, 50 };
    size_t a, b;
    int d, slash, two;
    for (a = 0; a < 3; a++) for (b = 0; b < 3; b++) {
        char *file = rep('f', flen[a]), *dir = dlen[b] ? rep('d', dlen[b]) : NULL;
        size_t namelen = flen[a] + (dlen[b] ? dlen[b] + 1 : 0);
        for (d = -6; d <= 3; d++) for (slash = 0; slash < 2; slash++) for (two = 0; two < 2; two++) {
            size_t el = PATH_MAX - namelen + d;
            char *path = malloc(2 * el + 8);
            memset(path, 'p', el); path[0] = '/';
            if (slash) path[el - 1] = '/';
            path[el] = 0;
            if (two) { path[el] = ':'; memset(path + el + 1, 'q', el); path[el + 1] = '/'; path[2 * el + 1] = 0; }
            CHECK(spifconf_find_file((spif_charptr_t) file, (spif_charptr_t) dir, (spif_charptr_t) path) == NULL,
                  "find_file found a file that does not exist (file %lu dir %lu element %lu)", (unsigned long) flen[a], (unsigned long) dlen[b], (unsigned long) el);
            free(path);
        }
        /* over-long file / dir names are refused */
        { char *big = rep('x', PATH_MAX + 10); CHECK(spifconf_find_file((spif_charptr_t) big, (spif_charptr_t) dir, (spif_charptr_t) "/tmp") == NULL, "find_file accepted an over-long name"); free(big); }
        free(file); free(dir);
    }
}

static void put_file(const char *p, const char *content, size_t n) { FILE *f = fopen(p, "w"); fwrite(content, 1, n, f); fclose(f); }
static void sweep_open_file(void)
{
    const char *p = "/tmp/verif_c11_replay.cfg";
    char big[1200];
    FILE *f;
    static const char *cases[] = { "", "<", "<verif-", "<verif-0>", "<verif-0>\n", "<verif-0.1.2>\nx\n", "<other-1>\n", "<verif>-\n", "<verif->>\n",
                                   "<VERIF-9.9>\n", "no magic\n", "\n", "<verif-0", ">-<verif-0>\n" };
    size_t i;
    for (i = 0; i < sizeof(cases) / sizeof(cases[0]); i++) {
        put_file(p, cases[i], strlen(cases[i]));
        f = spifconf_open_file((spif_charptr_t) p);
        if (f) fclose(f);
    }
    memset(big, 'v', sizeof(big)); memcpy(big, "<verif-", 7); big[sizeof(big) - 1] = '\n';   /* header longer than buff[256] */
    put_file(p, big, sizeof(big));
    f = spifconf_open_file((spif_charptr_t) p); if (f) fclose(f);
    memset(big, 0, 300); put_file(p, big, 300);                                                /* NUL bytes */
    f = spifconf_open_file((spif_charptr_t) p); if (f) fclose(f);
    CHECK(spifconf_open_file((spif_charptr_t) "/nonexistent/verif") == NULL, "open_file opened a file that does not exist");
    unlink(p);
}

static void sweep_temp_file(void)
{
    static const size_t lens[] = { 1, 2, 8, 64, 256, 1000 };
    size_t i;
    char prev[1000] = "";
    for (i = 0; i < sizeof(lens) / sizeof(lens[0]); i++) {
        char *name = malloc(lens[i]);                     /* exactly len bytes: ASan sees any write past them */
        struct stat st;
        mode_t before = umask(022), after;
        int fd;
        umask(before);
        snprintf(name, lens[i], "%s", "verif-c11-");
        fd = spiftool_temp_file((spif_charptr_t) name, lens[i]);
        after = umask(022); umask(after);
        CHECK(before == after, "temp_file changed the umask (%o -> %o)", (unsigned) before, (unsigned) after);
        CHECK(fd >= -1, "temp_file returned %d", fd);
        if (fd >= 0) {
            CHECK(fstat(fd, &st) == 0 && (st.st_mode & 07777) == 0600, "temp file mode is %o, not 0600", (unsigned) (st.st_mode & 07777));
            CHECK(memchr(name, 0, lens[i]) != NULL, "temp_file left the name unterminated");
            if (lens[i] >= 256) {
                CHECK(strcmp(name, prev) != 0, "temp_file handed out the same name twice");
                CHECK(strstr(name, "XXXXXX") == NULL, "temp_file name still holds the XXXXXX template");
                snprintf(prev, sizeof(prev), "%s", name);
                unlink(name);
            }
            close(fd);
        }
        free(name);
    }
    system("rm -f /tmp/verif-c11-??????");
}

static void sweep_dirscan(void)
{
    static char line[CONFIG_BUFF];
    char name[600];
    int i, j;
    system("rm -rf /tmp/verif_c11_dirscan");
    mkdir("/tmp/verif_c11_dirscan", 0700);
    for (i = 0; i < 80; i++) {
        int n = snprintf(name, sizeof(name), "/tmp/verif_c11_dirscan/%02d", i);
        for (j = n; j < 23 + 255; j++) name[j] = 'x';
        name[j] = 0;
        fclose(fopen(name, "w"));
    }
    strcpy(line, "%dirscan(/tmp/verif_c11_dirscan)");
    spifconf_shell_expand((spif_charptr_t) line);
    CHECK(strlen(line) < CONFIG_BUFF, "dirscan result is not terminated inside the line buffer");
    system("rm -rf /tmp/verif_c11_dirscan");
}

static void sweep_lifecycle(void)
{
    int cycle, i;
    for (cycle = 0; cycle < 3; cycle++) {
        static char a[CONFIG_BUFF], b[CONFIG_BUFF], c[CONFIG_BUFF];
        char nm[16];
        spifconf_init_subsystem();
        CHECK(ctx_idx == 0 && ctx_state_idx == 0 && fstate_idx == 0 && builtin_idx == 7, "init_subsystem: indices not reset in cycle %d", cycle);
        CHECK(builtins[builtin_idx].name == NULL, "init_subsystem: built-in table not terminated");
        spifconf_register_context((spif_charptr_t) "foo", nop_handler);
        spifconf_register_context((spif_charptr_t) "null", nop_handler);              /* after another context */
        CHECK(context[0].name && context[1].name && !strcmp((char *) context[1].name, "foo"), "register_context(\"null\") after others damaged the table");
        for (i = 0; i < 30; i++) {                                                      /* across two doublings */
            snprintf(nm, sizeof(nm), "b%d", i);
            spifconf_register_builtin(nm, nop_builtin);
            CHECK(builtins[builtin_idx].name == NULL, "register_builtin: built-in table not terminated after %d registrations", i + 8);
        }
        /* leave a context and a file open: the next cycle's init must start from empty stacks again */
        { static char l[CONFIG_BUFF]; FILE *fp = fopen("/dev/null", "r");
          spifconf_register_fstate(fp, (spif_charptr_t) "x", NULL, 1, 0);
          strcpy(l, "begin foo\n"); spifconf_parse_line(fp, (spif_charptr_t) l); fclose(fp);
          CHECK(ctx_state_idx == 1 && fstate_idx == 1, "begin foo did not open a context"); }
        /* a word that is not a built-in is not called as one (here: 7 characters, a blank and ')' like "appname )") */
        strcpy(c, "%1234567 )"); spifconf_shell_expand((spif_charptr_t) c);
        CHECK(strstr(c, "verif") == NULL, "%%1234567 ) was expanded as a built-in: \"%s\"", c);
        strcpy(a, "%put(a b)"); strcpy(b, "%get(a)"); strcpy(c, "%nosuchfunction(x)");
        spifconf_shell_expand((spif_charptr_t) a);
        spifconf_shell_expand((spif_charptr_t) b);
        CHECK(cycle > 0 || !strcmp(b, "b"), "%%get(a) after %%put(a b) gave \"%s\"", b);
        spifconf_shell_expand((spif_charptr_t) c);
        spifconf_free_subsystem();
        CHECK(spifconf_vars == NULL && context == NULL && ctx_state == NULL && builtins == NULL && fstate == NULL,
              "free_subsystem left a file-local pointer behind in cycle %d", cycle);
    }
}

int main(void)
{
    libast_program_name = (spif_charptr_t) "verif"; libast_program_version = (spif_charptr_t) "0";
    spifconf_init_subsystem();
    sweep_find_file();
    sweep_open_file();
    sweep_temp_file();
    sweep_dirscan();
    spifconf_free_subsystem();
    sweep_lifecycle();
    if (bad) return 3;
    fprintf(stderr, "NATIVE-REPLAY: C11 sweeps passed\n");
    return 0;
}
