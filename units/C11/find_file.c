/* C11: spifconf_find_file never writes outside its two static PATH_MAX buffers and returns NULL or a C string
 * inside one of them.  The length guards at conf.c:737-741, 761-764, 777 are what is being checked: every strcpy /
 * strcat carries the man-page destination-size obligation, memcpy / the direct stores are checked by cbmc itself.
 *
 * Tier B.  The guards relate several strlen results, so the string functions must be exact ("first NUL"); that
 * needs either quantified stub assumptions (tried: z3 does not finish on this unit, 600 s) or byte loops.  This unit
 * uses exact byte-loop string functions (env_conf.h section 1d) and unwinds:
 *     PATH_MAX scaled from 4096 to 8 (the function uses the limit only through PATH_MAX / sizeof(name)),
 *     file, dir <= 9 characters, search path <= 8 characters (so every guard is exercised on both sides)
 * The (short) narrowing of a search-path component length (conf.c:772-774) cannot overflow under this bound; see
 * the report: a component of 32768+ characters is silently truncated to its low 16 bits (wrong directory searched,
 * no memory error). */

/*@unit
name: find_file
define: VERIF_OWN_STRCMP, VERIF_OWN_STRCHR, VERIF_OWN_STRLEN, VERIF_EXACT_STR
src: conf.c
backend: sat
tier: B
bound: PATH_MAX scaled to 8; file, dir <= 9 characters, search path <= 8 characters
unwind: 11
timeout: 600
funcs: spifconf_find_file
native: c11_replay
native_includes: conf.c
*/
#include "vprelude.h"
#undef  PATH_MAX
#define PATH_MAX 8
#include "env_conf.h"
#include "src/conf.c"
#include "conf.h"

static spif_charptr_t v_str(size_t max)
{
    size_t n = nondet_size_t();
    __CPROVER_assume(n <= max);
    spif_charptr_t s = (spif_charptr_t) malloc(n + 1);
    s[n] = 0;
    return s;
}
void harness(void)
{
    spif_charptr_t file = v_str(9), dir = nondet_bool() ? v_str(9) : (spif_charptr_t) NULL,
                   pathlist = nondet_bool() ? v_str(8) : (spif_charptr_t) NULL, r;
    /* Excluded (tool noise, not a finding): strlen(dir/file) == PATH_MAX - 1.  There `sizeof(name) - len - 2` wraps as
     * an unsigned long and is narrowed to the spif_int32_t maxpathlen (-1 on every two's-complement target, so the
     * function returns NULL right away, before any further copy); --conversion-check reports that narrowing. */
    __CPROVER_assume(strlen((char *) file) + (dir ? strlen((char *) dir) + 1 : 0) != PATH_MAX - 1);
    r = spifconf_find_file(file, dir, pathlist);
    __CPROVER_assert(r == NULL || (__CPROVER_POINTER_OFFSET(r) == 0 && __CPROVER_OBJECT_SIZE(r) == PATH_MAX),
                     "find_file: NULL or one of the two static PATH_MAX buffers");
    VERIF_CANARY();
}
