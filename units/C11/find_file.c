/* C11: spifconf_find_file never writes outside its two static PATH_MAX buffers, whatever the lengths of
 * file / dir / the search-path components (up to VCAP each), and returns NULL or a C string inside one of
 * them.  The length guards at conf.c:737-741, 761-764, 777 are what is being checked: every strcpy /
 * strcat / memcpy carries the man-page destination-size obligation (env_conf.h section 5), with EXACT
 * string lengths (strlen = first NUL, quantified assumption -> z3).
 * Inputs are tight C strings (object = text + terminator): a string function never looks past the first
 * NUL, so every behaviour on a larger object is the behaviour on its tight prefix. */

/*@unit
name: find_file
define: VERIF_CONF_ANNOT_FIND, VERIF_OWN_STRCMP, VERIF_OWN_STRCHR, VERIF_OWN_STRLEN, VERIF_STRLEN_FORALL
src: conf.c
enforce: spifconf_find_file
backend: z3
loops: 1
quantified: yes
timeout: 600
*/
#include "vprelude.h"
#include "env_conf.h"
#include "src/conf.c"
#include "conf.h"

spif_charptr_t spifconf_find_file(const spif_charptr_t file, const spif_charptr_t dir, const spif_charptr_t pathlist)
__CPROVER_requires(VCSTR_FRESH(file, vg_n1))
__CPROVER_requires(dir == NULL || VCSTR_FRESH(dir, vg_n2))
__CPROVER_requires(pathlist == NULL || VCSTR_FRESH(pathlist, vg_n3))
__CPROVER_assigns()
/* NULL or one of the two static PATH_MAX buffers (from its start) */
__CPROVER_ensures(__CPROVER_return_value == NULL ||
                  (__CPROVER_POINTER_OFFSET(__CPROVER_return_value) == 0 && __CPROVER_OBJECT_SIZE(__CPROVER_return_value) == PATH_MAX))
;

void harness(void)
{
    spif_charptr_t file, dir, pathlist;
    spifconf_find_file(file, dir, pathlist);
    VERIF_CANARY();
}
