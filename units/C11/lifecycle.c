/* C11 lifecycle: the config subsystem can be initialised, used and freed any number of times.
 *  - init_subsystem   (P)  establishes the four table invariants of contracts/conf.h from ANY prior state of the
 *                          file-local pointers (it overwrites them), registers the seven built-ins, installs the
 *                          "null" context in slot 0.  It does not touch spifconf_vars: a cycle therefore needs
 *                          spifconf_vars == NULL from the preceding free (requires clause).
 *  - free_subsystem   (B)  frees everything the subsystem allocated (tables, names, variable list) and leaves no
 *                          file-local pointer referring to freed memory (spifconf_vars was left dangling until
 *                          fix 585bdfe: finding C11-vars-dangling).  The loops free one heap block per
 *                          entry, and free()'s own obligations (valid, not yet freed) cannot be guarded by a
 *                          ghost index, so the proof is bounded: <= 2 variables, <= 2 built-ins, <= 2 contexts;
 *                          loops unwound; plain harness with --memory-leak-check.
 *  - cycle            (P)  compatibility lemma free ; init : free's postcondition implies init's precondition
 *                          (both calls replaced by their contracts; the only obligation is init's requires).
 */

/*@unit
name: init_subsystem
define: U_INIT, VERIF_OWN_STRCMP, VERIF_OWN_STRCHR, VERIF_REALLOC_ELEM_T=spifconf_func_t
src: conf.c
enforce: spifconf_init_subsystem
backend: sat
timeout: 300
funcs: spifconf_register_builtin
native: c11_replay
native_includes: conf.c
*/
/*@unit
name: free_subsystem
define: U_FREE, VERIF_OWN_STRCMP, VERIF_OWN_STRCHR
src: conf.c
backend: sat
tier: B
bound: variable list <= 2 nodes, <= 2 built-ins, <= 2 contexts; table capacities 20/20/10/10 as set by init; names/values are heap blocks of arbitrary size
unwind: 4
flags: --memory-leak-check
timeout: 300
funcs: spifconf_free_subsystem, spifconf_free_var
native: c11_replay
native_includes: conf.c
*/
/*@unit
name: cycle_free_init
define: U_CYCLE, VERIF_OWN_STRCMP, VERIF_OWN_STRCHR
src: conf.c
enforce: v_cycle
replace: spifconf_free_subsystem, spifconf_init_subsystem
backend: sat
timeout: 300
native: c11_replay
native_includes: conf.c
*/
#include "vprelude.h"
#include "env_conf.h"
#include "src/conf.c"
#include "conf.h"

/* a heap block the subsystem owns (strings: only the block matters here) */
#define VBLK(p)        (__CPROVER_is_fresh((p), 1))
#define VVAR_NODE(v)   (__CPROVER_is_fresh((v), sizeof(spifconf_var_t)) && \
                        ((v)->var == NULL || VBLK((v)->var)) && ((v)->value == NULL || VBLK((v)->value)))
/* no file-local pointer is left referring to freed memory */
#define NO_DANGLING    (spifconf_vars == NULL && context == NULL && ctx_state == NULL && builtins == NULL && fstate == NULL)

#if defined(U_INIT) || defined(U_CYCLE)
void spifconf_init_subsystem(void)
/* a previous free left no variable list behind (init itself does not reset spifconf_vars) */
__CPROVER_requires(spifconf_vars == NULL)
__CPROVER_assigns(context, ctx_idx, ctx_cnt, ctx_state, ctx_state_idx, ctx_state_cnt, fstate, fstate_idx, fstate_cnt, builtins, builtin_idx, builtin_cnt)
#ifdef U_CYCLE   /* callee role: the four tables are fresh blocks (is_fresh allocates when the contract stands for the call) */
__CPROVER_ensures(CTXTAB_INV && CTXSTK_INV && FSTK_INV && BLTTAB_INV)
#else
__CPROVER_ensures(CTXTAB_POST && CTXSTK_POST && FSTK_POST && BLTTAB_POST)
#endif
__CPROVER_ensures(ctx_idx == 0 && ctx_state_idx == 0 && fstate_idx == 0 && builtin_idx == 7)
__CPROVER_ensures(ctx_cnt == 20 && ctx_state_cnt == 20 && fstate_cnt == 10 && builtin_cnt == 10)
/* slot 0 is the built-in "null" context; the bottom of the context stack refers to it with no state */
#ifdef U_CYCLE
__CPROVER_ensures(__CPROVER_is_fresh(context[0].name, 5) && context[0].name[4] == 0 && context[0].handler == parse_null)
#else
__CPROVER_ensures(context[0].name != NULL && __CPROVER_r_ok(context[0].name, 5) && context[0].name[4] == 0 && context[0].handler == parse_null)
#endif
__CPROVER_ensures(ctx_state[0].ctx_id == 0 && ctx_state[0].state == NULL)
/* every registered built-in has a name and a function; the table is terminated by a NULL name (shell_expand's scan) */
__CPROVER_ensures(!(vg_k < 7) || (builtins[vg_k].name != NULL && builtins[vg_k].ptr != NULL))
__CPROVER_ensures(builtins[7].name == NULL)
__CPROVER_ensures(spifconf_vars == NULL)
;
#endif

#ifdef U_CYCLE
/* contract of free_subsystem as the cycle needs it; its body is checked by the bounded unit C11.free_subsystem */
void spifconf_free_subsystem(void)
__CPROVER_assigns(spifconf_vars, context, ctx_state, builtins, fstate)
__CPROVER_ensures(NO_DANGLING)
;
#endif

#ifdef U_INIT
void harness(void)
{
    spifconf_init_subsystem();
    VERIF_CANARY();
}
#endif
#ifdef U_FREE
/* Plain bounded harness (no DFCC: every free() through a write set costs three object-indexed arrays per
 * call and the instance did not finish).  The state is what init + registrations + %put build; cbmc's own
 * free() obligations (valid block, not freed twice) and --memory-leak-check ("everything allocated was
 * released") are the oracle, plus the explicit no-dangling-pointer assertion. */
static spif_charptr_t v_blk(void)
{
    size_t n = nondet_size_t();
    __CPROVER_assume(n >= 1 && n <= VCAP);
    return (spif_charptr_t) malloc(n);
}
static spifconf_var_t *v_var(void)
{
    spifconf_var_t *v = (spifconf_var_t *) malloc(sizeof(spifconf_var_t));
    v->var = nondet_bool() ? v_blk() : (spif_charptr_t) NULL;
    v->value = nondet_bool() ? v_blk() : (spif_charptr_t) NULL;
    v->next = NULL;
    return v;
}
void harness(void)
{
    unsigned char nctx = nondet_uchar(), nblt = nondet_uchar(), nvar = nondet_uchar();
    __CPROVER_assume(nctx <= 1 && nblt <= 2 && nvar <= 2);

    ctx_cnt = 20; ctx_idx = nctx;
    context = (ctx_t *) malloc(sizeof(ctx_t) * 20);
    context[0].name = v_blk();
    if (nctx >= 1) context[1].name = v_blk();
    ctx_state_cnt = 20; ctx_state_idx = 0;
    ctx_state = (ctx_state_t *) malloc(sizeof(ctx_state_t) * 20);
    fstate_cnt = 10; fstate_idx = 0;
    fstate = (fstate_t *) malloc(sizeof(fstate_t) * 10);
    builtin_cnt = 10; builtin_idx = nblt;
    builtins = (spifconf_func_t *) malloc(sizeof(spifconf_func_t) * 10);
    if (nblt >= 1) builtins[0].name = v_blk();
    if (nblt >= 2) builtins[1].name = v_blk();
    spifconf_vars = NULL;
    if (nvar >= 1) spifconf_vars = v_var();
    if (nvar >= 2) spifconf_vars->next = v_var();

    spifconf_free_subsystem();

    /* no file-local pointer still refers to freed memory */
    __CPROVER_assert(context == NULL && ctx_state == NULL && builtins == NULL && fstate == NULL, "free_subsystem: table pointers reset");
    __CPROVER_assert(spifconf_vars == NULL, "free_subsystem: spifconf_vars reset (no dangling variable list)");
    VERIF_CANARY();
}
#endif
#ifdef U_CYCLE
/* free ; init — the second half of a cycle.  Nothing to prove but the precondition of init. */
void v_cycle(void)
__CPROVER_assigns(spifconf_vars, context, ctx_idx, ctx_cnt, ctx_state, ctx_state_idx, ctx_state_cnt, fstate, fstate_idx, fstate_cnt, builtins, builtin_idx, builtin_cnt)
__CPROVER_ensures(CTXTAB_POST && CTXSTK_POST && FSTK_POST && BLTTAB_POST && spifconf_vars == NULL)
{
    spifconf_free_subsystem();
    spifconf_init_subsystem();
}
void harness(void)
{
    v_cycle();
    VERIF_CANARY();
}
#endif
