/* C11: the built-in functions of the config language (conf.c:290-484) are memory-safe on arbitrary arguments and
 * spawn nothing, except builtin_exec, whose whole purpose is to run its argument (it is reached only from
 * %exec(...) or a back-quoted string: C10/C09 spawn-freedom clauses).
 * strings.c callees are the model functions of contracts/conf.h (VERIF_CT_CALLEES) plus the two below; libc
 * string functions carry destination-size obligations (env_conf.h section 5) and use the deterministic strlen
 * (section 1c), so the strcpy/strcat length arithmetic is followed exactly.
 *
 * Not under contract: builtin_random — its seeding line `(unsigned int) (getpid() * time(NULL) % ((unsigned int) -1))`
 * is flagged by --conversion-check for the `(unsigned int) -1` idiom (defined behaviour, tool noise), which would
 * keep the unit red for a non-defect; builtin_get / builtin_put — thin wrappers around the variable store (C10).
 * builtin_exec: `fsize = ftell(fp)` narrows a long to 32 bits and `MALLOC(fsize + 1)` wraps to 0 for an output of
 * exactly 4 GiB - 1 bytes (or a failing ftell): the following fread would overrun the block.  No native demo was
 * built (it needs a 4 GiB temp file); the unit assumes the output is smaller (VERIF_FTELL_REGULAR_SMALL). */

/*@unit
name: builtin_appname
define: U_APPNAME, VERIF_OWN_STRCMP, VERIF_OWN_STRCHR, VERIF_OWN_STRLEN, VERIF_STRLEN_REGISTRY
src: conf.c
enforce: builtin_appname
backend: sat
timeout: 200
native: c11_replay
native_includes: conf.c
*/
/*@unit
name: builtin_version
define: U_VERSION, VERIF_OWN_STRCMP, VERIF_OWN_STRCHR, VERIF_OWN_STRLEN, VERIF_STRLEN_REGISTRY
src: conf.c
enforce: builtin_version
backend: sat
timeout: 200
native: c11_replay
native_includes: conf.c
*/
/*@unit
name: builtin_dirscan
define: U_DIRSCAN, VERIF_CONF_ANNOT_DIRSCAN, VERIF_OWN_STRCMP, VERIF_OWN_STRCHR, VERIF_OWN_STRLEN, VERIF_STRLEN_REGISTRY
src: conf.c
enforce: builtin_dirscan
backend: sat
tier: B
bound: list buffer CONFIG_BUFF scaled from 20480 to 64 bytes (the room arithmetic only uses the macro); number of directory entries and name lengths (1..255) unbounded: the readdir loop is closed by a loop contract, no unwinding
loopcontracts: yes
loops: 1
timeout: 600
native: c11_replay
native_includes: conf.c
*/
/*@unit
name: builtin_exec
define: U_EXEC, VERIF_FTELL_REGULAR_SMALL, VERIF_OWN_STRCMP, VERIF_OWN_STRCHR, VERIF_OWN_STRLEN, VERIF_STRLEN_REGISTRY
src: conf.c
enforce: builtin_exec
backend: sat
timeout: 600
native: c11_replay
native_includes: conf.c
*/
#include "vprelude.h"
#ifdef U_DIRSCAN
/* bounded stand-in: a constant-size 20 kB heap block is bit-blasted once per SSA version (the unit did not finish
 * in 600 s); builtin_dirscan uses the limit only through this macro */
#undef  CONFIG_BUFF
#define CONFIG_BUFF 64
#endif
#include "env_conf.h"

/* spiftool_num_words (strings.c, C12): number of words; at most one word per two characters, plus one */
unsigned long spiftool_num_words(const spif_charptr_t str)
{
    __CPROVER_assert(str != NULL && __CPROVER_r_ok(str, 1), "num_words contract: str readable");
    if (str[0] == 0) return 0;                          /* the empty string has no words */
    size_t n = strlen((const char *) str);
    unsigned long r = nondet_ulong();
    __CPROVER_assume(r <= n / 2 + 1);
    return r;
}
/* spiftool_condense_whitespace (strings.c, C13): in place, result not longer than the input; returns the
 * (possibly moved: realloc) string */
spif_charptr_t spiftool_condense_whitespace(spif_charptr_t s)
{
    __CPROVER_assert(s != NULL && __CPROVER_rw_ok(s, 1), "condense_whitespace contract: s writable");
    size_t n = strlen((const char *) s);
    size_t m = nondet_size_t();
    __CPROVER_assume(m <= n);
    spif_charptr_t r = (spif_charptr_t) malloc(m + 1);
    r[m] = 0;
    free(s);
    return r;
}

#include "src/conf.c"
#define VERIF_CT_CALLEES
#include "conf.h"

/* result of a built-in: NULL or a heap C string the caller frees */
#define BLT_RESULT  (__CPROVER_return_value == NULL || (__CPROVER_r_ok(__CPROVER_return_value, 1) && __CPROVER_POINTER_OFFSET(__CPROVER_return_value) == 0))

#ifdef U_APPNAME
static spif_charptr_t builtin_appname(spif_charptr_t param)
__CPROVER_assigns(vg_sreg)
__CPROVER_ensures(BLT_RESULT && __CPROVER_return_value != NULL)
;
void harness(void) { spif_charptr_t p = nondet_ptr(); builtin_appname(p); VERIF_CANARY(); }
#endif

#ifdef U_VERSION
static spif_charptr_t builtin_version(spif_charptr_t param)
__CPROVER_requires(VCSTR_FRESH(libast_program_version, vg_m1))
__CPROVER_assigns(vg_sreg)
__CPROVER_ensures(BLT_RESULT && __CPROVER_return_value != NULL)
;
void harness(void) { spif_charptr_t p = nondet_ptr(); builtin_version(p); VERIF_CANARY(); }
#endif

#ifdef U_DIRSCAN
static spif_charptr_t builtin_dirscan(spif_charptr_t param)
__CPROVER_requires(param == NULL || (vg_m1 < CONFIG_BUFF && VCSTR_FRESH(param, vg_m1)))
__CPROVER_requires(fstate_cnt >= 1 && fstate_idx < fstate_cnt && __CPROVER_is_fresh(fstate, sizeof(fstate_t) * (size_t) fstate_cnt) && fstate_cnt <= 512)
__CPROVER_assigns(vg_sreg, vg_st, vg_ct)
/* NULL or the CONFIG_BUFF-byte list buffer, NUL-terminated; every directory stream opened was closed */
__CPROVER_ensures(__CPROVER_return_value == NULL || __CPROVER_rw_ok(__CPROVER_return_value, CONFIG_BUFF))
__CPROVER_ensures(vg_open_dirs == __CPROVER_old(vg_open_dirs))
;
void harness(void) { spif_charptr_t p; builtin_dirscan(p); VERIF_CANARY(); }
#endif

#ifdef U_EXEC
static spif_charptr_t builtin_exec(spif_charptr_t param)
__CPROVER_requires(param == NULL || (vg_m1 <= VCAP && VCSTR_FRESH(param, vg_m1)))
__CPROVER_requires(fstate_cnt >= 1 && fstate_idx < fstate_cnt && __CPROVER_is_fresh(fstate, sizeof(fstate_t) * (size_t) fstate_cnt) && fstate_cnt <= 512)
__CPROVER_assigns(vg_sreg, vg_st, vg_ct, vg_tf, vg_sp)
__CPROVER_ensures(BLT_RESULT)
;
void harness(void) { spif_charptr_t p; builtin_exec(p); VERIF_CANARY(); }
#endif
