/* C11: spifconf_open_file — reads at most the 256-byte header line, never writes outside buff[256] / test[30],
 * returns a newly opened stream or closes what it opened, spawns nothing; its contract (contracts/conf.h,
 * VERIF_CT_OPEN_FILE) is the one spifconf_parse_line / spifconf_parse use.
 * str.c / strings.c callees are MODEL functions with the text of their contracts (owners: C01 str, C13/C17):
 *   spif_str_new_from_ptr(p)   requires p a C string; returns a fresh str object: s = fresh buffer of len+1 bytes,
 *                              s[len] == 0, len <= a NUL position of p
 *   spif_str_ncasecmp_with_ptr any spif_cmp_t
 *   spif_str_index(self, c)    a position <= len (len when c does not occur)
 *   spif_str_del               frees the buffer and the object
 *   spiftool_safe_strncpy      (C13.safe_strncpy) size > 0, dest holds size bytes, src readable; NUL within size
 *   spiftool_version_compare   (C17) both arguments C strings; any spif_cmp_t
 * Behaviour splits:
 *   on the header read: U_OF_READ = fgets delivered the header line; U_OF_EMPTY = fgets returned NULL
 *     (empty/unreadable file): the buffer handed to spif_str_new_from_ptr was then uninitialised — finding
 *     C11-open-file-empty, fixed 175d51f: the function now returns NULL and closes the stream;
 *   on the header text: U_OF_DASH = the line that passed the magic check contains a '-' (always the case when
 *     "<" + program name + "-" fits the 30-byte `test` buffer, because the magic check compared that '-') and its
 *     first '>' , if any, comes after that '-' ("<name-version>").
 *     NOT COVERED (tool limitation, not a finding): headers whose first '>' precedes the first '-' or that have
 *     no '-' at all (program names of 28+ characters).  There end_ptr - begin_ptr is NEGATIVE, which cbmc 6.11
 *     reports as "arithmetic overflow on signed -" although a negative difference inside one object is defined
 *     C; by reading, the resulting size <= 0 is refused by spiftool_safe_strncpy before anything is read. */

/*@unit
name: open_file
define: U_OF_READ, U_OF_DASH, VERIF_FGETS_ALWAYS_OK, VERIF_OWN_STRCMP, VERIF_OWN_STRCHR
src: conf.c
enforce: spifconf_open_file
backend: sat
timeout: 300
native: c11_replay
native_includes: conf.c
*/
/*@unit
name: open_file_empty
define: U_OF_EMPTY, VERIF_FGETS_ALWAYS_FAIL, VERIF_OWN_STRCMP, VERIF_OWN_STRCHR
src: conf.c
enforce: spifconf_open_file
backend: sat
timeout: 300
native: c11_replay
native_includes: conf.c
*/
#include "vprelude.h"
#include "env_conf.h"

/* ---- models of the str.c / strings.c callees ---------------------------------------------------------- */
spif_str_t spif_str_new_from_ptr(spif_charptr_t old)
{
    __CPROVER_assert(old != NULL && __CPROVER_r_ok(old, 1), "str_new_from_ptr contract: argument readable");
    /* the argument must be a C string: a buffer that the last fgets was asked to fill but did not is not one */
    __CPROVER_assert(!(old == (spif_charptr_t) vg_fg_buf && !vg_fg_ok), "str_new_from_ptr contract: argument is an initialised C string (fgets filled it)");
    __CPROVER_assume(!(old == (spif_charptr_t) vg_fg_buf && !vg_fg_ok));
    size_t n = strlen((const char *) old);
    spif_str_t self = (spif_str_t) malloc(sizeof(*self));
    self->s = (spif_charptr_t) malloc(n + 1);
    self->s[n] = 0;
    self->len = (spif_stridx_t) n;
    self->size = (spif_stridx_t) (n + 1);
    return self;
}
spif_cmp_t spif_str_ncasecmp_with_ptr(spif_str_t self, spif_charptr_t other, spif_stridx_t cnt)
{
    __CPROVER_assert(self != NULL && other != NULL, "str_ncasecmp_with_ptr contract: arguments not NULL");
    int c = nondet_int();
    return SPIF_CMP_FROM_INT(c);
}
spif_stridx_t spif_str_index(spif_str_t self, spif_char_t c)
{
    __CPROVER_assert(self != NULL && __CPROVER_r_ok(self, sizeof(*self)), "str_index contract: valid object");
    spif_stridx_t r = nondet_int();
    __CPROVER_assume(r >= 0 && r <= self->len);
#ifdef U_OF_DASH
    static spif_stridx_t dash;
    if (c == '-') { __CPROVER_assume(r < self->len); dash = r; }
    if (c == '>') __CPROVER_assume(r > dash);
#endif
    return r;
}
spif_bool_t spif_str_del(spif_str_t self)
{
    __CPROVER_assert(self != NULL && __CPROVER_r_ok(self, sizeof(*self)), "str_del contract: valid object");
    free(self->s);
    free(self);
    return TRUE;
}
spif_bool_t spiftool_safe_strncpy(spif_charptr_t dest, const spif_charptr_t src, spif_int32_t size)
{
    /* (a non-positive size is refused by the real function before anything is read or written) */
    if (dest == NULL || src == NULL || size <= 0) return FALSE;
    __CPROVER_assert(__CPROVER_w_ok(dest, (size_t) size), "safe_strncpy contract: dest holds size bytes");
    __CPROVER_assert(__CPROVER_r_ok(src, 1), "safe_strncpy contract: src readable");
    __CPROVER_havoc_slice(dest, (size_t) size);
    size_t n = nondet_size_t();
    __CPROVER_assume(n < (size_t) size);
    dest[n] = 0;
    return nondet_bool() ? TRUE : FALSE;
}
spif_cmp_t spiftool_version_compare(spif_charptr_t v1, spif_charptr_t v2)
{
    __CPROVER_assert(v1 != NULL && __CPROVER_r_ok(v1, 1) && v2 != NULL && __CPROVER_r_ok(v2, 1), "version_compare contract: arguments readable");
    int c = nondet_int();
    return SPIF_CMP_FROM_INT(c);
}

#include "src/conf.c"
#define VERIF_CT_OPEN_FILE
#include "conf.h"

void harness(void)
{
    spif_charptr_t name;
    size_t n = nondet_size_t();
    __CPROVER_assume(n <= VCAP);
    name = nondet_bool() ? (spif_charptr_t) NULL : (spif_charptr_t) malloc(n + 1);
    if (name) name[n] = 0;
    /* the application's name and version are C strings (set before any config file is read) */
    { size_t a = nondet_size_t(), b = nondet_size_t(); __CPROVER_assume(a <= VCAP && b <= VCAP);
      libast_program_name = (spif_charptr_t) malloc(a + 1); libast_program_name[a] = 0;
      libast_program_version = (spif_charptr_t) malloc(b + 1); libast_program_version[b] = 0; }
    spifconf_open_file(name);
    VERIF_CANARY();
}
