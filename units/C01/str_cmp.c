/* C01: the cmp family (cmp, cmp_with_ptr, casecmp, casecmp_with_ptr, ncmp, ncmp_with_ptr, ncasecmp,
 * ncasecmp_with_ptr, comp), numeric conversion (to_num, to_float) and the len/size accessors of str and ustr.
 * All pure.  NULL objects are ordered before every object; otherwise the answer is the sign of what libc's
 * strcmp / strcasecmp / strncmp / strncasecmp answers for the two texts (uninterpreted function in env_str.h),
 * normalised to LESS / EQUAL / GREATER.  to_num / to_float hand the text to strtoul / strtod (value not modelled).
 * Behaviours: .empty = self in the (NULL,0,0) state; .nonempty (self may also be NULL); .other_empty. */

/*@unit
name: str_cmp.empty
define: VP=str, U_CMP, U_EMPTY, U_OTHER_NONEMPTY
src: str.c, obj.c
native: str
native_includes: str.c
enforce: spif_str_cmp
*/
/*@unit
name: str_cmp.nonempty
define: VP=str, U_CMP, U_NONEMPTY, U_OTHER_NONEMPTY
src: str.c, obj.c
native: str
native_includes: str.c
enforce: spif_str_cmp
*/
/*@unit
name: str_cmp.other_empty
define: VP=str, U_CMP, U_NONEMPTY, U_OTHER_EMPTY
src: str.c, obj.c
native: str
native_includes: str.c
enforce: spif_str_cmp
*/
/*@unit
name: str_comp.empty
define: VP=str, U_COMP, U_EMPTY, U_OTHER_NONEMPTY
src: str.c, obj.c
native: str
native_includes: str.c
enforce: spif_str_comp
*/
/*@unit
name: str_comp.nonempty
define: VP=str, U_COMP, U_NONEMPTY, U_OTHER_NONEMPTY
src: str.c, obj.c
native: str
native_includes: str.c
enforce: spif_str_comp
*/
/*@unit
name: str_comp.other_empty
define: VP=str, U_COMP, U_NONEMPTY, U_OTHER_EMPTY
src: str.c, obj.c
native: str
native_includes: str.c
enforce: spif_str_comp
*/
/*@unit
name: str_casecmp.empty
define: VP=str, U_CASECMP, U_EMPTY, U_OTHER_NONEMPTY
src: str.c, obj.c
native: str
native_includes: str.c
enforce: spif_str_casecmp
*/
/*@unit
name: str_casecmp.nonempty
define: VP=str, U_CASECMP, U_NONEMPTY, U_OTHER_NONEMPTY
src: str.c, obj.c
native: str
native_includes: str.c
enforce: spif_str_casecmp
*/
/*@unit
name: str_casecmp.other_empty
define: VP=str, U_CASECMP, U_NONEMPTY, U_OTHER_EMPTY
src: str.c, obj.c
native: str
native_includes: str.c
enforce: spif_str_casecmp
*/
/*@unit
name: str_ncmp.empty
define: VP=str, U_NCMP, U_EMPTY, U_OTHER_NONEMPTY
src: str.c, obj.c
native: str
native_includes: str.c
enforce: spif_str_ncmp
*/
/*@unit
name: str_ncmp.nonempty
define: VP=str, U_NCMP, U_NONEMPTY, U_OTHER_NONEMPTY
src: str.c, obj.c
native: str
native_includes: str.c
enforce: spif_str_ncmp
*/
/*@unit
name: str_ncmp.other_empty
define: VP=str, U_NCMP, U_NONEMPTY, U_OTHER_EMPTY
src: str.c, obj.c
native: str
native_includes: str.c
enforce: spif_str_ncmp
*/
/*@unit
name: str_ncasecmp.empty
define: VP=str, U_NCASECMP, U_EMPTY, U_OTHER_NONEMPTY
src: str.c, obj.c
native: str
native_includes: str.c
enforce: spif_str_ncasecmp
*/
/*@unit
name: str_ncasecmp.nonempty
define: VP=str, U_NCASECMP, U_NONEMPTY, U_OTHER_NONEMPTY
src: str.c, obj.c
native: str
native_includes: str.c
enforce: spif_str_ncasecmp
*/
/*@unit
name: str_ncasecmp.other_empty
define: VP=str, U_NCASECMP, U_NONEMPTY, U_OTHER_EMPTY
src: str.c, obj.c
native: str
native_includes: str.c
enforce: spif_str_ncasecmp
*/
/*@unit
name: str_cmp_with_ptr.empty
define: VP=str, U_CMP_WITH_PTR, U_EMPTY
src: str.c, obj.c
native: str
native_includes: str.c
enforce: spif_str_cmp_with_ptr
*/
/*@unit
name: str_cmp_with_ptr.nonempty
define: VP=str, U_CMP_WITH_PTR, U_NONEMPTY
src: str.c, obj.c
native: str
native_includes: str.c
enforce: spif_str_cmp_with_ptr
*/
/*@unit
name: str_casecmp_with_ptr.empty
define: VP=str, U_CASECMP_WITH_PTR, U_EMPTY
src: str.c, obj.c
native: str
native_includes: str.c
enforce: spif_str_casecmp_with_ptr
*/
/*@unit
name: str_casecmp_with_ptr.nonempty
define: VP=str, U_CASECMP_WITH_PTR, U_NONEMPTY
src: str.c, obj.c
native: str
native_includes: str.c
enforce: spif_str_casecmp_with_ptr
*/
/*@unit
name: str_ncmp_with_ptr.empty
define: VP=str, U_NCMP_WITH_PTR, U_EMPTY
src: str.c, obj.c
native: str
native_includes: str.c
enforce: spif_str_ncmp_with_ptr
*/
/*@unit
name: str_ncmp_with_ptr.nonempty
define: VP=str, U_NCMP_WITH_PTR, U_NONEMPTY
src: str.c, obj.c
native: str
native_includes: str.c
enforce: spif_str_ncmp_with_ptr
*/
/*@unit
name: str_ncasecmp_with_ptr.empty
define: VP=str, U_NCASECMP_WITH_PTR, U_EMPTY
src: str.c, obj.c
native: str
native_includes: str.c
enforce: spif_str_ncasecmp_with_ptr
*/
/*@unit
name: str_ncasecmp_with_ptr.nonempty
define: VP=str, U_NCASECMP_WITH_PTR, U_NONEMPTY
src: str.c, obj.c
native: str
native_includes: str.c
enforce: spif_str_ncasecmp_with_ptr
*/
/*@unit
name: str_to_num.empty
define: VP=str, U_TO_NUM, U_EMPTY
src: str.c, obj.c
native: str
native_includes: str.c
enforce: spif_str_to_num
*/
/*@unit
name: str_to_num.nonempty
define: VP=str, U_TO_NUM, U_NONEMPTY
src: str.c, obj.c
native: str
native_includes: str.c
enforce: spif_str_to_num
*/
/*@unit
name: str_to_float.empty
define: VP=str, U_TO_FLOAT, U_EMPTY
src: str.c, obj.c
native: str
native_includes: str.c
enforce: spif_str_to_float
*/
/*@unit
name: str_to_float.nonempty
define: VP=str, U_TO_FLOAT, U_NONEMPTY
src: str.c, obj.c
native: str
native_includes: str.c
enforce: spif_str_to_float
*/
/*@unit
name: str_get_len
define: VP=str, U_GET_LEN
src: str.c, obj.c
native: str
native_includes: str.c
enforce: spif_str_get_len
*/
/*@unit
name: str_get_size
define: VP=str, U_GET_SIZE
src: str.c, obj.c
native: str
native_includes: str.c
enforce: spif_str_get_size
*/
/*@unit
name: str_set_len
define: VP=str, U_SET_LEN
src: str.c, obj.c
native: str
native_includes: str.c
enforce: spif_str_set_len
*/
/*@unit
name: str_set_size
define: VP=str, U_SET_SIZE
src: str.c, obj.c
native: str
native_includes: str.c
enforce: spif_str_set_size
*/
/*@unit
name: ustr_cmp.empty
define: VP=ustr, U_CMP, U_EMPTY, U_OTHER_NONEMPTY
src: ustr.c, obj.c
native: str
native_includes: ustr.c
enforce: spif_ustr_cmp
*/
/*@unit
name: ustr_cmp.nonempty
define: VP=ustr, U_CMP, U_NONEMPTY, U_OTHER_NONEMPTY
src: ustr.c, obj.c
native: str
native_includes: ustr.c
enforce: spif_ustr_cmp
*/
/*@unit
name: ustr_cmp.other_empty
define: VP=ustr, U_CMP, U_NONEMPTY, U_OTHER_EMPTY
src: ustr.c, obj.c
native: str
native_includes: ustr.c
enforce: spif_ustr_cmp
*/
/*@unit
name: ustr_comp.empty
define: VP=ustr, U_COMP, U_EMPTY, U_OTHER_NONEMPTY
src: ustr.c, obj.c
native: str
native_includes: ustr.c
enforce: spif_ustr_comp
*/
/*@unit
name: ustr_comp.nonempty
define: VP=ustr, U_COMP, U_NONEMPTY, U_OTHER_NONEMPTY
src: ustr.c, obj.c
native: str
native_includes: ustr.c
enforce: spif_ustr_comp
*/
/*@unit
name: ustr_comp.other_empty
define: VP=ustr, U_COMP, U_NONEMPTY, U_OTHER_EMPTY
src: ustr.c, obj.c
native: str
native_includes: ustr.c
enforce: spif_ustr_comp
*/
/*@unit
name: ustr_casecmp.empty
define: VP=ustr, U_CASECMP, U_EMPTY, U_OTHER_NONEMPTY
src: ustr.c, obj.c
native: str
native_includes: ustr.c
enforce: spif_ustr_casecmp
*/
/*@unit
name: ustr_casecmp.nonempty
define: VP=ustr, U_CASECMP, U_NONEMPTY, U_OTHER_NONEMPTY
src: ustr.c, obj.c
native: str
native_includes: ustr.c
enforce: spif_ustr_casecmp
*/
/*@unit
name: ustr_casecmp.other_empty
define: VP=ustr, U_CASECMP, U_NONEMPTY, U_OTHER_EMPTY
src: ustr.c, obj.c
native: str
native_includes: ustr.c
enforce: spif_ustr_casecmp
*/
/*@unit
name: ustr_ncmp.empty
define: VP=ustr, U_NCMP, U_EMPTY, U_OTHER_NONEMPTY
src: ustr.c, obj.c
native: str
native_includes: ustr.c
enforce: spif_ustr_ncmp
*/
/*@unit
name: ustr_ncmp.nonempty
define: VP=ustr, U_NCMP, U_NONEMPTY, U_OTHER_NONEMPTY
src: ustr.c, obj.c
native: str
native_includes: ustr.c
enforce: spif_ustr_ncmp
*/
/*@unit
name: ustr_ncmp.other_empty
define: VP=ustr, U_NCMP, U_NONEMPTY, U_OTHER_EMPTY
src: ustr.c, obj.c
native: str
native_includes: ustr.c
enforce: spif_ustr_ncmp
*/
/*@unit
name: ustr_ncasecmp.empty
define: VP=ustr, U_NCASECMP, U_EMPTY, U_OTHER_NONEMPTY
src: ustr.c, obj.c
native: str
native_includes: ustr.c
enforce: spif_ustr_ncasecmp
*/
/*@unit
name: ustr_ncasecmp.nonempty
define: VP=ustr, U_NCASECMP, U_NONEMPTY, U_OTHER_NONEMPTY
src: ustr.c, obj.c
native: str
native_includes: ustr.c
enforce: spif_ustr_ncasecmp
*/
/*@unit
name: ustr_ncasecmp.other_empty
define: VP=ustr, U_NCASECMP, U_NONEMPTY, U_OTHER_EMPTY
src: ustr.c, obj.c
native: str
native_includes: ustr.c
enforce: spif_ustr_ncasecmp
*/
/*@unit
name: ustr_cmp_with_ptr.empty
define: VP=ustr, U_CMP_WITH_PTR, U_EMPTY
src: ustr.c, obj.c
native: str
native_includes: ustr.c
enforce: spif_ustr_cmp_with_ptr
*/
/*@unit
name: ustr_cmp_with_ptr.nonempty
define: VP=ustr, U_CMP_WITH_PTR, U_NONEMPTY
src: ustr.c, obj.c
native: str
native_includes: ustr.c
enforce: spif_ustr_cmp_with_ptr
*/
/*@unit
name: ustr_casecmp_with_ptr.empty
define: VP=ustr, U_CASECMP_WITH_PTR, U_EMPTY
src: ustr.c, obj.c
native: str
native_includes: ustr.c
enforce: spif_ustr_casecmp_with_ptr
*/
/*@unit
name: ustr_casecmp_with_ptr.nonempty
define: VP=ustr, U_CASECMP_WITH_PTR, U_NONEMPTY
src: ustr.c, obj.c
native: str
native_includes: ustr.c
enforce: spif_ustr_casecmp_with_ptr
*/
/*@unit
name: ustr_ncmp_with_ptr.empty
define: VP=ustr, U_NCMP_WITH_PTR, U_EMPTY
src: ustr.c, obj.c
native: str
native_includes: ustr.c
enforce: spif_ustr_ncmp_with_ptr
*/
/*@unit
name: ustr_ncmp_with_ptr.nonempty
define: VP=ustr, U_NCMP_WITH_PTR, U_NONEMPTY
src: ustr.c, obj.c
native: str
native_includes: ustr.c
enforce: spif_ustr_ncmp_with_ptr
*/
/*@unit
name: ustr_ncasecmp_with_ptr.empty
define: VP=ustr, U_NCASECMP_WITH_PTR, U_EMPTY
src: ustr.c, obj.c
native: str
native_includes: ustr.c
enforce: spif_ustr_ncasecmp_with_ptr
*/
/*@unit
name: ustr_ncasecmp_with_ptr.nonempty
define: VP=ustr, U_NCASECMP_WITH_PTR, U_NONEMPTY
src: ustr.c, obj.c
native: str
native_includes: ustr.c
enforce: spif_ustr_ncasecmp_with_ptr
*/
/*@unit
name: ustr_to_num.empty
define: VP=ustr, U_TO_NUM, U_EMPTY
src: ustr.c, obj.c
native: str
native_includes: ustr.c
enforce: spif_ustr_to_num
*/
/*@unit
name: ustr_to_num.nonempty
define: VP=ustr, U_TO_NUM, U_NONEMPTY
src: ustr.c, obj.c
native: str
native_includes: ustr.c
enforce: spif_ustr_to_num
*/
/*@unit
name: ustr_to_float.empty
define: VP=ustr, U_TO_FLOAT, U_EMPTY
src: ustr.c, obj.c
native: str
native_includes: ustr.c
enforce: spif_ustr_to_float
*/
/*@unit
name: ustr_to_float.nonempty
define: VP=ustr, U_TO_FLOAT, U_NONEMPTY
src: ustr.c, obj.c
native: str
native_includes: ustr.c
enforce: spif_ustr_to_float
*/
/*@unit
name: ustr_get_len
define: VP=ustr, U_GET_LEN
src: ustr.c, obj.c
native: str
native_includes: ustr.c
enforce: spif_ustr_get_len
*/
/*@unit
name: ustr_get_size
define: VP=ustr, U_GET_SIZE
src: ustr.c, obj.c
native: str
native_includes: ustr.c
enforce: spif_ustr_get_size
*/
/*@unit
name: ustr_set_len
define: VP=ustr, U_SET_LEN
src: ustr.c, obj.c
native: str
native_includes: ustr.c
enforce: spif_ustr_set_len
*/
/*@unit
name: ustr_set_size
define: VP=ustr, U_SET_SIZE
src: ustr.c, obj.c
native: str
native_includes: ustr.c
enforce: spif_ustr_set_size
*/
#include "str.h"

#define R __CPROVER_return_value
#define SGN_IS(x, r) (((x) < 0 && (r) == SPIF_CMP_LESS) || ((x) == 0 && (r) == SPIF_CMP_EQUAL) || ((x) > 0 && (r) == SPIF_CMP_GREATER))
/* NULL ordering shared by the whole family */
#define CMP_NULL_RULES(a, b) \
    __CPROVER_ensures(!((a) == NULL && (b) == NULL) || R == SPIF_CMP_EQUAL) \
    __CPROVER_ensures(!((a) == NULL && (b) != NULL) || R == SPIF_CMP_LESS) \
    __CPROVER_ensures(!((a) != NULL && (b) == NULL) || R == SPIF_CMP_GREATER) \
    __CPROVER_ensures(R == SPIF_CMP_LESS || R == SPIF_CMP_EQUAL || R == SPIF_CMP_GREATER)
/* self may be NULL in the comparison family (except in the .empty behaviour, where it is the empty object) */
#ifdef U_EMPTY
# define CMP_SELF_PRE(o) STR_SELF_PRE(o)
#else
# define CMP_SELF_PRE(o) ((o) == NULL || STR_SELF_PRE(o))
#endif
/* the result when one side is an object without text yet: the empty text equals only an empty text and is below
 * every other one (t = the other side's text pointer) */
#define EMPTY_VS(t)  (((t) == NULL || (t)[0] == 0) ? SPIF_CMP_EQUAL : SPIF_CMP_LESS)
#define VS_EMPTY(t)  (((t) == NULL || (t)[0] == 0) ? SPIF_CMP_EQUAL : SPIF_CMP_GREATER)
#if defined(U_EMPTY)
# define CMP_RESULT(uf_expr, other_text, self_text) (R == EMPTY_VS(other_text))
#elif defined(U_OTHER_EMPTY)
# define CMP_RESULT(uf_expr, other_text, self_text) (R == VS_EMPTY(self_text))
#else
# define CMP_RESULT(uf_expr, other_text, self_text) SGN_IS(uf_expr, R)
#endif
/* cnt of the n-variants is handed to libc as size_t: a count, not negative */
#define CNT_PRE(cnt) ((cnt) >= 0)

#if defined(U_CMP) || defined(U_COMP) || defined(U_CASECMP)
#if defined(U_CMP)
# define FN cmp
# define UF __CPROVER_uninterpreted_vstr_cmp
#elif defined(U_COMP)
# define FN comp
# define UF __CPROVER_uninterpreted_vstr_cmp
#else
# define FN casecmp
# define UF __CPROVER_uninterpreted_vstr_casecmp
#endif
spif_cmp_t VF(FN)(VT self, VT other)
__CPROVER_requires(CMP_SELF_PRE(self))
__CPROVER_requires(STR_OTHER_PRE(other))
__CPROVER_assigns()
CMP_NULL_RULES(self, other)
__CPROVER_ensures(self == NULL || other == NULL || CMP_RESULT(UF((char *) self->s, (char *) other->s), other->s, self->s))
;
void harness(void)
{
    VT self, other;
    STR_BIND_CLASS();
    VF(FN)(self, other);
    VERIF_CANARY();
}
#endif

#if defined(U_NCMP) || defined(U_NCASECMP)
#if defined(U_NCMP)
# define FN ncmp
# define UF __CPROVER_uninterpreted_vstr_ncmp
#else
# define FN ncasecmp
# define UF __CPROVER_uninterpreted_vstr_ncasecmp
#endif
spif_cmp_t VF(FN)(VT self, VT other, VIDX cnt)
__CPROVER_requires(CMP_SELF_PRE(self))
__CPROVER_requires(STR_OTHER_PRE(other))
__CPROVER_requires(CNT_PRE(cnt))
__CPROVER_assigns()
CMP_NULL_RULES(self, other)
__CPROVER_ensures(self == NULL || other == NULL || cnt != 0 || R == SPIF_CMP_EQUAL)
__CPROVER_ensures(self == NULL || other == NULL || cnt == 0 || CMP_RESULT(UF((char *) self->s, (char *) other->s, (size_t) cnt), other->s, self->s))
;
void harness(void)
{
    VT self, other; VIDX cnt;
    STR_BIND_CLASS();
    VF(FN)(self, other, cnt);
    VERIF_CANARY();
}
#endif

#if defined(U_CMP_WITH_PTR) || defined(U_CASECMP_WITH_PTR)
#if defined(U_CMP_WITH_PTR)
# define FN cmp_with_ptr
# define UF __CPROVER_uninterpreted_vstr_cmp
#else
# define FN casecmp_with_ptr
# define UF __CPROVER_uninterpreted_vstr_casecmp
#endif
spif_cmp_t VF(FN)(VT self, spif_charptr_t other)
__CPROVER_requires(CMP_SELF_PRE(self))
__CPROVER_requires(other == NULL || VCSTR_FRESH(other, vg_n1))
__CPROVER_assigns()
CMP_NULL_RULES(self, other)
__CPROVER_ensures(self == NULL || other == NULL || CMP_RESULT(UF((char *) self->s, (char *) other), other, self->s))
;
void harness(void)
{
    VT self; spif_charptr_t other;
    STR_BIND_CLASS();
    VF(FN)(self, other);
    VERIF_CANARY();
}
#endif

#if defined(U_NCMP_WITH_PTR) || defined(U_NCASECMP_WITH_PTR)
#if defined(U_NCMP_WITH_PTR)
# define FN ncmp_with_ptr
# define UF __CPROVER_uninterpreted_vstr_ncmp
#else
# define FN ncasecmp_with_ptr
# define UF __CPROVER_uninterpreted_vstr_ncasecmp
#endif
spif_cmp_t VF(FN)(VT self, spif_charptr_t other, VIDX cnt)
__CPROVER_requires(CMP_SELF_PRE(self))
__CPROVER_requires(other == NULL || VCSTR_FRESH(other, vg_n1))
__CPROVER_requires(CNT_PRE(cnt))
__CPROVER_assigns()
CMP_NULL_RULES(self, other)
__CPROVER_ensures(self == NULL || other == NULL || cnt != 0 || R == SPIF_CMP_EQUAL)
__CPROVER_ensures(self == NULL || other == NULL || cnt == 0 || CMP_RESULT(UF((char *) self->s, (char *) other, (size_t) cnt), other, self->s))
;
void harness(void)
{
    VT self; spif_charptr_t other; VIDX cnt;
    STR_BIND_CLASS();
    VF(FN)(self, other, cnt);
    VERIF_CANARY();
}
#endif

#ifdef U_TO_NUM
size_t VF(to_num)(VT self, int base)
__CPROVER_requires(STR_SELF_PRE(self))
__CPROVER_assigns()
;
void harness(void)
{
    VT self; int base;
    STR_BIND_CLASS();
    VF(to_num)(self, base);
    VERIF_CANARY();
}
#endif

#ifdef U_TO_FLOAT
double VF(to_float)(VT self)
__CPROVER_requires(STR_SELF_PRE(self))
__CPROVER_assigns()
;
void harness(void)
{
    VT self;
    STR_BIND_CLASS();
    VF(to_float)(self);
    VERIF_CANARY();
}
#endif

#if defined(U_GET_LEN) || defined(U_GET_SIZE)
#ifdef U_GET_LEN
# define FN get_len
# define FIELD len
#else
# define FN get_size
# define FIELD size
#endif
VIDX VF(FN)(VT self)
__CPROVER_requires(STR_SELF_PRE(self))
__CPROVER_assigns()
__CPROVER_ensures(R == self->FIELD)
;
void harness(void)
{
    VT self;
    STR_BIND_CLASS();
    VF(FN)(self);
    VERIF_CANARY();
}
#endif

#if defined(U_SET_LEN) || defined(U_SET_SIZE)
/* raw property setters: write exactly the one field (they do not maintain the invariant; no libast code calls them) */
#ifdef U_SET_LEN
# define FN set_len
# define FIELD len
#else
# define FN set_size
# define FIELD size
#endif
spif_bool_t VF(FN)(VT self, VIDX v)
__CPROVER_requires(STR_SELF_PRE(self))
__CPROVER_assigns(self->FIELD)
__CPROVER_ensures(R == TRUE && self->FIELD == v)
;
void harness(void)
{
    VT self; VIDX v;
    STR_BIND_CLASS();
    VF(FN)(self, v);
    VERIF_CANARY();
}
#endif
