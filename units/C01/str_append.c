/* C01: append_char / append_from_ptr / append of str and ustr: the text becomes old text ++ argument
 * (ghost index vg_k over the whole result), NUL exactly at the new length, capacity > length, nothing
 * but the object's three fields and its buffer written.  Behaviours: .empty = the (NULL,0,0) state
 * every constructor-less object starts in (first append), .nonempty = any allocated state. */

/*@unit
name: str_append_char.empty
define: VP=str, U_APPEND_CHAR, U_EMPTY
src: str.c, obj.c
native: str
native_includes: str.c
enforce: spif_str_append_char
backend: sat,z3
timeout: 200
flags: --slice-formula
*/
/*@unit
name: str_append_char.nonempty
define: VP=str, U_APPEND_CHAR, U_NONEMPTY
src: str.c, obj.c
native: str
native_includes: str.c
enforce: spif_str_append_char
backend: sat,z3
timeout: 200
flags: --slice-formula
*/
/*@unit
name: str_append_from_ptr.empty
define: VP=str, U_APPEND_FROM_PTR, U_EMPTY
src: str.c, obj.c
native: str
native_includes: str.c
enforce: spif_str_append_from_ptr
backend: sat,z3
timeout: 200
flags: --slice-formula
*/
/*@unit
name: str_append_from_ptr.nonempty
define: VP=str, U_APPEND_FROM_PTR, U_NONEMPTY
src: str.c, obj.c
native: str
native_includes: str.c
enforce: spif_str_append_from_ptr
backend: sat,z3
timeout: 200
flags: --slice-formula
*/
/*@unit
name: str_append.empty
define: VP=str, U_APPEND, U_EMPTY
src: str.c, obj.c
native: str
native_includes: str.c
enforce: spif_str_append
backend: sat,z3
timeout: 200
flags: --slice-formula
*/
/*@unit
name: str_append.nonempty
define: VP=str, U_APPEND, U_NONEMPTY
src: str.c, obj.c
native: str
native_includes: str.c
enforce: spif_str_append
backend: sat,z3
timeout: 200
flags: --slice-formula
*/
/*@unit
name: ustr_append_char.empty
define: VP=ustr, U_APPEND_CHAR, U_EMPTY
src: ustr.c, obj.c
native: str
native_includes: ustr.c
enforce: spif_ustr_append_char
backend: sat,z3
timeout: 200
flags: --slice-formula
*/
/*@unit
name: ustr_append_char.nonempty
define: VP=ustr, U_APPEND_CHAR, U_NONEMPTY
src: ustr.c, obj.c
native: str
native_includes: ustr.c
enforce: spif_ustr_append_char
backend: sat,z3
timeout: 200
flags: --slice-formula
*/
/*@unit
name: ustr_append_from_ptr.empty
define: VP=ustr, U_APPEND_FROM_PTR, U_EMPTY
src: ustr.c, obj.c
native: str
native_includes: ustr.c
enforce: spif_ustr_append_from_ptr
backend: sat,z3
timeout: 200
flags: --slice-formula
*/
/*@unit
name: ustr_append_from_ptr.nonempty
define: VP=ustr, U_APPEND_FROM_PTR, U_NONEMPTY
src: ustr.c, obj.c
native: str
native_includes: ustr.c
enforce: spif_ustr_append_from_ptr
backend: sat,z3
timeout: 200
flags: --slice-formula
*/
/*@unit
name: ustr_append.empty
define: VP=ustr, U_APPEND, U_EMPTY
src: ustr.c, obj.c
native: str
native_includes: ustr.c
enforce: spif_ustr_append
backend: sat,z3
timeout: 200
flags: --slice-formula
*/
/*@unit
name: ustr_append.nonempty
define: VP=ustr, U_APPEND, U_NONEMPTY
src: ustr.c, obj.c
native: str
native_includes: ustr.c
enforce: spif_ustr_append
backend: sat,z3
timeout: 200
flags: --slice-formula
*/
#include "str.h"

long w_len, w_size, w_olen; size_t w_n1;

#ifdef U_APPEND_CHAR
spif_bool_t VF(append_char)(VT self, spif_char_t c)
__CPROVER_requires(STR_SELF_PRE(self))
__CPROVER_assigns(STR_ASSIGNS(self))
__CPROVER_frees(self->s)
__CPROVER_ensures(__CPROVER_return_value == TRUE)
__CPROVER_ensures(STR_NONEMPTY_POST(self))
__CPROVER_ensures(self->len == __CPROVER_old(self->len) + 1)
#ifdef U_NONEMPTY
__CPROVER_ensures(!(vg_k < (size_t) __CPROVER_old(self->len)) || self->s[vg_k] == STR_OLD_AT(self, vg_k))
#endif
__CPROVER_ensures(self->s[__CPROVER_old(self->len)] == c)
;
void harness(void)
{
    VT self; spif_char_t c;
    STR_BIND_CLASS();
    VF(append_char)(self, c);
    VERIF_CANARY();
}
#endif

#ifdef U_APPEND_FROM_PTR
/* other: C string in its own object of vg_n1+1 bytes; its length is what strlen reports (vg_slen).
 * NULL argument: refused, nothing changes. */
spif_bool_t VF(append_from_ptr)(VT self, spif_charptr_t other)
__CPROVER_requires(STR_SELF_PRE(self))
__CPROVER_requires(other == NULL || VCSTR_FRESH(other, vg_n1))
__CPROVER_assigns(STR_ASSIGNS(self); vg_slen, vg_slen_ptr)
__CPROVER_frees(self->s)
__CPROVER_ensures(other != NULL || (__CPROVER_return_value == FALSE && STR_UNCHANGED(self)))
__CPROVER_ensures(other == NULL || __CPROVER_return_value == TRUE)
__CPROVER_ensures(STR_INV_POST(self))
__CPROVER_ensures(other == NULL || (size_t) self->len == (size_t) __CPROVER_old(self->len) + vg_slen)
#ifdef U_NONEMPTY
__CPROVER_ensures(!(vg_k < (size_t) __CPROVER_old(self->len)) || self->s[vg_k] == STR_OLD_AT(self, vg_k))
#endif
__CPROVER_ensures(other == NULL || !(vg_k < vg_slen) || self->s[(size_t) __CPROVER_old(self->len) + vg_k] == other[vg_k])
;
void harness(void)
{
    VT self; spif_charptr_t other;
    STR_BIND_CLASS();
    w_n1 = vg_n1;
    VF(append_from_ptr)(self, other);
    VERIF_CANARY();
}
#endif

#ifdef U_APPEND
/* other: any valid str object distinct from self (or NULL: refused, nothing changes); other is not written */
spif_bool_t VF(append)(VT self, VT other)
__CPROVER_requires(STR_SELF_PRE(self))
__CPROVER_requires(STR_OTHER_PRE(other))
__CPROVER_assigns(STR_ASSIGNS(self))
__CPROVER_frees(self->s)
__CPROVER_ensures(other != NULL || (__CPROVER_return_value == FALSE && STR_UNCHANGED(self)))
__CPROVER_ensures(other == NULL || __CPROVER_return_value == TRUE)
__CPROVER_ensures(STR_INV_POST(self))
__CPROVER_ensures(other == NULL || self->len == __CPROVER_old(self->len) + other->len)
#ifdef U_NONEMPTY
__CPROVER_ensures(!(vg_k < (size_t) __CPROVER_old(self->len)) || self->s[vg_k] == STR_OLD_AT(self, vg_k))
#endif
__CPROVER_ensures(other == NULL || !(vg_k < (size_t) other->len) || self->s[(size_t) __CPROVER_old(self->len) + vg_k] == other->s[vg_k])
;
void harness(void)
{
    VT self, other;
    STR_BIND_CLASS();
    VF(append)(self, other);
    VERIF_CANARY();
}
#endif
