/* C01: searching queries index / rindex / find / find_from_ptr of str and ustr.  Pure (assigns nothing);
 * the answer lies in 0..len, "not found" is len, a reported position holds the character / starts with the
 * first character of the needle; for index it is the first such position (ghost instance vg_k).  What libc's
 * strchr/strrchr/strstr answer is taken from the stubs in env_str.h.
 * Behaviours: .empty = self in the (NULL,0,0) state; .nonempty; .other_empty = needle object in that state. */

/*@unit
name: str_index.empty
define: VP=str, U_INDEX, U_EMPTY
src: str.c, obj.c
native: str
native_includes: str.c
enforce: spif_str_index
*/
/*@unit
name: str_index.nonempty
define: VP=str, U_INDEX, U_NONEMPTY
src: str.c, obj.c
native: str
native_includes: str.c
enforce: spif_str_index
*/
/*@unit
name: str_rindex.empty
define: VP=str, U_RINDEX, U_EMPTY
src: str.c, obj.c
native: str
native_includes: str.c
enforce: spif_str_rindex
*/
/*@unit
name: str_rindex.nonempty
define: VP=str, U_RINDEX, U_NONEMPTY
src: str.c, obj.c
native: str
native_includes: str.c
enforce: spif_str_rindex
*/
/*@unit
name: str_find.empty
define: VP=str, U_FIND, U_EMPTY, U_OTHER_NONEMPTY
src: str.c, obj.c
native: str
native_includes: str.c
enforce: spif_str_find
*/
/*@unit
name: str_find.nonempty
define: VP=str, U_FIND, U_NONEMPTY, U_OTHER_NONEMPTY
src: str.c, obj.c
native: str
native_includes: str.c
enforce: spif_str_find
*/
/*@unit
name: str_find.other_empty
define: VP=str, U_FIND, U_NONEMPTY, U_OTHER_EMPTY
src: str.c, obj.c
native: str
native_includes: str.c
enforce: spif_str_find
*/
/*@unit
name: str_find_from_ptr.empty
define: VP=str, U_FIND_FROM_PTR, U_EMPTY
src: str.c, obj.c
native: str
native_includes: str.c
enforce: spif_str_find_from_ptr
*/
/*@unit
name: str_find_from_ptr.nonempty
define: VP=str, U_FIND_FROM_PTR, U_NONEMPTY
src: str.c, obj.c
native: str
native_includes: str.c
enforce: spif_str_find_from_ptr
*/
/*@unit
name: ustr_index.empty
define: VP=ustr, U_INDEX, U_EMPTY
src: ustr.c, obj.c
native: str
native_includes: ustr.c
enforce: spif_ustr_index
*/
/*@unit
name: ustr_index.nonempty
define: VP=ustr, U_INDEX, U_NONEMPTY
src: ustr.c, obj.c
native: str
native_includes: ustr.c
enforce: spif_ustr_index
*/
/*@unit
name: ustr_rindex.empty
define: VP=ustr, U_RINDEX, U_EMPTY
src: ustr.c, obj.c
native: str
native_includes: ustr.c
enforce: spif_ustr_rindex
*/
/*@unit
name: ustr_rindex.nonempty
define: VP=ustr, U_RINDEX, U_NONEMPTY
src: ustr.c, obj.c
native: str
native_includes: ustr.c
enforce: spif_ustr_rindex
*/
/*@unit
name: ustr_find.empty
define: VP=ustr, U_FIND, U_EMPTY, U_OTHER_NONEMPTY
src: ustr.c, obj.c
native: str
native_includes: ustr.c
enforce: spif_ustr_find
*/
/*@unit
name: ustr_find.nonempty
define: VP=ustr, U_FIND, U_NONEMPTY, U_OTHER_NONEMPTY
src: ustr.c, obj.c
native: str
native_includes: ustr.c
enforce: spif_ustr_find
*/
/*@unit
name: ustr_find.other_empty
define: VP=ustr, U_FIND, U_NONEMPTY, U_OTHER_EMPTY
src: ustr.c, obj.c
native: str
native_includes: ustr.c
enforce: spif_ustr_find
*/
/*@unit
name: ustr_find_from_ptr.empty
define: VP=ustr, U_FIND_FROM_PTR, U_EMPTY
src: ustr.c, obj.c
native: str
native_includes: ustr.c
enforce: spif_ustr_find_from_ptr
*/
/*@unit
name: ustr_find_from_ptr.nonempty
define: VP=ustr, U_FIND_FROM_PTR, U_NONEMPTY
src: ustr.c, obj.c
native: str
native_includes: ustr.c
enforce: spif_ustr_find_from_ptr
*/
#include "str.h"

#define R __CPROVER_return_value

#if defined(U_INDEX) || defined(U_RINDEX)
#ifdef U_INDEX
VIDX VF(index)(VT self, spif_char_t c)
#else
VIDX VF(rindex)(VT self, spif_char_t c)
#endif
__CPROVER_requires(STR_SELF_PRE(self))
__CPROVER_assigns()
__CPROVER_ensures(0 <= R && R <= self->len)
#ifdef U_EMPTY
__CPROVER_ensures(R == 0)
#else
__CPROVER_ensures(R == self->len || self->s[R] == c)
#ifdef U_INDEX
__CPROVER_ensures(R == self->len || !(vg_k < (size_t) R) || self->s[vg_k] != c)
#endif
#endif
;
void harness(void)
{
    VT self; spif_char_t c;
    STR_BIND_CLASS();
#ifdef U_INDEX
    VF(index)(self, c);
#else
    VF(rindex)(self, c);
#endif
    VERIF_CANARY();
}
#endif

#ifdef U_FIND
/* needle NULL: refused with -1.  Empty needle (len 0) is found at 0. */
VIDX VF(find)(VT self, VT other)
__CPROVER_requires(STR_SELF_PRE(self))
__CPROVER_requires(STR_OTHER_PRE(other))
__CPROVER_assigns()
__CPROVER_ensures(other != NULL || R == -1)
__CPROVER_ensures(other == NULL || (0 <= R && R <= self->len))
#ifdef U_EMPTY
__CPROVER_ensures(other == NULL || R == 0)
#else
#ifdef U_OTHER_EMPTY
__CPROVER_ensures(R == 0)                         /* a needle without text is the empty needle: found at 0 */
#else
__CPROVER_ensures(other == NULL || other->s[0] != 0 || R == 0)
__CPROVER_ensures(other == NULL || other->s[0] == 0 || R == self->len || self->s[R] == other->s[0])
#endif
#endif
;
void harness(void)
{
    VT self, other;
    STR_BIND_CLASS();
    VF(find)(self, other);
    VERIF_CANARY();
}
#endif

#ifdef U_FIND_FROM_PTR
VIDX VF(find_from_ptr)(VT self, spif_charptr_t other)
__CPROVER_requires(STR_SELF_PRE(self))
__CPROVER_requires(other == NULL || VCSTR_FRESH(other, vg_n1))
__CPROVER_assigns()
__CPROVER_ensures(other != NULL || R == -1)
__CPROVER_ensures(other == NULL || (0 <= R && R <= self->len))
#ifdef U_EMPTY
__CPROVER_ensures(other == NULL || R == 0)
#else
__CPROVER_ensures(other == NULL || other[0] != 0 || R == 0)
__CPROVER_ensures(other == NULL || other[0] == 0 || R == self->len || self->s[R] == other[0])
#endif
;
void harness(void)
{
    VT self; spif_charptr_t other;
    STR_BIND_CLASS();
    VF(find_from_ptr)(self, other);
    VERIF_CANARY();
}
#endif
