/* C01: substr / substr_to_ptr / splice / splice_from_ptr of str and ustr for indices and counts of either sign.
 * Index rule (statement + the convention used by every substr in libast): a negative idx counts from the end;
 * the normalised idx must lie inside the text (0 <= I < len), otherwise the call is refused (NULL / FALSE) and
 * nothing changes.  Count rule: substr: cnt <= 0 means "up to |cnt| characters before the end", then clipped to
 * the rest of the text; splice: cnt < 0 means the same, and a count that does not fit (C < 0 or C > len-I) is
 * refused.  Accepted calls: substr results are fresh, caller-owned and hold text[I, I+C); splice replaces
 * text[I, I+C) by the other text (ghost index vg_k over the whole result).  self is not written by substr*.
 * Behaviours: .empty / .nonempty.  The accepted path of splice (malloc + 4 memcpy + realloc + free) is too large for
 * one query; it is decomposed into units whose union is the whole contract for cnt >= 0:
 * .refused  refused calls, all checks            .safety  accepted calls, ALL generic checks + frame + length + capacity
 * .term / .head / .ins / .tail  accepted calls, one content clause each (generic checks are in .safety)
 * .negcnt   negative count: acceptance and resulting length (content is covered by the other units' clauses)
 * These units use the over-approximating memcpy/realloc models of env_str.h with only the instances they need. */

/*@unit
name: str_substr.empty
define: VP=str, U_SUBSTR, U_EMPTY
src: str.c, obj.c
native: str
native_includes: str.c
enforce: spif_str_substr
backend: sat,z3
timeout: 200
flags: --slice-formula
*/
/*@unit
name: str_substr.nonempty
define: VP=str, U_SUBSTR, U_NONEMPTY
src: str.c, obj.c
native: str
native_includes: str.c
enforce: spif_str_substr
backend: sat,z3
timeout: 200
flags: --slice-formula
*/
/*@unit
name: str_substr_to_ptr.empty
define: VP=str, U_SUBSTR_TO_PTR, U_EMPTY
src: str.c, obj.c
native: str
native_includes: str.c
enforce: spif_str_substr_to_ptr
backend: sat,z3
timeout: 200
flags: --slice-formula
*/
/*@unit
name: str_substr_to_ptr.nonempty
define: VP=str, U_SUBSTR_TO_PTR, U_NONEMPTY
src: str.c, obj.c
native: str
native_includes: str.c
enforce: spif_str_substr_to_ptr
backend: sat,z3
timeout: 200
flags: --slice-formula
*/
/*@unit
name: str_splice.empty
define: VP=str, U_SPLICE, U_EMPTY, U_OTHER_NONEMPTY
src: str.c, obj.c
native: str
native_includes: str.c
enforce: spif_str_splice
backend: sat,z3
timeout: 200
flags: --slice-formula
*/
/*@unit
name: str_splice.refused
define: VP=str, VSTR_INST=0, VSTR_OWN_MEMCPY, VSTR_OWN_REALLOC, U_SPLICE, U_NONEMPTY, U_REFUSED, U_POSCNT
src: str.c, obj.c
native: str
native_includes: str.c
enforce: spif_str_splice
backend: kissat,sat
timeout: 600
flags: --slice-formula
*/
/*@unit
name: str_splice.safety
define: VP=str, VSTR_INST=0, VSTR_OWN_MEMCPY, VSTR_OWN_REALLOC, U_SPLICE, U_NONEMPTY, U_ACCEPTED, U_POSCNT, U_ENS_CORE
src: str.c, obj.c
native: str
native_includes: str.c
enforce: spif_str_splice
backend: kissat,sat
timeout: 600
flags: --slice-formula
*/
/*@unit
name: str_splice.term
define: VP=str, VSTR_INST=2, VSTR_OWN_MEMCPY, VSTR_OWN_REALLOC, U_SPLICE, U_NONEMPTY, U_ACCEPTED, U_POSCNT, U_ENS_TERM
src: str.c, obj.c
native: str
native_includes: str.c
enforce: spif_str_splice
backend: kissat,sat
timeout: 600
flags: --slice-formula
checks_off: --bounds-check --pointer-check --pointer-overflow-check --signed-overflow-check --conversion-check --div-by-zero-check --undefined-shift-check --pointer-primitive-check
*/
/*@unit
name: str_splice.head
define: VP=str, VSTR_INST=8, VSTR_OWN_MEMCPY, VSTR_OWN_REALLOC, U_SPLICE, U_NONEMPTY, U_ACCEPTED, U_POSCNT, U_VIEW_HEAD
src: str.c, obj.c
native: str
native_includes: str.c
enforce: spif_str_splice
backend: kissat,sat
timeout: 600
flags: --slice-formula
checks_off: --bounds-check --pointer-check --pointer-overflow-check --signed-overflow-check --conversion-check --div-by-zero-check --undefined-shift-check --pointer-primitive-check
quick: no
*/
/*@unit
name: str_splice.ins
define: VP=str, VSTR_INST=24, VSTR_OWN_MEMCPY, VSTR_OWN_REALLOC, U_SPLICE, U_NONEMPTY, U_ACCEPTED, U_POSCNT, U_VIEW_INS
src: str.c, obj.c
native: str
native_includes: str.c
enforce: spif_str_splice
backend: kissat,sat
timeout: 600
flags: --slice-formula
checks_off: --bounds-check --pointer-check --pointer-overflow-check --signed-overflow-check --conversion-check --div-by-zero-check --undefined-shift-check --pointer-primitive-check
quick: no
*/
/*@unit
name: str_splice.tail
define: VP=str, VSTR_INST=32, VSTR_OWN_MEMCPY, VSTR_OWN_REALLOC, U_SPLICE, U_NONEMPTY, U_ACCEPTED, U_POSCNT, U_VIEW_TAIL
src: str.c, obj.c
native: str
native_includes: str.c
enforce: spif_str_splice
backend: kissat,sat
timeout: 600
flags: --slice-formula
checks_off: --bounds-check --pointer-check --pointer-overflow-check --signed-overflow-check --conversion-check --div-by-zero-check --undefined-shift-check --pointer-primitive-check
quick: no
*/
/*@unit
name: str_splice.negcnt
define: VP=str, VSTR_INST=2, VSTR_OWN_MEMCPY, VSTR_OWN_REALLOC, U_SPLICE, U_NONEMPTY, U_NEGCNT, U_ENS_ACCEPT
src: str.c, obj.c
native: str
native_includes: str.c
enforce: spif_str_splice
backend: kissat,sat
timeout: 600
flags: --slice-formula
checks_off: --bounds-check --pointer-check --pointer-overflow-check --signed-overflow-check --conversion-check --div-by-zero-check --undefined-shift-check --pointer-primitive-check
*/
/*@unit
name: str_splice_from_ptr.empty
define: VP=str, U_SPLICE_FROM_PTR, U_EMPTY
src: str.c, obj.c
native: str
native_includes: str.c
enforce: spif_str_splice_from_ptr
backend: sat,z3
timeout: 200
flags: --slice-formula
*/
/*@unit
name: str_splice_from_ptr.refused
define: VP=str, VSTR_INST=0, VSTR_OWN_MEMCPY, VSTR_OWN_REALLOC, U_SPLICE_FROM_PTR, U_NONEMPTY, U_REFUSED, U_POSCNT
src: str.c, obj.c
native: str
native_includes: str.c
enforce: spif_str_splice_from_ptr
backend: kissat,sat
timeout: 600
flags: --slice-formula
*/
/*@unit
name: str_splice_from_ptr.safety
define: VP=str, VSTR_INST=0, VSTR_OWN_MEMCPY, VSTR_OWN_REALLOC, U_SPLICE_FROM_PTR, U_NONEMPTY, U_ACCEPTED, U_POSCNT, U_ENS_CORE
src: str.c, obj.c
native: str
native_includes: str.c
enforce: spif_str_splice_from_ptr
backend: kissat,sat
timeout: 600
flags: --slice-formula
*/
/*@unit
name: str_splice_from_ptr.term
define: VP=str, VSTR_INST=2, VSTR_OWN_MEMCPY, VSTR_OWN_REALLOC, U_SPLICE_FROM_PTR, U_NONEMPTY, U_ACCEPTED, U_POSCNT, U_ENS_TERM
src: str.c, obj.c
native: str
native_includes: str.c
enforce: spif_str_splice_from_ptr
backend: kissat,sat
timeout: 600
flags: --slice-formula
checks_off: --bounds-check --pointer-check --pointer-overflow-check --signed-overflow-check --conversion-check --div-by-zero-check --undefined-shift-check --pointer-primitive-check
*/
/*@unit
name: str_splice_from_ptr.head
define: VP=str, VSTR_INST=8, VSTR_OWN_MEMCPY, VSTR_OWN_REALLOC, U_SPLICE_FROM_PTR, U_NONEMPTY, U_ACCEPTED, U_POSCNT, U_VIEW_HEAD
src: str.c, obj.c
native: str
native_includes: str.c
enforce: spif_str_splice_from_ptr
backend: kissat,sat
timeout: 600
flags: --slice-formula
checks_off: --bounds-check --pointer-check --pointer-overflow-check --signed-overflow-check --conversion-check --div-by-zero-check --undefined-shift-check --pointer-primitive-check
quick: no
*/
/*@unit
name: str_splice_from_ptr.ins
define: VP=str, VSTR_INST=24, VSTR_OWN_MEMCPY, VSTR_OWN_REALLOC, U_SPLICE_FROM_PTR, U_NONEMPTY, U_ACCEPTED, U_POSCNT, U_VIEW_INS
src: str.c, obj.c
native: str
native_includes: str.c
enforce: spif_str_splice_from_ptr
backend: kissat,sat
timeout: 600
flags: --slice-formula
checks_off: --bounds-check --pointer-check --pointer-overflow-check --signed-overflow-check --conversion-check --div-by-zero-check --undefined-shift-check --pointer-primitive-check
quick: no
*/
/*@unit
name: str_splice_from_ptr.tail
define: VP=str, VSTR_INST=32, VSTR_OWN_MEMCPY, VSTR_OWN_REALLOC, U_SPLICE_FROM_PTR, U_NONEMPTY, U_ACCEPTED, U_POSCNT, U_VIEW_TAIL
src: str.c, obj.c
native: str
native_includes: str.c
enforce: spif_str_splice_from_ptr
backend: kissat,sat
timeout: 600
flags: --slice-formula
checks_off: --bounds-check --pointer-check --pointer-overflow-check --signed-overflow-check --conversion-check --div-by-zero-check --undefined-shift-check --pointer-primitive-check
quick: no
*/
/*@unit
name: str_splice_from_ptr.negcnt
define: VP=str, VSTR_INST=2, VSTR_OWN_MEMCPY, VSTR_OWN_REALLOC, U_SPLICE_FROM_PTR, U_NONEMPTY, U_NEGCNT, U_ENS_ACCEPT
src: str.c, obj.c
native: str
native_includes: str.c
enforce: spif_str_splice_from_ptr
backend: kissat,sat
timeout: 600
flags: --slice-formula
checks_off: --bounds-check --pointer-check --pointer-overflow-check --signed-overflow-check --conversion-check --div-by-zero-check --undefined-shift-check --pointer-primitive-check
*/
/*@unit
name: ustr_substr.empty
define: VP=ustr, U_SUBSTR, U_EMPTY
src: ustr.c, obj.c
native: str
native_includes: ustr.c
enforce: spif_ustr_substr
backend: sat,z3
timeout: 200
flags: --slice-formula
*/
/*@unit
name: ustr_substr.nonempty
define: VP=ustr, U_SUBSTR, U_NONEMPTY
src: ustr.c, obj.c
native: str
native_includes: ustr.c
enforce: spif_ustr_substr
backend: sat,z3
timeout: 200
flags: --slice-formula
*/
/*@unit
name: ustr_substr_to_ptr.empty
define: VP=ustr, U_SUBSTR_TO_PTR, U_EMPTY
src: ustr.c, obj.c
native: str
native_includes: ustr.c
enforce: spif_ustr_substr_to_ptr
backend: sat,z3
timeout: 200
flags: --slice-formula
*/
/*@unit
name: ustr_substr_to_ptr.nonempty
define: VP=ustr, U_SUBSTR_TO_PTR, U_NONEMPTY
src: ustr.c, obj.c
native: str
native_includes: ustr.c
enforce: spif_ustr_substr_to_ptr
backend: sat,z3
timeout: 200
flags: --slice-formula
*/
/*@unit
name: ustr_splice.empty
define: VP=ustr, U_SPLICE, U_EMPTY, U_OTHER_NONEMPTY
src: ustr.c, obj.c
native: str
native_includes: ustr.c
enforce: spif_ustr_splice
backend: sat,z3
timeout: 200
flags: --slice-formula
*/
/*@unit
name: ustr_splice.refused
define: VP=ustr, VSTR_INST=0, VSTR_OWN_MEMCPY, VSTR_OWN_REALLOC, U_SPLICE, U_NONEMPTY, U_REFUSED, U_POSCNT
src: ustr.c, obj.c
native: str
native_includes: ustr.c
enforce: spif_ustr_splice
backend: kissat,sat
timeout: 600
flags: --slice-formula
*/
/*@unit
name: ustr_splice.safety
define: VP=ustr, VSTR_INST=0, VSTR_OWN_MEMCPY, VSTR_OWN_REALLOC, U_SPLICE, U_NONEMPTY, U_ACCEPTED, U_POSCNT, U_ENS_CORE
src: ustr.c, obj.c
native: str
native_includes: ustr.c
enforce: spif_ustr_splice
backend: kissat,sat
timeout: 600
flags: --slice-formula
quick: no
*/
/*@unit
name: ustr_splice.term
define: VP=ustr, VSTR_INST=2, VSTR_OWN_MEMCPY, VSTR_OWN_REALLOC, U_SPLICE, U_NONEMPTY, U_ACCEPTED, U_POSCNT, U_ENS_TERM
src: ustr.c, obj.c
native: str
native_includes: ustr.c
enforce: spif_ustr_splice
backend: kissat,sat
timeout: 600
flags: --slice-formula
checks_off: --bounds-check --pointer-check --pointer-overflow-check --signed-overflow-check --conversion-check --div-by-zero-check --undefined-shift-check --pointer-primitive-check
quick: no
*/
/*@unit
name: ustr_splice.head
define: VP=ustr, VSTR_INST=8, VSTR_OWN_MEMCPY, VSTR_OWN_REALLOC, U_SPLICE, U_NONEMPTY, U_ACCEPTED, U_POSCNT, U_VIEW_HEAD
src: ustr.c, obj.c
native: str
native_includes: ustr.c
enforce: spif_ustr_splice
backend: kissat,sat
timeout: 600
flags: --slice-formula
checks_off: --bounds-check --pointer-check --pointer-overflow-check --signed-overflow-check --conversion-check --div-by-zero-check --undefined-shift-check --pointer-primitive-check
quick: no
*/
/*@unit
name: ustr_splice.ins
define: VP=ustr, VSTR_INST=24, VSTR_OWN_MEMCPY, VSTR_OWN_REALLOC, U_SPLICE, U_NONEMPTY, U_ACCEPTED, U_POSCNT, U_VIEW_INS
src: ustr.c, obj.c
native: str
native_includes: ustr.c
enforce: spif_ustr_splice
backend: kissat,sat
timeout: 600
flags: --slice-formula
checks_off: --bounds-check --pointer-check --pointer-overflow-check --signed-overflow-check --conversion-check --div-by-zero-check --undefined-shift-check --pointer-primitive-check
quick: no
*/
/*@unit
name: ustr_splice.tail
define: VP=ustr, VSTR_INST=32, VSTR_OWN_MEMCPY, VSTR_OWN_REALLOC, U_SPLICE, U_NONEMPTY, U_ACCEPTED, U_POSCNT, U_VIEW_TAIL
src: ustr.c, obj.c
native: str
native_includes: ustr.c
enforce: spif_ustr_splice
backend: kissat,sat
timeout: 600
flags: --slice-formula
checks_off: --bounds-check --pointer-check --pointer-overflow-check --signed-overflow-check --conversion-check --div-by-zero-check --undefined-shift-check --pointer-primitive-check
quick: no
*/
/*@unit
name: ustr_splice.negcnt
define: VP=ustr, VSTR_INST=2, VSTR_OWN_MEMCPY, VSTR_OWN_REALLOC, U_SPLICE, U_NONEMPTY, U_NEGCNT, U_ENS_ACCEPT
src: ustr.c, obj.c
native: str
native_includes: ustr.c
enforce: spif_ustr_splice
backend: kissat,sat
timeout: 600
flags: --slice-formula
checks_off: --bounds-check --pointer-check --pointer-overflow-check --signed-overflow-check --conversion-check --div-by-zero-check --undefined-shift-check --pointer-primitive-check
quick: no
*/
/*@unit
name: ustr_splice_from_ptr.empty
define: VP=ustr, U_SPLICE_FROM_PTR, U_EMPTY
src: ustr.c, obj.c
native: str
native_includes: ustr.c
enforce: spif_ustr_splice_from_ptr
backend: sat,z3
timeout: 200
flags: --slice-formula
*/
/*@unit
name: ustr_splice_from_ptr.refused
define: VP=ustr, VSTR_INST=0, VSTR_OWN_MEMCPY, VSTR_OWN_REALLOC, U_SPLICE_FROM_PTR, U_NONEMPTY, U_REFUSED, U_POSCNT
src: ustr.c, obj.c
native: str
native_includes: ustr.c
enforce: spif_ustr_splice_from_ptr
backend: kissat,sat
timeout: 600
flags: --slice-formula
*/
/*@unit
name: ustr_splice_from_ptr.safety
define: VP=ustr, VSTR_INST=0, VSTR_OWN_MEMCPY, VSTR_OWN_REALLOC, U_SPLICE_FROM_PTR, U_NONEMPTY, U_ACCEPTED, U_POSCNT, U_ENS_CORE
src: ustr.c, obj.c
native: str
native_includes: ustr.c
enforce: spif_ustr_splice_from_ptr
backend: kissat,sat
timeout: 600
flags: --slice-formula
quick: no
*/
/*@unit
name: ustr_splice_from_ptr.term
define: VP=ustr, VSTR_INST=2, VSTR_OWN_MEMCPY, VSTR_OWN_REALLOC, U_SPLICE_FROM_PTR, U_NONEMPTY, U_ACCEPTED, U_POSCNT, U_ENS_TERM
src: ustr.c, obj.c
native: str
native_includes: ustr.c
enforce: spif_ustr_splice_from_ptr
backend: kissat,sat
timeout: 600
flags: --slice-formula
checks_off: --bounds-check --pointer-check --pointer-overflow-check --signed-overflow-check --conversion-check --div-by-zero-check --undefined-shift-check --pointer-primitive-check
quick: no
*/
/*@unit
name: ustr_splice_from_ptr.head
define: VP=ustr, VSTR_INST=8, VSTR_OWN_MEMCPY, VSTR_OWN_REALLOC, U_SPLICE_FROM_PTR, U_NONEMPTY, U_ACCEPTED, U_POSCNT, U_VIEW_HEAD
src: ustr.c, obj.c
native: str
native_includes: ustr.c
enforce: spif_ustr_splice_from_ptr
backend: kissat,sat
timeout: 600
flags: --slice-formula
checks_off: --bounds-check --pointer-check --pointer-overflow-check --signed-overflow-check --conversion-check --div-by-zero-check --undefined-shift-check --pointer-primitive-check
quick: no
*/
/*@unit
name: ustr_splice_from_ptr.ins
define: VP=ustr, VSTR_INST=24, VSTR_OWN_MEMCPY, VSTR_OWN_REALLOC, U_SPLICE_FROM_PTR, U_NONEMPTY, U_ACCEPTED, U_POSCNT, U_VIEW_INS
src: ustr.c, obj.c
native: str
native_includes: ustr.c
enforce: spif_ustr_splice_from_ptr
backend: kissat,sat
timeout: 600
flags: --slice-formula
checks_off: --bounds-check --pointer-check --pointer-overflow-check --signed-overflow-check --conversion-check --div-by-zero-check --undefined-shift-check --pointer-primitive-check
quick: no
*/
/*@unit
name: ustr_splice_from_ptr.tail
define: VP=ustr, VSTR_INST=32, VSTR_OWN_MEMCPY, VSTR_OWN_REALLOC, U_SPLICE_FROM_PTR, U_NONEMPTY, U_ACCEPTED, U_POSCNT, U_VIEW_TAIL
src: ustr.c, obj.c
native: str
native_includes: ustr.c
enforce: spif_ustr_splice_from_ptr
backend: kissat,sat
timeout: 600
flags: --slice-formula
checks_off: --bounds-check --pointer-check --pointer-overflow-check --signed-overflow-check --conversion-check --div-by-zero-check --undefined-shift-check --pointer-primitive-check
quick: no
*/
/*@unit
name: ustr_splice_from_ptr.negcnt
define: VP=ustr, VSTR_INST=2, VSTR_OWN_MEMCPY, VSTR_OWN_REALLOC, U_SPLICE_FROM_PTR, U_NONEMPTY, U_NEGCNT, U_ENS_ACCEPT
src: ustr.c, obj.c
native: str
native_includes: ustr.c
enforce: spif_ustr_splice_from_ptr
backend: kissat,sat
timeout: 600
flags: --slice-formula
checks_off: --bounds-check --pointer-check --pointer-overflow-check --signed-overflow-check --conversion-check --div-by-zero-check --undefined-shift-check --pointer-primitive-check
quick: no
*/
#include "str.h"

#define R __CPROVER_return_value
long w_idx, w_cnt;

/* normalised index, raw count, acceptance, clipped count (entry-state len; self->len is not written by substr*) */
#define N_I(len, idx)        ((idx) < 0 ? (len) + (idx) : (idx))
#define IDX_OK(len, idx)     (N_I(len, idx) >= 0 && N_I(len, idx) < (len))

#if defined(U_SUBSTR) || defined(U_SUBSTR_TO_PTR)
#define SUB_C0(len, idx, cnt) ((cnt) <= 0 ? (len) - N_I(len, idx) + (cnt) : (cnt))
#define SUB_OK(len, idx, cnt) (IDX_OK(len, idx) && SUB_C0(len, idx, cnt) >= 0)
#define SUB_C(len, idx, cnt)  (SUB_C0(len, idx, cnt) > (len) - N_I(len, idx) ? (len) - N_I(len, idx) : SUB_C0(len, idx, cnt))
#define L  (self->len)
#endif

#ifdef U_SUBSTR
/* the result's length is what strnlen reports for the slice (<= C); it IS C when the text has no NUL inside the
 * slice: stated for the ghost instance vg_j (no NUL at text position vg_j) at the position where strnlen stopped */
VT VF(substr)(VT self, VIDX idx, VIDX cnt)
__CPROVER_requires(STR_SELF_PRE(self))
#ifdef U_NONEMPTY
__CPROVER_requires(!(vg_j < (size_t) self->len) || self->s[vg_j] != 0)
#endif
__CPROVER_assigns(vg_slen, vg_slen_ptr)
__CPROVER_ensures(SUB_OK(L, idx, cnt) || R == NULL)
__CPROVER_ensures(!SUB_OK(L, idx, cnt) || (__CPROVER_is_fresh(R, sizeof(*R)) && STR_HAS_CLASS(R)))
__CPROVER_ensures(!SUB_OK(L, idx, cnt) || (STR_NONEMPTY_POST(R) && __CPROVER_is_fresh(R->s, (size_t) R->size)))
__CPROVER_ensures(!SUB_OK(L, idx, cnt) || (R->len <= SUB_C(L, idx, cnt) && (size_t) R->len == vg_slen))
#ifdef U_NONEMPTY
__CPROVER_ensures(!SUB_OK(L, idx, cnt) || !(vg_k < (size_t) R->len) || R->s[vg_k] == self->s[(size_t) N_I(L, idx) + vg_k])
__CPROVER_ensures(!SUB_OK(L, idx, cnt) || vg_j != (size_t) (N_I(L, idx) + R->len) || R->len == SUB_C(L, idx, cnt))
#endif
;
void harness(void)
{
    VT self; VIDX idx, cnt;
    STR_BIND_CLASS();
    w_idx = idx; w_cnt = cnt;
    VF(substr)(self, idx, cnt);
    VERIF_CANARY();
}
#endif

#ifdef U_SUBSTR_TO_PTR
spif_charptr_t VF(substr_to_ptr)(VT self, VIDX idx, VIDX cnt)
__CPROVER_requires(STR_SELF_PRE(self))
__CPROVER_assigns()
__CPROVER_ensures(SUB_OK(L, idx, cnt) || R == NULL)
__CPROVER_ensures(!SUB_OK(L, idx, cnt) || __CPROVER_is_fresh(R, (size_t) SUB_C(L, idx, cnt) + 1))
__CPROVER_ensures(!SUB_OK(L, idx, cnt) || R[SUB_C(L, idx, cnt)] == 0)
#ifdef U_NONEMPTY
__CPROVER_ensures(!SUB_OK(L, idx, cnt) || !(vg_k < (size_t) SUB_C(L, idx, cnt)) || R[vg_k] == self->s[(size_t) N_I(L, idx) + vg_k])
#endif
;
void harness(void)
{
    VT self; VIDX idx, cnt;
    STR_BIND_CLASS();
    w_idx = idx; w_cnt = cnt;
    VF(substr_to_ptr)(self, idx, cnt);
    VERIF_CANARY();
}
#endif

#if defined(U_SPLICE) || defined(U_SPLICE_FROM_PTR)
#define OL0  __CPROVER_old(self->len)
#define SPL_C(len, idx, cnt)  ((cnt) < 0 ? (len) - N_I(len, idx) + (cnt) : (cnt))
#define SPL_OK(len, idx, cnt) (IDX_OK(len, idx) && SPL_C(len, idx, cnt) >= 0 && SPL_C(len, idx, cnt) <= (len) - N_I(len, idx))
#ifdef U_SPLICE
# define OLEN        (other == NULL ? (VIDX) 0 : other->len)
# define OLEN_PRE    OLEN
# define OBYTE(k)    (other->s[(k)])
# define OTHER_REQ   __CPROVER_requires(STR_OTHER_PRE(other))
# define SPL_ASSIGNS STR_ASSIGNS(self)
spif_bool_t VF(splice)(VT self, VIDX idx, VIDX cnt, VT other)
#else
/* the inserted text is the C string other (NULL = nothing inserted), length = what strlen reports */
# define OLEN        (other == NULL ? (VIDX) 0 : (VIDX) vg_slen)
# define OLEN_PRE    (other == NULL ? (VIDX) 0 : (VIDX) vg_n1)
# define OBYTE(k)    (other[(k)])
# define OTHER_REQ   __CPROVER_requires(other == NULL || VCSTR_FRESH(other, vg_n1))
# define SPL_ASSIGNS STR_ASSIGNS(self); vg_slen, vg_slen_ptr
spif_bool_t VF(splice_from_ptr)(VT self, VIDX idx, VIDX cnt, spif_charptr_t other)
#endif
__CPROVER_requires(STR_SELF_PRE(self))
OTHER_REQ
/* ghost binding (vg_k2 is arbitrary, so nothing is restricted): result position of inserted byte vg_k */
__CPROVER_requires(!IDX_OK(self->len, idx) || vg_k2 == (size_t) N_I(self->len, idx) + vg_k)
#ifdef U_POSCNT
__CPROVER_requires(cnt >= 0)
#endif
#ifdef U_NEGCNT
__CPROVER_requires(cnt < 0)
#endif
#ifdef U_POSIDX
__CPROVER_requires(idx >= 0)
#endif
#ifdef U_NEGIDX
__CPROVER_requires(idx < 0)
#endif
/* path behaviours (their union is the whole precondition) */
#ifdef U_REFUSED
__CPROVER_requires(!SPL_OK(self->len, idx, cnt))
#endif
#ifdef U_ACCEPTED
__CPROVER_requires(SPL_OK(self->len, idx, cnt))
#endif
__CPROVER_assigns(SPL_ASSIGNS)
__CPROVER_frees(self->s)
#if !defined(U_ACCEPTED)
/* refused: nothing changes */
__CPROVER_ensures(SPL_OK(OL0, idx, cnt) || (R == FALSE && STR_UNCHANGED(self)))
#if defined(U_NONEMPTY) && !defined(U_ENS_ACCEPT)
__CPROVER_ensures(SPL_OK(OL0, idx, cnt) || !(vg_k < (size_t) OL0) || self->s[vg_k] == STR_OLD_AT(self, vg_k))
__CPROVER_ensures(SPL_OK(OL0, idx, cnt) || self->s[OL0] == 0)
#endif
#endif
#if !defined(U_REFUSED)
/* accepted */
#if !defined(U_ACCEPTED) || defined(U_ENS_CORE) || defined(U_ENS_ACCEPT)
__CPROVER_ensures(!SPL_OK(OL0, idx, cnt) || R == TRUE)
__CPROVER_ensures(!SPL_OK(OL0, idx, cnt) || self->len == OL0 + OLEN - SPL_C(OL0, idx, cnt))
__CPROVER_ensures(!SPL_OK(OL0, idx, cnt) || (0 <= self->len && self->len < self->size && self->s != NULL &&
                  __CPROVER_POINTER_OFFSET(self->s) == 0 && __CPROVER_rw_ok(self->s, (size_t) self->size)))
#endif
#if !defined(U_ACCEPTED) || defined(U_ENS_TERM)
__CPROVER_ensures(!SPL_OK(OL0, idx, cnt) || self->s[self->len] == 0)
#endif
#if defined(U_NONEMPTY) && defined(U_VIEW_HEAD)
__CPROVER_ensures(!SPL_OK(OL0, idx, cnt) || !(vg_k < (size_t) N_I(OL0, idx)) || self->s[vg_k] == STR_OLD_AT(self, vg_k))
#endif
#if defined(U_NONEMPTY) && defined(U_VIEW_INS)
__CPROVER_ensures(!SPL_OK(OL0, idx, cnt) || !(vg_k < (size_t) OLEN) || self->s[(size_t) N_I(OL0, idx) + vg_k] == OBYTE(vg_k))
#endif
#if defined(U_NONEMPTY) && defined(U_VIEW_TAIL)
/* tail, counted from the end: the vg_k-th character before the end is the old vg_k-th character before the end */
__CPROVER_ensures(!SPL_OK(OL0, idx, cnt) || !(vg_k < (size_t) OL0 && (size_t) (N_I(OL0, idx) + SPL_C(OL0, idx, cnt)) + vg_k < (size_t) OL0) ||
                  self->s[(size_t) self->len - 1 - vg_k] ==
                  __CPROVER_old(self->s[STR_KIDX(self, (size_t) self->len - 1 - STR_KIDX(self, vg_k))]))
#endif
#endif
;
void harness(void)
{
    VT self; VIDX idx, cnt;
#ifdef U_SPLICE
    VT other;
#else
    spif_charptr_t other;
#endif
    STR_BIND_CLASS();
    w_idx = idx; w_cnt = cnt;
#ifdef U_SPLICE
    VF(splice)(self, idx, cnt, other);
#else
    VF(splice_from_ptr)(self, idx, cnt, other);
#endif
    VERIF_CANARY();
}
#endif
