/* C01 (and C19 for the descriptor reader): stream constructors init_from_fp / init_from_fd of str and ustr against
 * the fgets / read stubs of env_str.h (every outcome the man pages allow), and sprintf against the vsnprintf stub.
 * init_from_fp: the object becomes the next line of the stream (newline dropped) or what is left before EOF:
 * invariant, len = number of bytes delivered before the first NUL / the newline, fresh buffer, no access outside it.
 * init_from_fd: the object becomes everything read() delivers until end of file: invariant, len = bytes delivered.
 * sprintf: invariant in every outcome of vsnprintf (format semantics are not modelled).
 * The two readers' loops are wrong as soon as a second chunk is needed (stale cursor after REALLOC, +4096 step
 * after a 4095-byte fgets, -1 added on EINTR): no loop invariant of a correct reader holds, so these units are
 * bounded stand-ins (tier B, loops unwound) split by what the stubs deliver first. */

/*@unit
name: str_init_from_fp.line
define: VP=str, U_FP, U_FP_LINE
src: str.c, obj.c
native: str
native_includes: str.c
enforce: spif_str_init_from_fp
tier: B
unwind: 3
backend: sat
timeout: 300
flags: --slice-formula
bound: a line of 1..4095 bytes including its newline (one fgets chunk
*/
/*@unit
name: str_init_from_fp.eof0
define: VP=str, U_FP, U_FP_EOF0
src: str.c, obj.c
native: str
native_includes: str.c
enforce: spif_str_init_from_fp
tier: B
unwind: 3
backend: sat
timeout: 300
flags: --slice-formula
bound: the stream is already at end of file
*/
/*@unit
name: str_init_from_fp.nonl
define: VP=str, U_FP, U_FP_NONL
src: str.c, obj.c
native: str
native_includes: str.c
enforce: spif_str_init_from_fp
tier: B
unwind: 3
backend: sat
timeout: 300
flags: --slice-formula
bound: the stream ends after 1..4095 bytes without a newline (one chunk, then fgets reports EOF)
*/
/*@unit
name: str_init_from_fp.long
define: VP=str, U_FP, U_FP_LONG
src: str.c, obj.c
native: str
native_includes: str.c
enforce: spif_str_init_from_fp
tier: B
unwind: 3
backend: sat
timeout: 300
flags: --slice-formula
bound: the line / rest of the stream has 4096..8190 bytes (two fgets chunks)
*/
/*@unit
name: str_init_from_fd.eof
define: VP=str, VSTR_READ_DATA_UNOBSERVED, VSTR_INST=2, VSTR_OWN_REALLOC, U_FD, VG_FIRST=2, U_ERRNO_CLEAN
src: str.c, obj.c
native: str
native_includes: str.c
enforce: spif_str_init_from_fd
tier: B
unwind: 3
backend: sat
timeout: 300
flags: --slice-formula
bound: the first read() reports end of file
*/
/*@unit
name: str_init_from_fd.eof_errno
define: VP=str, VSTR_READ_DATA_UNOBSERVED, VSTR_INST=2, VSTR_OWN_REALLOC, U_FD, VG_FIRST=2, U_ERRNO_EINTR
src: str.c, obj.c
native: str
native_includes: str.c
enforce: spif_str_init_from_fd
tier: B
unwind: 3
backend: sat
timeout: 300
flags: --slice-formula
bound: the first read() reports end of file
*/
/*@unit
name: str_init_from_fd.data
define: VP=str, VSTR_READ_DATA_UNOBSERVED, VSTR_INST=2, VSTR_OWN_REALLOC, U_FD, VG_FIRST=1
src: str.c, obj.c
native: str
native_includes: str.c
enforce: spif_str_init_from_fd
tier: B
unwind: 4
bound: the first read() delivers 1..4096 bytes, the second call has any outcome, from the third call on read() reports end of file (loop unwound 4 times, unwinding assertion on)
backend: sat
timeout: 300
flags: --slice-formula
*/
/*@unit
name: str_init_from_fd.eintr
define: VP=str, VSTR_READ_DATA_UNOBSERVED, VSTR_INST=2, VSTR_OWN_REALLOC, U_FD, VG_FIRST=3
src: str.c, obj.c
native: str
native_includes: str.c
enforce: spif_str_init_from_fd
tier: B
unwind: 4
bound: the first read() fails with EINTR, the second call has any outcome, from the third call on read() reports end of file (loop unwound 4 times, unwinding assertion on)
backend: sat
timeout: 300
flags: --slice-formula
*/
/*@unit
name: str_new_from_fp.line
define: VP=str, U_NEWFP, U_FP_LINE
src: str.c, obj.c
native: str
native_includes: str.c
enforce: spif_str_new_from_fp
tier: B
unwind: 3
backend: sat
timeout: 300
flags: --slice-formula
bound: a line of 1..4095 bytes including its newline (one fgets chunk)
*/
/*@unit
name: str_new_from_fd.eof
define: VP=str, VSTR_READ_DATA_UNOBSERVED, VSTR_INST=2, VSTR_OWN_REALLOC, U_NEWFD, VG_FIRST=2, U_ERRNO_CLEAN
src: str.c, obj.c
native: str
native_includes: str.c
enforce: spif_str_new_from_fd
tier: B
unwind: 3
backend: sat
timeout: 300
flags: --slice-formula
bound: the first read() reports end of file
*/
/*@unit
name: str_sprintf.empty
define: VP=str, U_SPRINTF, U_EMPTY
src: str.c, obj.c
native: str
native_includes: str.c
enforce: spif_str_sprintf
backend: sat,z3
timeout: 200
flags: --slice-formula
*/
/*@unit
name: str_sprintf.nonempty
define: VP=str, U_SPRINTF, U_NONEMPTY
src: str.c, obj.c
native: str
native_includes: str.c
enforce: spif_str_sprintf
backend: sat,z3
timeout: 200
flags: --slice-formula
*/
/*@unit
name: str_sprintf.intmax
define: VP=str, U_SPRINTF, U_INTMAX
src: str.c, obj.c
native: str
native_includes: str.c
enforce: spif_str_sprintf
backend: sat,z3
timeout: 200
flags: --slice-formula
*/
/*@unit
name: ustr_init_from_fp.line
define: VP=ustr, U_FP, U_FP_LINE
src: ustr.c, obj.c
native: str
native_includes: ustr.c
enforce: spif_ustr_init_from_fp
tier: B
unwind: 3
backend: sat
timeout: 300
flags: --slice-formula
bound: a line of 1..4095 bytes including its newline (one fgets chunk
*/
/*@unit
name: ustr_init_from_fp.eof0
define: VP=ustr, U_FP, U_FP_EOF0
src: ustr.c, obj.c
native: str
native_includes: ustr.c
enforce: spif_ustr_init_from_fp
tier: B
unwind: 3
backend: sat
timeout: 300
flags: --slice-formula
bound: the stream is already at end of file
*/
/*@unit
name: ustr_init_from_fp.nonl
define: VP=ustr, U_FP, U_FP_NONL
src: ustr.c, obj.c
native: str
native_includes: ustr.c
enforce: spif_ustr_init_from_fp
tier: B
unwind: 3
backend: sat
timeout: 300
flags: --slice-formula
bound: the stream ends after 1..4095 bytes without a newline (one chunk, then fgets reports EOF)
*/
/*@unit
name: ustr_init_from_fp.long
define: VP=ustr, U_FP, U_FP_LONG
src: ustr.c, obj.c
native: str
native_includes: ustr.c
enforce: spif_ustr_init_from_fp
tier: B
unwind: 3
backend: sat
timeout: 300
flags: --slice-formula
bound: the line / rest of the stream has 4096..8190 bytes (two fgets chunks)
*/
/*@unit
name: ustr_init_from_fd.eof
define: VP=ustr, VSTR_READ_DATA_UNOBSERVED, VSTR_INST=2, VSTR_OWN_REALLOC, U_FD, VG_FIRST=2, U_ERRNO_CLEAN
src: ustr.c, obj.c
native: str
native_includes: ustr.c
enforce: spif_ustr_init_from_fd
tier: B
unwind: 3
backend: sat
timeout: 300
flags: --slice-formula
bound: the first read() reports end of file
*/
/*@unit
name: ustr_init_from_fd.eof_errno
define: VP=ustr, VSTR_READ_DATA_UNOBSERVED, VSTR_INST=2, VSTR_OWN_REALLOC, U_FD, VG_FIRST=2, U_ERRNO_EINTR
src: ustr.c, obj.c
native: str
native_includes: ustr.c
enforce: spif_ustr_init_from_fd
tier: B
unwind: 3
backend: sat
timeout: 300
flags: --slice-formula
bound: the first read() reports end of file
*/
/*@unit
name: ustr_init_from_fd.data
define: VP=ustr, VSTR_READ_DATA_UNOBSERVED, VSTR_INST=2, VSTR_OWN_REALLOC, U_FD, VG_FIRST=1
src: ustr.c, obj.c
native: str
native_includes: ustr.c
enforce: spif_ustr_init_from_fd
tier: B
unwind: 4
bound: the first read() delivers 1..4096 bytes, the second call has any outcome, from the third call on read() reports end of file (loop unwound 4 times, unwinding assertion on)
backend: sat
timeout: 300
flags: --slice-formula
*/
/*@unit
name: ustr_init_from_fd.eintr
define: VP=ustr, VSTR_READ_DATA_UNOBSERVED, VSTR_INST=2, VSTR_OWN_REALLOC, U_FD, VG_FIRST=3
src: ustr.c, obj.c
native: str
native_includes: ustr.c
enforce: spif_ustr_init_from_fd
tier: B
unwind: 4
bound: the first read() fails with EINTR, the second call has any outcome, from the third call on read() reports end of file (loop unwound 4 times, unwinding assertion on)
backend: sat
timeout: 300
flags: --slice-formula
*/
/*@unit
name: ustr_new_from_fp.line
define: VP=ustr, U_NEWFP, U_FP_LINE
src: ustr.c, obj.c
native: str
native_includes: ustr.c
enforce: spif_ustr_new_from_fp
tier: B
unwind: 3
backend: sat
timeout: 300
flags: --slice-formula
bound: a line of 1..4095 bytes including its newline (one fgets chunk)
*/
/*@unit
name: ustr_new_from_fd.eof
define: VP=ustr, VSTR_READ_DATA_UNOBSERVED, VSTR_INST=2, VSTR_OWN_REALLOC, U_NEWFD, VG_FIRST=2, U_ERRNO_CLEAN
src: ustr.c, obj.c
native: str
native_includes: ustr.c
enforce: spif_ustr_new_from_fd
tier: B
unwind: 3
backend: sat
timeout: 300
flags: --slice-formula
bound: the first read() reports end of file
*/
/*@unit
name: ustr_sprintf.empty
define: VP=ustr, U_SPRINTF, U_EMPTY
src: ustr.c, obj.c
native: str
native_includes: ustr.c
enforce: spif_ustr_sprintf
backend: sat,z3
timeout: 200
flags: --slice-formula
*/
/*@unit
name: ustr_sprintf.nonempty
define: VP=ustr, U_SPRINTF, U_NONEMPTY
src: ustr.c, obj.c
native: str
native_includes: ustr.c
enforce: spif_ustr_sprintf
backend: sat,z3
timeout: 200
flags: --slice-formula
*/
/*@unit
name: ustr_sprintf.intmax
define: VP=ustr, U_SPRINTF, U_INTMAX
src: ustr.c, obj.c
native: str
native_includes: ustr.c
enforce: spif_ustr_sprintf
backend: sat,z3
timeout: 200
flags: --slice-formula
*/
#include "str.h"

#define R __CPROVER_return_value

#ifdef U_FP
spif_bool_t VF(init_from_fp)(VT self, FILE *fp)
__CPROVER_requires(STR_OBJ(self) && fp != NULL)
#if defined(U_FP_LINE)
__CPROVER_requires(vg_stream_left >= 1 && vg_stream_left <= 4095 && vg_stream_nl)
#elif defined(U_FP_EOF0)
__CPROVER_requires(vg_stream_left == 0)
#elif defined(U_FP_NONL)
__CPROVER_requires(vg_stream_left >= 1 && vg_stream_left <= 4095 && !vg_stream_nl)
#else
__CPROVER_requires(vg_stream_left >= 4096 && vg_stream_left <= 8190)
#endif
__CPROVER_requires(vg_fgets_calls == 0 && vg_stream_total == 0 && vg_stream_text && vg_fgets_buf == NULL)
__CPROVER_assigns(*self, vg_slen, vg_slen_ptr, vg_stream_left, vg_stream_total, vg_stream_nl, vg_fgets_calls, vg_fgets_buf, vg_fgets_got, vg_fgets_nl)
__CPROVER_ensures(R == TRUE && STR_HAS_CLASS(self))
__CPROVER_ensures(STR_NONEMPTY_POST(self) && __CPROVER_is_fresh(self->s, (size_t) self->size))
/* never longer than what the stream delivered for this line (newline not counted) */
__CPROVER_ensures((size_t) self->len <= __CPROVER_old(vg_stream_left))
__CPROVER_ensures(self->size == self->len + 1)
#ifdef U_FP_LINE
/* a text line: exactly the bytes before the newline */
__CPROVER_ensures((size_t) self->len + 1 == __CPROVER_old(vg_stream_left))
#endif
;
void harness(void)
{
    VT self; FILE *fp = nondet_ptr();
    STR_BIND_CLASS();
    VF(init_from_fp)(self, fp);
    VERIF_CANARY();
}
#endif

#ifdef U_FD
/* text := all bytes delivered by read() until it reports end of file (errors other than EINTR also end the input) */
spif_bool_t VF(init_from_fd)(VT self, int fd)
__CPROVER_requires(STR_OBJ(self) && fd >= 0)
__CPROVER_requires(vg_read_calls == 0 && vg_read_total == 0 && vg_read_first == VG_FIRST && vg_read_limit == 2)
#ifdef U_ERRNO_CLEAN
__CPROVER_requires(vg_errno != EINTR)
#endif
#ifdef U_ERRNO_EINTR
__CPROVER_requires(vg_errno == EINTR)
#endif
__CPROVER_assigns(*self, vg_read_calls, vg_read_total, vg_errno)
__CPROVER_ensures(R == TRUE && STR_HAS_CLASS(self))
__CPROVER_ensures(STR_NONEMPTY_POST(self) && __CPROVER_is_fresh(self->s, (size_t) self->size))
__CPROVER_ensures((size_t) self->len == vg_read_total && self->size == self->len + 1)
;
void harness(void)
{
    VT self; int fd;
    STR_BIND_CLASS();
    VF(init_from_fd)(self, fd);
    VERIF_CANARY();
}
#endif

#ifdef U_NEWFP
/* wrapper: a fresh object initialised by init_from_fp (only the well-behaved one-chunk line is stated here; the
 * reader's defects are recorded at init_from_fp) */
VT VF(new_from_fp)(FILE *fp)
__CPROVER_requires(fp != NULL && vg_stream_left >= 1 && vg_stream_left <= 4095 && vg_stream_nl)
__CPROVER_requires(vg_fgets_calls == 0 && vg_stream_total == 0 && vg_stream_text && vg_fgets_buf == NULL)
__CPROVER_assigns(vg_slen, vg_slen_ptr, vg_stream_left, vg_stream_total, vg_stream_nl, vg_fgets_calls, vg_fgets_buf, vg_fgets_got, vg_fgets_nl)
__CPROVER_ensures(__CPROVER_is_fresh(R, sizeof(*R)) && STR_HAS_CLASS(R))
__CPROVER_ensures(STR_NONEMPTY_POST(R) && __CPROVER_is_fresh(R->s, (size_t) R->size))
__CPROVER_ensures((size_t) R->len + 1 == __CPROVER_old(vg_stream_left) && R->size == R->len + 1)
;
void harness(void)
{
    FILE *fp = nondet_ptr();
    STR_BIND_CLASS();
    VF(new_from_fp)(fp);
    VERIF_CANARY();
}
#endif

#ifdef U_NEWFD
VT VF(new_from_fd)(int fd)
__CPROVER_requires(fd >= 0 && vg_read_calls == 0 && vg_read_total == 0 && vg_read_first == VG_FIRST && vg_read_limit == 2 && vg_errno != EINTR)
__CPROVER_assigns(vg_read_calls, vg_read_total, vg_errno)
__CPROVER_ensures(__CPROVER_is_fresh(R, sizeof(*R)) && STR_HAS_CLASS(R))
__CPROVER_ensures(STR_NONEMPTY_POST(R) && __CPROVER_is_fresh(R->s, (size_t) R->size))
__CPROVER_ensures(R->len == 0 && R->size == 1)
;
void harness(void)
{
    int fd;
    STR_BIND_CLASS();
    VF(new_from_fd)(fd);
    VERIF_CANARY();
}
#endif

#ifdef U_SPRINTF
/* format NULL: refused (FALSE).  Every outcome leaves a valid object; TRUE means a text of the length vsnprintf reported */
spif_bool_t VF(sprintf)(VT self, spif_charptr_t format, ...)
__CPROVER_requires(STR_SELF_PRE(self))
__CPROVER_requires(format == NULL || VCSTR_FRESH(format, vg_n1))
/* the length vsnprintf reports for the complete output: below INT_MAX / any value (behaviour .intmax) */
#ifdef U_INTMAX
__CPROVER_requires(vg_fmt_cap == INT_MAX)
#else
__CPROVER_requires(vg_fmt_cap == INT_MAX - 1)
#endif
__CPROVER_assigns(STR_ASSIGNS(self))
__CPROVER_frees(self->s)
__CPROVER_ensures(STR_INV_POST(self))
__CPROVER_ensures(format != NULL || R == FALSE)
__CPROVER_ensures(R == TRUE || R == FALSE)
;
void harness(void)
{
    VT self; spif_charptr_t format;
    STR_BIND_CLASS();
    VF(sprintf)(self, format);
    VERIF_CANARY();
}
#endif
