/* C01: constructors init / init_from_ptr / init_from_buff / init_from_num of str and ustr.
 * Each establishes the representation invariant and the view of the source text (ghost index
 * vg_k), hands out a fresh text buffer, and touches nothing but the object. */

/*@unit
name: str_init
define: VP=str, U_INIT
src: str.c, obj.c
native: str
native_includes: str.c
enforce: spif_str_init
*/
/*@unit
name: ustr_init
define: VP=ustr, U_INIT
src: ustr.c, obj.c
native: str
native_includes: ustr.c
enforce: spif_ustr_init
*/
/*@unit
name: str_init_from_ptr
define: VP=str, U_INIT_FROM_PTR
src: str.c, obj.c
native: str
native_includes: str.c
enforce: spif_str_init_from_ptr
backend: sat
timeout: 200
*/
/*@unit
name: ustr_init_from_ptr
define: VP=ustr, U_INIT_FROM_PTR
src: ustr.c, obj.c
native: str
native_includes: ustr.c
enforce: spif_ustr_init_from_ptr
backend: sat
timeout: 200
*/
/*@unit
name: str_init_from_buff
define: VP=str, U_INIT_FROM_BUFF
src: str.c, obj.c
native: str
native_includes: str.c
enforce: spif_str_init_from_buff
backend: sat
timeout: 200
*/
/*@unit
name: ustr_init_from_buff
define: VP=ustr, U_INIT_FROM_BUFF
src: ustr.c, obj.c
native: str
native_includes: ustr.c
enforce: spif_ustr_init_from_buff
backend: sat
timeout: 200
*/
/*@unit
name: str_init_from_buff.negsize
define: VP=str, U_INIT_FROM_BUFF_NEG
src: str.c, obj.c
native: str
native_includes: str.c
enforce: spif_str_init_from_buff
backend: sat,z3
timeout: 200
*/
/*@unit
name: ustr_init_from_buff.negsize
define: VP=ustr, U_INIT_FROM_BUFF_NEG
src: ustr.c, obj.c
native: str
native_includes: ustr.c
enforce: spif_ustr_init_from_buff
backend: sat,z3
timeout: 200
*/
/*@unit
name: str_init_from_num
define: VP=str, U_INIT_FROM_NUM
src: str.c, obj.c
native: str
native_includes: str.c
enforce: spif_str_init_from_num
backend: sat,z3
timeout: 200
*/
/*@unit
name: ustr_init_from_num
define: VP=ustr, U_INIT_FROM_NUM
src: ustr.c, obj.c
native: str
native_includes: ustr.c
enforce: spif_ustr_init_from_num
backend: sat,z3
timeout: 200
*/
#include "str.h"

long w_size; size_t w_n1;

#ifdef U_INIT
spif_bool_t VF(init)(VT self)
__CPROVER_requires(STR_OBJ(self))
__CPROVER_assigns(*self)
__CPROVER_ensures(__CPROVER_return_value == TRUE)
__CPROVER_ensures(STR_EMPTY(self) && STR_HAS_CLASS(self))
;
void harness(void)
{
    VT self;
    STR_BIND_CLASS();
    VF(init)(self);
    VERIF_CANARY();
}
#endif

#ifdef U_INIT_FROM_PTR
/* text := the C string old (its length is what libc strlen reports: vg_slen <= vg_n1);
 * old == NULL gives the empty state */
spif_bool_t VF(init_from_ptr)(VT self, spif_charptr_t old)
__CPROVER_requires(STR_OBJ(self))
__CPROVER_requires(old == NULL || VCSTR_FRESH(old, vg_n1))
__CPROVER_assigns(*self, vg_slen, vg_slen_ptr)
__CPROVER_ensures(__CPROVER_return_value == TRUE && STR_HAS_CLASS(self))
__CPROVER_ensures(old != NULL || STR_EMPTY(self))
__CPROVER_ensures(old == NULL || (STR_NONEMPTY_POST(self) && __CPROVER_is_fresh(self->s, (size_t) self->size)))
__CPROVER_ensures(old == NULL || ((size_t) self->len == vg_slen && vg_slen <= vg_n1))
__CPROVER_ensures(old == NULL || !(vg_k < (size_t) self->len) || self->s[vg_k] == old[vg_k])
;
void harness(void)
{
    VT self; spif_charptr_t old;
    STR_BIND_CLASS();
    w_n1 = vg_n1;
    VF(init_from_ptr)(self, old);
    VERIF_CANARY();
}
#endif

#if defined(U_INIT_FROM_BUFF) || defined(U_INIT_FROM_BUFF_NEG)
/* text := the first min(size, strlen(buff)) bytes of a counted buffer of vg_n1 accessible bytes
 * (either vg_n1 >= size or the buffer holds a NUL); reported capacity >= size and > len.
 * buff == NULL: empty text with room for size bytes. */
spif_bool_t VF(init_from_buff)(VT self, spif_charptr_t buff, VIDX size)
__CPROVER_requires(STR_OBJ(self))
__CPROVER_requires(size <= VCAP)
#ifdef U_INIT_FROM_BUFF
__CPROVER_requires(buff == NULL || (vg_n1 <= VCAP && __CPROVER_is_fresh(buff, vg_n1) &&
                                    ((VIDX) vg_n1 >= size || (vg_n1 > 0 && buff[vg_n1 - 1] == 0))))
__CPROVER_requires(size >= 0)
__CPROVER_assigns(*self, vg_slen, vg_slen_ptr)
__CPROVER_ensures(__CPROVER_return_value == TRUE && STR_HAS_CLASS(self))
__CPROVER_ensures(STR_NONEMPTY_POST(self) && __CPROVER_is_fresh(self->s, (size_t) self->size))
__CPROVER_ensures(self->size >= size && self->len <= size)
__CPROVER_ensures(buff != NULL || self->len == 0)
__CPROVER_ensures(buff == NULL || (size_t) self->len == vg_slen)
__CPROVER_ensures(buff == NULL || !(vg_k < (size_t) self->len) || self->s[vg_k] == buff[vg_k])
#else
/* a negative count is not a count: refused, nothing built, nothing read or written out of bounds */
__CPROVER_requires(size < 0)
__CPROVER_requires(buff == NULL || (vg_n1 <= VCAP && vg_n1 > 0 && __CPROVER_is_fresh(buff, vg_n1) && buff[vg_n1 - 1] == 0))
__CPROVER_assigns(*self, vg_slen, vg_slen_ptr)
__CPROVER_ensures(__CPROVER_return_value == FALSE)
#endif
;
void harness(void)
{
    VT self; spif_charptr_t buff; VIDX size;
    STR_BIND_CLASS();
    w_n1 = vg_n1; w_size = size;
    VF(init_from_buff)(self, buff, size);
    VERIF_CANARY();
}
#endif

#ifdef U_INIT_FROM_NUM
/* text := decimal rendering of num.  Format semantics are not modelled (snprintf stub writes an
 * arbitrary terminated text of at most 27 characters): proved is the invariant, the length that
 * strlen reports for the rendering, and freshness. */
spif_bool_t VF(init_from_num)(VT self, long num)
__CPROVER_requires(STR_OBJ(self))
__CPROVER_assigns(*self, vg_slen, vg_slen_ptr)
__CPROVER_ensures(__CPROVER_return_value == TRUE && STR_HAS_CLASS(self))
__CPROVER_ensures(STR_NONEMPTY_POST(self) && __CPROVER_is_fresh(self->s, (size_t) self->size))
__CPROVER_ensures((size_t) self->len == vg_slen && self->len <= 27 && self->size == self->len + 1)
;
void harness(void)
{
    VT self; long num;
    STR_BIND_CLASS();
    VF(init_from_num)(self, num);
    VERIF_CANARY();
}
#endif
