/* C01: in-place mutators clear / upcase / downcase / reverse / trim of str and ustr.
 * clear: every character becomes c, length kept.  upcase/downcase: every character is mapped by toupper/tolower
 * ("C" locale), length kept.  reverse: the text is mirrored.  trim: leading and trailing whitespace is removed -
 * the result is a contiguous slice of the old text that neither starts nor ends with whitespace, and only
 * whitespace was dropped (so an all-blank text becomes empty).  Frame: the object's fields and buffer only.
 * "The text ends at len" (no NUL inside) is used through the ghost instance vg_j: clauses that need the loop /
 * strlen to have run to len are guarded by vg_exit == vg_j (see GUIDE, exact strlen without quantifiers).
 * Behaviours: .empty = (NULL,0,0) state; .nonempty; trim: .len0 (allocated, len 0), .blank1 (one blank), .text
 * (at least one non-blank character, at ghost position vg_l3). */

/*@unit
name: str_clear.empty
define: VP=str, U_CLEAR, U_EMPTY
src: str.c, obj.c
native: str
native_includes: str.c
enforce: spif_str_clear
backend: sat,z3
timeout: 200
flags: --slice-formula
*/
/*@unit
name: str_clear.nonempty
define: VP=str, U_CLEAR, U_NONEMPTY
src: str.c, obj.c
native: str
native_includes: str.c
enforce: spif_str_clear
backend: sat,z3
timeout: 200
flags: --slice-formula
*/
/*@unit
name: str_upcase.empty
define: VP=str, U_UPCASE, U_EMPTY
src: str.c, obj.c
native: str
native_includes: str.c
enforce: spif_str_upcase
tier: B
unwind: 2
bound: empty (NULL,0,0) state only - the loop is unwound twice instead of being closed by its contract (cbmc 6.11 crashes / exhausts memory on a loop contract over a NULL base pointer)
*/
/*@unit
name: str_upcase.nonempty
define: VP=str, U_UPCASE, U_NONEMPTY
src: str.c, obj.c
native: str
native_includes: str.c
enforce: spif_str_upcase
loops: 1
*/
/*@unit
name: str_downcase.empty
define: VP=str, U_DOWNCASE, U_EMPTY
src: str.c, obj.c
native: str
native_includes: str.c
enforce: spif_str_downcase
tier: B
unwind: 2
bound: empty (NULL,0,0) state only - the loop is unwound twice instead of being closed by its contract (cbmc 6.11 crashes / exhausts memory on a loop contract over a NULL base pointer)
*/
/*@unit
name: str_downcase.nonempty
define: VP=str, U_DOWNCASE, U_NONEMPTY
src: str.c, obj.c
native: str
native_includes: str.c
enforce: spif_str_downcase
loops: 1
*/
/*@unit
name: str_reverse.empty
define: VP=str, U_REVERSE, U_EMPTY
src: str.c, obj.c
native: str
native_includes: str.c
enforce: spif_str_reverse
replace: strrev
*/
/*@unit
name: str_reverse.nonempty
define: VP=str, U_REVERSE, U_NONEMPTY
src: str.c, obj.c
native: str
native_includes: str.c
enforce: spif_str_reverse
replace: strrev
*/
/*@unit
name: str_trim.empty
define: VP=str, VCAP=8, U_FIXED_BUF=8, U_TRIM, U_EMPTY
src: str.c, obj.c
native: str
native_includes: str.c
enforce: spif_str_trim
tier: B
unwind: 12
bound: text buffer of exactly 8 bytes holding every text of length 0..7 (all contents
backend: sat
timeout: 300
checks_off: --conversion-check
*/
/*@unit
name: str_trim.len0
define: VP=str, VCAP=8, U_FIXED_BUF=8, U_TRIM, U_NONEMPTY, U_LEN0
src: str.c, obj.c
native: str
native_includes: str.c
enforce: spif_str_trim
tier: B
unwind: 12
bound: text buffer of exactly 8 bytes holding every text of length 0..7 (all contents
backend: sat
timeout: 300
checks_off: --conversion-check
*/
/*@unit
name: str_trim.blank1
define: VP=str, VCAP=8, U_FIXED_BUF=8, U_TRIM, U_NONEMPTY, U_BLANK1
src: str.c, obj.c
native: str
native_includes: str.c
enforce: spif_str_trim
tier: B
unwind: 12
bound: text buffer of exactly 8 bytes holding every text of length 0..7 (all contents
backend: sat
timeout: 300
checks_off: --conversion-check
*/
/*@unit
name: str_trim.text
define: VP=str, VCAP=8, U_FIXED_BUF=8, U_TRIM, U_NONEMPTY, U_TEXT
src: str.c, obj.c
native: str
native_includes: str.c
enforce: spif_str_trim
tier: B
unwind: 12
bound: text buffer of exactly 8 bytes holding every text of length 0..7 (all contents
backend: sat
timeout: 300
checks_off: --conversion-check
*/
/*@unit
name: ustr_clear.empty
define: VP=ustr, U_CLEAR, U_EMPTY
src: ustr.c, obj.c
native: str
native_includes: ustr.c
enforce: spif_ustr_clear
backend: sat,z3
timeout: 200
flags: --slice-formula
*/
/*@unit
name: ustr_clear.nonempty
define: VP=ustr, U_CLEAR, U_NONEMPTY
src: ustr.c, obj.c
native: str
native_includes: ustr.c
enforce: spif_ustr_clear
backend: sat,z3
timeout: 200
flags: --slice-formula
*/
/*@unit
name: ustr_upcase.empty
define: VP=ustr, U_UPCASE, U_EMPTY
src: ustr.c, obj.c
native: str
native_includes: ustr.c
enforce: spif_ustr_upcase
tier: B
unwind: 2
bound: empty (NULL,0,0) state only - the loop is unwound twice instead of being closed by its contract (cbmc 6.11 crashes / exhausts memory on a loop contract over a NULL base pointer)
*/
/*@unit
name: ustr_upcase.nonempty
define: VP=ustr, U_UPCASE, U_NONEMPTY
src: ustr.c, obj.c
native: str
native_includes: ustr.c
enforce: spif_ustr_upcase
loops: 1
*/
/*@unit
name: ustr_downcase.empty
define: VP=ustr, U_DOWNCASE, U_EMPTY
src: ustr.c, obj.c
native: str
native_includes: ustr.c
enforce: spif_ustr_downcase
tier: B
unwind: 2
bound: empty (NULL,0,0) state only - the loop is unwound twice instead of being closed by its contract (cbmc 6.11 crashes / exhausts memory on a loop contract over a NULL base pointer)
*/
/*@unit
name: ustr_downcase.nonempty
define: VP=ustr, U_DOWNCASE, U_NONEMPTY
src: ustr.c, obj.c
native: str
native_includes: ustr.c
enforce: spif_ustr_downcase
loops: 1
*/
/*@unit
name: ustr_reverse.empty
define: VP=ustr, U_REVERSE, U_EMPTY
src: ustr.c, obj.c
native: str
native_includes: ustr.c
enforce: spif_ustr_reverse
replace: strrev
*/
/*@unit
name: ustr_reverse.nonempty
define: VP=ustr, U_REVERSE, U_NONEMPTY
src: ustr.c, obj.c
native: str
native_includes: ustr.c
enforce: spif_ustr_reverse
replace: strrev
*/
/*@unit
name: ustr_trim.empty
define: VP=ustr, VCAP=8, U_FIXED_BUF=8, U_TRIM, U_EMPTY
src: ustr.c, obj.c
native: str
native_includes: ustr.c
enforce: spif_ustr_trim
tier: B
unwind: 12
bound: text buffer of exactly 8 bytes holding every text of length 0..7 (all contents
backend: sat
timeout: 300
checks_off: --conversion-check
*/
/*@unit
name: ustr_trim.len0
define: VP=ustr, VCAP=8, U_FIXED_BUF=8, U_TRIM, U_NONEMPTY, U_LEN0
src: ustr.c, obj.c
native: str
native_includes: ustr.c
enforce: spif_ustr_trim
tier: B
unwind: 12
bound: text buffer of exactly 8 bytes holding every text of length 0..7 (all contents
backend: sat
timeout: 300
checks_off: --conversion-check
*/
/*@unit
name: ustr_trim.blank1
define: VP=ustr, VCAP=8, U_FIXED_BUF=8, U_TRIM, U_NONEMPTY, U_BLANK1
src: ustr.c, obj.c
native: str
native_includes: ustr.c
enforce: spif_ustr_trim
tier: B
unwind: 12
bound: text buffer of exactly 8 bytes holding every text of length 0..7 (all contents
backend: sat
timeout: 300
checks_off: --conversion-check
*/
/*@unit
name: ustr_trim.text
define: VP=ustr, VCAP=8, U_FIXED_BUF=8, U_TRIM, U_NONEMPTY, U_TEXT
src: ustr.c, obj.c
native: str
native_includes: ustr.c
enforce: spif_ustr_trim
tier: B
unwind: 12
bound: text buffer of exactly 8 bytes holding every text of length 0..7 (all contents
backend: sat
timeout: 300
checks_off: --conversion-check
*/
#include "str.h"

#define R __CPROVER_return_value
#define OL0 __CPROVER_old(self->len)
/* ghosts used as buffer positions stay inside the buffer (loop_entry / old snapshots are taken for every value) */
#define GHOSTS_IN_BUF __CPROVER_requires(vg_k < vg_a1 && vg_k2 < vg_a1)
/* the text ends at len: instance vg_j */
#define NOZ_PRE(o) __CPROVER_requires(!(vg_j < (size_t) (o)->len) || (o)->s[vg_j] != 0)

#ifdef U_CLEAR
spif_bool_t VF(clear)(VT self, spif_char_t c)
__CPROVER_requires(STR_SELF_PRE(self))
__CPROVER_assigns(STR_ASSIGNS(self))
__CPROVER_ensures(R == TRUE && STR_UNCHANGED(self) && STR_INV_POST(self))
#ifdef U_NONEMPTY
__CPROVER_ensures(!(vg_k < (size_t) self->len) || self->s[vg_k] == c)
#endif
;
void harness(void)
{
    VT self; spif_char_t c;
    STR_BIND_CLASS();
    VF(clear)(self, c);
    VERIF_CANARY();
}
#endif

#if defined(U_UPCASE) || defined(U_DOWNCASE)
#ifdef U_UPCASE
# define FN upcase
# define MAP(c) VSTR_TOUPPER(c)
#else
# define FN downcase
# define MAP(c) VSTR_TOLOWER(c)
#endif
spif_bool_t VF(FN)(VT self)
__CPROVER_requires(STR_SELF_PRE(self))
#ifdef U_NONEMPTY
GHOSTS_IN_BUF
NOZ_PRE(self)
#endif
__CPROVER_assigns(STR_ASSIGNS(self); vg_exit)
__CPROVER_ensures(R == TRUE && STR_UNCHANGED(self) && STR_INV_POST(self))
#ifdef U_NONEMPTY
__CPROVER_ensures(vg_exit != vg_j || !(vg_k < (size_t) self->len) || self->s[vg_k] == MAP(__CPROVER_old(self->s[vg_k])))
/* nothing behind the text is touched */
__CPROVER_ensures(!(vg_k > (size_t) self->len) || self->s[vg_k] == __CPROVER_old(self->s[vg_k]))
#endif
;
void harness(void)
{
    VT self;
    STR_BIND_CLASS();
    VF(FN)(self);
    VERIF_CANARY();
}
#endif

#ifdef U_REVERSE
/* strrev (src/strings.c) is represented by its contract: the one proved by unit C13.strrev (exact reversal of a
 * C string of exact length vg_n1 inside a buffer of vg_n2 bytes, exactness instantiated at vg_j; vg_k2 is the
 * mirror position of vg_k), plus the NULL case proved by unit C01.strrev_null below. */
char *strrev(char *str)
#ifdef U_EMPTY
__CPROVER_requires(str == NULL)
__CPROVER_assigns()
__CPROVER_ensures(__CPROVER_return_value == NULL)
#else
__CPROVER_requires(str != NULL && vg_n2 <= VCAP && vg_n1 < vg_n2 && __CPROVER_r_ok(str, vg_n2) && __CPROVER_POINTER_OFFSET(str) == 0 &&
                   str[vg_n1] == 0 && (!(vg_j < vg_n1) || str[vg_j] != 0))
__CPROVER_requires(vg_k < vg_n2 && vg_k2 == (vg_k < vg_n1 ? vg_n1 - 1 - vg_k : 0))
__CPROVER_assigns(__CPROVER_object_upto(str, vg_n1 + 1))
__CPROVER_ensures(__CPROVER_return_value == str)
__CPROVER_ensures(!(vg_k < vg_n1) || str[vg_k] == __CPROVER_old(str[vg_k2]))
__CPROVER_ensures(!(vg_k >= vg_n1) || str[vg_k] == __CPROVER_old(str[vg_k]))
/* the proved clause "every position >= vg_n1 is unchanged" holds for every ghost position; instance vg_n1: */
__CPROVER_ensures(str[vg_n1] == 0)
#endif
;
/* on the empty state strrev(NULL) refuses: nothing changes (the return value is then FALSE; the statement does not
 * say what reversing "no text yet" returns, so it is left open) */
spif_bool_t VF(reverse)(VT self)
__CPROVER_requires(STR_SELF_PRE(self))
#ifdef U_NONEMPTY
NOZ_PRE(self)
/* ghost bindings for the callee contract (all arbitrary ghosts: nothing is restricted) */
__CPROVER_requires(vg_n1 == (size_t) self->len && vg_n2 == vg_a1 && vg_k < vg_a1 && vg_k2 == (vg_k < vg_n1 ? vg_n1 - 1 - vg_k : 0))
#endif
__CPROVER_assigns(STR_ASSIGNS(self))
__CPROVER_ensures(STR_UNCHANGED(self) && STR_INV_POST(self))
#ifdef U_NONEMPTY
__CPROVER_ensures(R == TRUE)
__CPROVER_ensures(!(vg_k < (size_t) self->len) || self->s[vg_k] == __CPROVER_old(self->s[vg_k2]))
#endif
;
void harness(void)
{
    VT self;
    STR_BIND_CLASS();
    VF(reverse)(self);
    VERIF_CANARY();
}
#endif

#ifdef U_TRIM
/* vg_exit = number of leading characters dropped (recorded after the first scan) */
spif_bool_t VF(trim)(VT self)
__CPROVER_requires(STR_SELF_PRE(self))
#ifdef U_NONEMPTY
GHOSTS_IN_BUF
#endif
#ifdef U_LEN0
__CPROVER_requires(self->len == 0)
#endif
#ifdef U_BLANK1
__CPROVER_requires(self->len == 1 && self->s[0] == ' ')
#endif
#ifdef U_TEXT
__CPROVER_requires(vg_l3 < (size_t) self->len && !VSTR_ISSPACE(self->s[vg_l3]))
#endif
__CPROVER_assigns(STR_ASSIGNS(self); vg_exit)
__CPROVER_frees(self->s)
__CPROVER_ensures(R == TRUE && STR_INV_POST(self))
#ifdef U_EMPTY
__CPROVER_ensures(STR_EMPTY(self))
#else
/* a slice of the old text ... */
__CPROVER_ensures(self->len <= OL0 && (self->len == 0 || vg_exit + (size_t) self->len <= (size_t) OL0))
/* (old text position vg_exit + vg_k is named by the arbitrary ghost vg_k2: __CPROVER_old cannot use the exit value of vg_exit) */
__CPROVER_ensures(!(vg_k < (size_t) self->len) || vg_k2 != vg_exit + vg_k || self->s[vg_k] == __CPROVER_old(self->s[vg_k2]))
/* ... that neither starts nor ends with whitespace ... */
__CPROVER_ensures(self->len == 0 || (!VSTR_ISSPACE(self->s[0]) && !VSTR_ISSPACE(self->s[self->len - 1])))
/* ... and only whitespace was dropped (instance vg_k2), in front and behind */
__CPROVER_ensures(self->len == 0 || !(vg_k2 < vg_exit) || VSTR_ISSPACE(__CPROVER_old(self->s[vg_k2])))
__CPROVER_ensures(self->len == 0 || !(vg_k2 >= vg_exit + (size_t) self->len && vg_k2 < (size_t) OL0) || VSTR_ISSPACE(__CPROVER_old(self->s[vg_k2])))
__CPROVER_ensures(self->len != 0 || !(vg_k2 < (size_t) OL0) || VSTR_ISSPACE(__CPROVER_old(self->s[vg_k2])))
#endif
;
void harness(void)
{
    VT self;
    STR_BIND_CLASS();
#ifdef U_FIXED_BUF
    vg_a1 = U_FIXED_BUF;      /* a constant, so that the buffer is a fixed-size array for cbmc */
#endif
    VF(trim)(self);
    VERIF_CANARY();
}
#endif
