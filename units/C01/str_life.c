/* C01: done / del / new / new_from_ptr / new_from_buff / new_from_num of str and ustr.
 * done leaves the reusable empty state (NULL,0,0) from either state; del does the same and releases the
 * object; new* return a fresh object that satisfies the invariant and shows the view of its source. */

/*@unit
name: str_done.empty
define: VP=str, U_DONE, U_EMPTY
src: str.c, obj.c
native: str
native_includes: str.c
enforce: spif_str_done
*/
/*@unit
name: str_done.nonempty
define: VP=str, U_DONE, U_NONEMPTY
src: str.c, obj.c
native: str
native_includes: str.c
enforce: spif_str_done
*/
/*@unit
name: str_del.empty
define: VP=str, U_DEL, U_EMPTY
src: str.c, obj.c
native: str
native_includes: str.c
enforce: spif_str_del
*/
/*@unit
name: str_del.nonempty
define: VP=str, U_DEL, U_NONEMPTY
src: str.c, obj.c
native: str
native_includes: str.c
enforce: spif_str_del
*/
/*@unit
name: str_new
define: VP=str, U_NEW
src: str.c, obj.c
native: str
native_includes: str.c
enforce: spif_str_new
*/
/*@unit
name: str_new_from_ptr
define: VP=str, U_NEW_FROM_PTR
src: str.c, obj.c
native: str
native_includes: str.c
enforce: spif_str_new_from_ptr
backend: sat,z3
timeout: 200
flags: --slice-formula
*/
/*@unit
name: str_new_from_buff
define: VP=str, U_NEW_FROM_BUFF
src: str.c, obj.c
native: str
native_includes: str.c
enforce: spif_str_new_from_buff
backend: sat,z3
timeout: 200
flags: --slice-formula
*/
/*@unit
name: str_new_from_num
define: VP=str, U_NEW_FROM_NUM
src: str.c, obj.c
native: str
native_includes: str.c
enforce: spif_str_new_from_num
backend: sat,z3
timeout: 200
flags: --slice-formula
*/
/*@unit
name: ustr_done.empty
define: VP=ustr, U_DONE, U_EMPTY
src: ustr.c, obj.c
native: str
native_includes: ustr.c
enforce: spif_ustr_done
*/
/*@unit
name: ustr_done.nonempty
define: VP=ustr, U_DONE, U_NONEMPTY
src: ustr.c, obj.c
native: str
native_includes: ustr.c
enforce: spif_ustr_done
*/
/*@unit
name: ustr_del.empty
define: VP=ustr, U_DEL, U_EMPTY
src: ustr.c, obj.c
native: str
native_includes: ustr.c
enforce: spif_ustr_del
*/
/*@unit
name: ustr_del.nonempty
define: VP=ustr, U_DEL, U_NONEMPTY
src: ustr.c, obj.c
native: str
native_includes: ustr.c
enforce: spif_ustr_del
*/
/*@unit
name: ustr_new
define: VP=ustr, U_NEW
src: ustr.c, obj.c
native: str
native_includes: ustr.c
enforce: spif_ustr_new
*/
/*@unit
name: ustr_new_from_ptr
define: VP=ustr, U_NEW_FROM_PTR
src: ustr.c, obj.c
native: str
native_includes: ustr.c
enforce: spif_ustr_new_from_ptr
backend: sat,z3
timeout: 200
flags: --slice-formula
*/
/*@unit
name: ustr_new_from_buff
define: VP=ustr, U_NEW_FROM_BUFF
src: ustr.c, obj.c
native: str
native_includes: ustr.c
enforce: spif_ustr_new_from_buff
backend: sat,z3
timeout: 200
flags: --slice-formula
*/
/*@unit
name: ustr_new_from_num
define: VP=ustr, U_NEW_FROM_NUM
src: ustr.c, obj.c
native: str
native_includes: ustr.c
enforce: spif_ustr_new_from_num
backend: sat,z3
timeout: 200
flags: --slice-formula
*/
#include "str.h"

size_t w_n1; long w_size;

#ifdef U_DONE
spif_bool_t VF(done)(VT self)
__CPROVER_requires(STR_SELF_PRE(self))
__CPROVER_assigns(STR_ASSIGNS(self))
__CPROVER_frees(self->s)
__CPROVER_ensures(__CPROVER_return_value == TRUE)
__CPROVER_ensures(STR_EMPTY(self))
;
void harness(void)
{
    VT self;
    STR_BIND_CLASS();
    VF(done)(self);
    VERIF_CANARY();
}
#endif

#ifdef U_DEL
spif_bool_t VF(del)(VT self)
__CPROVER_requires(STR_SELF_PRE(self))
__CPROVER_assigns(STR_ASSIGNS(self))
__CPROVER_frees(self->s, self)
__CPROVER_ensures(__CPROVER_return_value == TRUE)
__CPROVER_ensures(__CPROVER_was_freed(self))
;
void harness(void)
{
    VT self;
    STR_BIND_CLASS();
    VF(del)(self);
    VERIF_CANARY();
}
#endif

#ifdef U_NEW
VT VF(new)(void)
__CPROVER_assigns()
__CPROVER_ensures(__CPROVER_is_fresh(__CPROVER_return_value, sizeof(*__CPROVER_return_value)))
__CPROVER_ensures(STR_EMPTY(__CPROVER_return_value) && STR_HAS_CLASS(__CPROVER_return_value))
;
void harness(void)
{
    STR_BIND_CLASS();
    VF(new)();
    VERIF_CANARY();
}
#endif

#define R __CPROVER_return_value

#ifdef U_NEW_FROM_PTR
VT VF(new_from_ptr)(spif_charptr_t old)
__CPROVER_requires(old == NULL || VCSTR_FRESH(old, vg_n1))
__CPROVER_assigns(vg_slen, vg_slen_ptr)
__CPROVER_ensures(__CPROVER_is_fresh(R, sizeof(*R)) && STR_HAS_CLASS(R))
__CPROVER_ensures(old != NULL || STR_EMPTY(R))
__CPROVER_ensures(old == NULL || (STR_NONEMPTY_POST(R) && __CPROVER_is_fresh(R->s, (size_t) R->size)))
__CPROVER_ensures(old == NULL || ((size_t) R->len == vg_slen && vg_slen <= vg_n1))
__CPROVER_ensures(old == NULL || !(vg_k < (size_t) R->len) || R->s[vg_k] == old[vg_k])
;
void harness(void)
{
    spif_charptr_t old;
    STR_BIND_CLASS();
    w_n1 = vg_n1;
    VF(new_from_ptr)(old);
    VERIF_CANARY();
}
#endif

#ifdef U_NEW_FROM_BUFF
VT VF(new_from_buff)(spif_charptr_t buff, VIDX size)
__CPROVER_requires(size >= 0 && size <= VCAP)
__CPROVER_requires(buff == NULL || (vg_n1 <= VCAP && __CPROVER_is_fresh(buff, vg_n1) &&
                                    ((VIDX) vg_n1 >= size || (vg_n1 > 0 && buff[vg_n1 - 1] == 0))))
__CPROVER_assigns(vg_slen, vg_slen_ptr)
__CPROVER_ensures(__CPROVER_is_fresh(R, sizeof(*R)) && STR_HAS_CLASS(R))
__CPROVER_ensures(STR_NONEMPTY_POST(R) && __CPROVER_is_fresh(R->s, (size_t) R->size))
__CPROVER_ensures(R->size >= size && R->len <= size)
__CPROVER_ensures(buff != NULL || R->len == 0)
__CPROVER_ensures(buff == NULL || (size_t) R->len == vg_slen)
__CPROVER_ensures(buff == NULL || !(vg_k < (size_t) R->len) || R->s[vg_k] == buff[vg_k])
;
void harness(void)
{
    spif_charptr_t buff; VIDX size;
    STR_BIND_CLASS();
    w_n1 = vg_n1; w_size = size;
    VF(new_from_buff)(buff, size);
    VERIF_CANARY();
}
#endif

#ifdef U_NEW_FROM_NUM
VT VF(new_from_num)(long num)
__CPROVER_assigns(vg_slen, vg_slen_ptr)
__CPROVER_ensures(__CPROVER_is_fresh(R, sizeof(*R)) && STR_HAS_CLASS(R))
__CPROVER_ensures(STR_NONEMPTY_POST(R) && __CPROVER_is_fresh(R->s, (size_t) R->size))
__CPROVER_ensures((size_t) R->len == vg_slen && R->len <= 27 && R->size == R->len + 1)
;
void harness(void)
{
    long num;
    STR_BIND_CLASS();
    VF(new_from_num)(num);
    VERIF_CANARY();
}
#endif
