/* C01: prepend_char / prepend_from_ptr / prepend of str and ustr: the text becomes argument ++ old text
 * (ghost index vg_k over the whole result), NUL exactly at the new length, capacity > length, frame =
 * the object's three fields and its buffer.  Behaviours: .empty = the (NULL,0,0) state, .nonempty. */

/*@unit
name: str_prepend_char.empty
define: VP=str, VSTR_OWN_MEMMOVE, U_PREPEND_CHAR, U_EMPTY
src: str.c, obj.c
native: str
native_includes: str.c
enforce: spif_str_prepend_char
backend: sat,z3
timeout: 200
flags: --slice-formula
*/
/*@unit
name: str_prepend_char.slack
define: VP=str, VSTR_OWN_MEMMOVE, U_PREPEND_CHAR, U_NONEMPTY, U_SLACK
src: str.c, obj.c
native: str
native_includes: str.c
enforce: spif_str_prepend_char
backend: sat,z3
timeout: 200
flags: --slice-formula
*/
/*@unit
name: str_prepend_char.slack.hibit
define: VP=str, VSTR_OWN_MEMMOVE, U_PREPEND_CHAR, U_NONEMPTY, U_SLACK, U_HIBIT
src: str.c, obj.c
native: str
native_includes: str.c
enforce: spif_str_prepend_char
backend: sat,z3
timeout: 200
flags: --slice-formula
checks_off: --conversion-check
*/
/*@unit
name: str_prepend_char.tight
define: VP=str, VSTR_OWN_MEMMOVE, U_PREPEND_CHAR, U_NONEMPTY, U_TIGHT
src: str.c, obj.c
native: str
native_includes: str.c
enforce: spif_str_prepend_char
backend: sat,z3
timeout: 200
flags: --slice-formula
*/
/*@unit
name: str_prepend_from_ptr.empty
define: VP=str, VSTR_OWN_MEMMOVE, U_PREPEND_FROM_PTR, U_EMPTY
src: str.c, obj.c
native: str
native_includes: str.c
enforce: spif_str_prepend_from_ptr
backend: sat,z3
timeout: 200
flags: --slice-formula
*/
/*@unit
name: str_prepend_from_ptr.nonempty
define: VP=str, VSTR_OWN_MEMMOVE, U_PREPEND_FROM_PTR, U_NONEMPTY
src: str.c, obj.c
native: str
native_includes: str.c
enforce: spif_str_prepend_from_ptr
backend: sat,z3
timeout: 200
flags: --slice-formula
*/
/*@unit
name: str_prepend.empty
define: VP=str, VSTR_OWN_MEMMOVE, U_PREPEND, U_EMPTY
src: str.c, obj.c
native: str
native_includes: str.c
enforce: spif_str_prepend
backend: sat,z3
timeout: 200
flags: --slice-formula
*/
/*@unit
name: str_prepend.nonempty
define: VP=str, VSTR_OWN_MEMMOVE, U_PREPEND, U_NONEMPTY
src: str.c, obj.c
native: str
native_includes: str.c
enforce: spif_str_prepend
backend: sat,z3
timeout: 200
flags: --slice-formula
*/
/*@unit
name: ustr_prepend_char.empty
define: VP=ustr, VSTR_OWN_MEMMOVE, U_PREPEND_CHAR, U_EMPTY
src: ustr.c, obj.c
native: str
native_includes: ustr.c
enforce: spif_ustr_prepend_char
backend: sat,z3
timeout: 200
flags: --slice-formula
*/
/*@unit
name: ustr_prepend_char.slack
define: VP=ustr, VSTR_OWN_MEMMOVE, U_PREPEND_CHAR, U_NONEMPTY, U_SLACK
src: ustr.c, obj.c
native: str
native_includes: ustr.c
enforce: spif_ustr_prepend_char
backend: sat,z3
timeout: 200
flags: --slice-formula
*/
/*@unit
name: ustr_prepend_char.slack.hibit
define: VP=ustr, VSTR_OWN_MEMMOVE, U_PREPEND_CHAR, U_NONEMPTY, U_SLACK, U_HIBIT
src: ustr.c, obj.c
native: str
native_includes: ustr.c
enforce: spif_ustr_prepend_char
backend: sat,z3
timeout: 200
flags: --slice-formula
checks_off: --conversion-check
*/
/*@unit
name: ustr_prepend_char.tight
define: VP=ustr, VSTR_OWN_MEMMOVE, U_PREPEND_CHAR, U_NONEMPTY, U_TIGHT
src: ustr.c, obj.c
native: str
native_includes: ustr.c
enforce: spif_ustr_prepend_char
backend: sat,z3
timeout: 200
flags: --slice-formula
*/
/*@unit
name: ustr_prepend_from_ptr.empty
define: VP=ustr, VSTR_OWN_MEMMOVE, U_PREPEND_FROM_PTR, U_EMPTY
src: ustr.c, obj.c
native: str
native_includes: ustr.c
enforce: spif_ustr_prepend_from_ptr
backend: sat,z3
timeout: 200
flags: --slice-formula
*/
/*@unit
name: ustr_prepend_from_ptr.nonempty
define: VP=ustr, VSTR_OWN_MEMMOVE, U_PREPEND_FROM_PTR, U_NONEMPTY
src: ustr.c, obj.c
native: str
native_includes: ustr.c
enforce: spif_ustr_prepend_from_ptr
backend: sat,z3
timeout: 200
flags: --slice-formula
*/
/*@unit
name: ustr_prepend.empty
define: VP=ustr, VSTR_OWN_MEMMOVE, U_PREPEND, U_EMPTY
src: ustr.c, obj.c
native: str
native_includes: ustr.c
enforce: spif_ustr_prepend
backend: sat,z3
timeout: 200
flags: --slice-formula
*/
/*@unit
name: ustr_prepend.nonempty
define: VP=ustr, VSTR_OWN_MEMMOVE, U_PREPEND, U_NONEMPTY
src: ustr.c, obj.c
native: str
native_includes: ustr.c
enforce: spif_ustr_prepend
backend: sat,z3
timeout: 200
flags: --slice-formula
*/
#include "str.h"

size_t w_n1;

#ifdef U_PREPEND_CHAR
/* .slack: capacity at least len+3; .tight: capacity len+1 or len+2 (what every constructor and
 * every append leaves behind).  The (spif_uchar_t) cast of a negative c is value-preserving but is
 * flagged by --conversion-check, so bytes >= 0x80 are proved in .hibit with that one check off. */
spif_bool_t VF(prepend_char)(VT self, spif_char_t c)
__CPROVER_requires(STR_SELF_PRE(self))
#ifdef U_SLACK
__CPROVER_requires(self->size >= self->len + 3)
#endif
#ifdef U_TIGHT
__CPROVER_requires(self->size <= self->len + 2)
#endif
#ifdef U_HIBIT
__CPROVER_requires(c < 0)
#else
__CPROVER_requires(c >= 0)
#endif
__CPROVER_assigns(STR_ASSIGNS(self))
__CPROVER_frees(self->s)
__CPROVER_ensures(__CPROVER_return_value == TRUE)
__CPROVER_ensures(STR_NONEMPTY_POST(self))
__CPROVER_ensures(self->len == __CPROVER_old(self->len) + 1)
__CPROVER_ensures(self->s[0] == c)
#ifdef U_NONEMPTY
__CPROVER_ensures(!(vg_k < (size_t) __CPROVER_old(self->len)) || self->s[vg_k + 1] == STR_OLD_AT(self, vg_k))
#endif
;
void harness(void)
{
    VT self; spif_char_t c;
    STR_BIND_CLASS();
    VF(prepend_char)(self, c);
    VERIF_CANARY();
}
#endif

#ifdef U_PREPEND_FROM_PTR
/* other: C string in its own object of vg_n1+1 bytes, length = what strlen reports (vg_slen);
 * NULL: refused, nothing changes */
spif_bool_t VF(prepend_from_ptr)(VT self, spif_charptr_t other)
__CPROVER_requires(STR_SELF_PRE(self))
__CPROVER_requires(other == NULL || VCSTR_FRESH(other, vg_n1))
__CPROVER_assigns(STR_ASSIGNS(self); vg_slen, vg_slen_ptr)
__CPROVER_frees(self->s)
__CPROVER_ensures(other != NULL || (__CPROVER_return_value == FALSE && STR_UNCHANGED(self)))
__CPROVER_ensures(other == NULL || __CPROVER_return_value == TRUE)
__CPROVER_ensures(STR_INV_POST(self))
__CPROVER_ensures(other == NULL || (size_t) self->len == (size_t) __CPROVER_old(self->len) + vg_slen)
__CPROVER_ensures(other == NULL || !(vg_k < vg_slen) || self->s[vg_k] == other[vg_k])
#ifdef U_NONEMPTY
__CPROVER_ensures(other == NULL || !(vg_k < (size_t) __CPROVER_old(self->len)) || self->s[vg_slen + vg_k] == STR_OLD_AT(self, vg_k))
__CPROVER_ensures(other != NULL || !(vg_k < (size_t) __CPROVER_old(self->len)) || self->s[vg_k] == STR_OLD_AT(self, vg_k))
#endif
;
void harness(void)
{
    VT self; spif_charptr_t other;
    STR_BIND_CLASS();
    w_n1 = vg_n1;
    VF(prepend_from_ptr)(self, other);
    VERIF_CANARY();
}
#endif

#ifdef U_PREPEND
/* other: any valid str object distinct from self (or NULL: refused, nothing changes); other is not written */
spif_bool_t VF(prepend)(VT self, VT other)
__CPROVER_requires(STR_SELF_PRE(self))
__CPROVER_requires(STR_OTHER_PRE(other))
__CPROVER_assigns(STR_ASSIGNS(self))
__CPROVER_frees(self->s)
__CPROVER_ensures(other != NULL || (__CPROVER_return_value == FALSE && STR_UNCHANGED(self)))
__CPROVER_ensures(other == NULL || __CPROVER_return_value == TRUE)
__CPROVER_ensures(STR_INV_POST(self))
__CPROVER_ensures(other == NULL || self->len == __CPROVER_old(self->len) + other->len)
__CPROVER_ensures(other == NULL || !(vg_k < (size_t) other->len) || self->s[vg_k] == other->s[vg_k])
#ifdef U_NONEMPTY
__CPROVER_ensures(other == NULL || !(vg_k < (size_t) __CPROVER_old(self->len)) || self->s[(size_t) other->len + vg_k] == STR_OLD_AT(self, vg_k))
__CPROVER_ensures(other != NULL || !(vg_k < (size_t) __CPROVER_old(self->len)) || self->s[vg_k] == STR_OLD_AT(self, vg_k))
#endif
;
void harness(void)
{
    VT self, other;
    STR_BIND_CLASS();
    VF(prepend)(self, other);
    VERIF_CANARY();
}
#endif
