/* Native replay of the C01 str / ustr contract units (owner str).  Built by the driver with clang + ASan/UBSan and
 * the unit's -D flags: VP=str|ustr selects the class, U_<FUNCTION> the function, U_EMPTY / U_NONEMPTY the state
 * behaviour.  str.c resp. ustr.c is #included (unit fields `native: str`, `native_includes: str.c|ustr.c`), the other
 * repo sources are linked.
 *
 * The verifier's witness arrives as W_<ghost> scalars: vg_l1 / vg_l2 = entry length of self / other, vg_a1 = bytes
 * of self's buffer, vg_n1 = length of a C-string argument, w_idx / w_cnt / w_size where the harness records them.
 * Text CONTENTS are not in the witness (they live in objects the contract allocates): they are rebuilt from fixed
 * position-dependent patterns (mixed case, blanks at both ends, high-bit bytes, no NUL inside).
 *   1. the witness state is rebuilt when its sizes are small (<= WMAX) and the real function is run on it;
 *   2. then (or instead, for the huge sizes SAT usually picks) a sweep over small states of the same function:
 *      the empty (NULL,0,0) state, lengths 0..6, capacity slack 0..2, every idx / cnt in -8..8, argument lengths 0..4.
 * After every call the ideal-character-sequence postcondition of the unit is re-evaluated against a plain-C reference
 * model; every buffer is an exact-size heap block, so ASan judges "no byte outside the buffer" and the invariant check
 * touches s[size-1], so a buffer smaller than the reported capacity is an ASan report as well.
 * Exit 3 = an obligation is false on the real code, 66 = sanitizer report, 0 = not reproduced. */
#include <libast_internal.h>
#include "vnative.h"

#ifndef VP
# define VP str
#endif
#define NC3_(a, b, c) a##b##c
#define NC3(a, b, c)  NC3_(a, b, c)
#define F_(name) NC3(spif_, VP, _##name)
#define F(name)  F_(name)
#define T        NC3(spif_, VP, _t)
#define VSEL_str  1
#define VSEL_ustr 2
#define VSEL      NC3(VSEL_, VP, )
/* zero-length libc calls with a NULL pointer on the empty (NULL,0,0) state are tolerated by the units' stubs (glibc) */
#pragma clang attribute push (__attribute__((no_sanitize("nonnull-attribute"))), apply_to = function)
#if VSEL == 1
# include <src/str.c>            /* -I<repo>: the tree under test */
#else
# include <src/ustr.c>
#endif
#pragma clang attribute pop
#include <unistd.h>
#include <errno.h>

#define WMAX 65536L
static char ctx[600];
#define FAILS(msg) do { fprintf(stderr, "NATIVE-REPLAY: obligation fails on the real code: %s\n    failing input: %s\n", msg, ctx); exit(3); } while (0)
#define CHK(c, msg) do { if (!(c)) FAILS(msg); } while (0)
static int small(long v) { return v >= 0 && v <= WMAX; }
static int sgn(long x) { return x < 0 ? -1 : (x > 0 ? 1 : 0); }

/* pattern 0: general text; 1: "other" text; 2: blanks at both ends and inside (trim); never a NUL */
static char pat(int id, long i, long n)
{
    if (id == 2) {
        if (i < 2 || i >= n - 2 || i % 5 == 3) return (i & 1) ? '\t' : ' ';
        return (char) ('A' + i % 23);
    }
    if (i % 7 == 3) return ' ';
    if (i % 11 == 6) return (char) 0xe9;
    if (i % 3 == 1) return (char) ((id ? 'K' : 'A') + (i * 3 + id * 5) % 17);
    return (char) ((id ? 'k' : 'a') + (i * 3 + id * 5) % 17);
}
static char *mk_cstr(int id, long n)
{
    char *p = malloc(n + 1); long i;
    for (i = 0; i < n; i++) p[i] = pat(id, i, n);
    p[n] = 0;
    return p;
}
/* an object in the state (len, size): (NULL,0,0) when size == 0, else an exact-size block, slack bytes 0x5a */
static T mk(int id, long len, long size)
{
    T o = F(new)(); long i;
    if (size > 0) {
        o->s = malloc(size); o->size = size; o->len = len;
        for (i = 0; i < size; i++) o->s[i] = (i < len) ? pat(id, i, len) : 0x5a;
        o->s[len] = 0;
    }
    return o;
}
static void inv(T o)
{
    CHK(o != NULL, "an object");
    CHK((o->s == NULL && o->len == 0 && o->size == 0) || (o->s != NULL && 0 <= o->len && o->len < o->size),
        "representation invariant: (NULL,0,0) or 0 <= len < size with a buffer");
    if (o->s) {
        volatile char t = o->s[o->size - 1]; (void) t;                 /* ASan: the block really has size bytes */
        CHK(o->s[o->len] == 0, "NUL exactly at len");
        CHK((long) strlen((char *) o->s) == o->len, "no NUL before len (reported length = strlen)");
    }
}
static void same(T o, const char *want, long n, const char *what)
{
    inv(o);
    CHK(o->len == n, "length equals the ideal sequence's length");
    if (n) CHK(o->s != NULL && !memcmp(o->s, want, n), what);
}
static char *snap(T o) { char *c = malloc(o->len + 1); if (o->len) memcpy(c, o->s, o->len); c[o->len] = 0; return c; }
/* iterate the small states selected by the unit's behaviour flags */
#if defined(U_EMPTY)
# define STATE_OK(L, sl) ((L) == 0 && (sl) == -1)
#elif defined(U_NONEMPTY)
# define STATE_OK(L, sl) ((sl) >= 0)
#else
# define STATE_OK(L, sl) 1
#endif
/* sl == -1 encodes the empty state (only with L == 0) */
#define FOR_STATES(L, sl) for (L = 0; L <= 6; L++) for (sl = -1; sl <= 2; sl++) if ((sl >= 0 || L == 0) && STATE_OK(L, sl))
#define SIZE_OF(L, sl) ((sl) < 0 ? 0 : (L) + 1 + (sl))
static long w_len(void) { return (long) vn_get("vg_l1", 0); }
static long w_size(void) { long a = (long) vn_get("vg_a1", 0), l = w_len(); return a > l ? a : l + 1; }

/* ================================================================================================================ */
#if defined(U_INIT) || defined(U_NEW)
static void replay(void)
{
    snprintf(ctx, sizeof(ctx), "none");
# ifdef U_NEW
    T o = F(new)();
# else
    T o = malloc(sizeof(*o)); memset(o, 0xa5, sizeof(*o)); CHK(F(init)(o) == TRUE, "init returns TRUE");
# endif
    CHK(o && o->s == NULL && o->len == 0 && o->size == 0, "the empty state (NULL,0,0)");
    CHK(!strcmp((char *) F(type)(o), VSEL == 1 ? "!spif_str_t!" : "!spif_ustr_t!"), "class set");
}

#elif defined(U_INIT_FROM_PTR) || defined(U_NEW_FROM_PTR) || defined(U_INIT_FROM_NUM) || defined(U_NEW_FROM_NUM)
static void one(long n)
{
    char *src = mk_cstr(0, n); T o; char num[40];
# if defined(U_INIT_FROM_NUM) || defined(U_NEW_FROM_NUM)
    long v = (n % 2 ? -1 : 1) * (n * 1234567L + n);
    snprintf(num, sizeof(num), "%ld", v); snprintf(ctx, sizeof(ctx), "num %ld", v);
#  ifdef U_NEW_FROM_NUM
    o = F(new_from_num)(v);
#  else
    o = malloc(sizeof(*o)); memset(o, 0xa5, sizeof(*o)); CHK(F(init_from_num)(o, v) == TRUE, "returns TRUE");
#  endif
    same(o, num, strlen(num), "text = decimal rendering");
# else
    snprintf(ctx, sizeof(ctx), "C string of length %ld", n);
#  ifdef U_NEW_FROM_PTR
    o = F(new_from_ptr)((spif_charptr_t) src);
#  else
    o = malloc(sizeof(*o)); memset(o, 0xa5, sizeof(*o)); CHK(F(init_from_ptr)(o, (spif_charptr_t) src) == TRUE, "returns TRUE");
#  endif
    same(o, src, n, "text = the C string");
    CHK(o->s != (spif_charptr_t) src, "own buffer");
# endif
    CHK(o->size > o->len, "capacity above length");
    F(done)(o); free(src);
}
static void replay(void)
{
    long n = (long) vn_get("vg_n1", 0);
    if (small(n)) one(n);
    for (n = 0; n <= 8; n++) one(n);
}

#elif defined(U_INIT_FROM_BUFF) || defined(U_NEW_FROM_BUFF) || defined(U_INIT_FROM_BUFF_NEG)
/* buff: NULL, or avail accessible bytes holding a text of tl characters (NUL-terminated iff tl < avail) */
static void one(int isnull, long avail, long tl, long size)
{
    char *b = NULL; T o; long want, i; spif_bool_t r = TRUE;
    if (!isnull) { b = malloc(avail > 0 ? avail : 1); if (avail == 0) { free(b); b = malloc(0); } for (i = 0; i < avail; i++) b[i] = (i < tl) ? pat(0, i, tl) : 0; }
    snprintf(ctx, sizeof(ctx), "buff %s (%ld accessible bytes, text length %ld), size %ld", isnull ? "NULL" : "non-NULL", avail, tl, size);
# ifdef U_NEW_FROM_BUFF
    o = F(new_from_buff)((spif_charptr_t) b, size);
# else
    o = malloc(sizeof(*o)); memset(o, 0xa5, sizeof(*o)); r = F(init_from_buff)(o, (spif_charptr_t) b, size);
# endif
    if (size < 0) {
# ifdef U_NEW_FROM_BUFF
        CHK(o == NULL, "negative count refused");
# else
        CHK(r == FALSE, "negative count refused");
# endif
        free(b); return;
    }
    CHK(r == TRUE && o != NULL, "returns TRUE / an object");
    want = isnull ? 0 : (tl < size ? tl : size);
    same(o, b, want, "text = first min(size, strlen) bytes of the buffer");
    CHK(o->s != NULL && o->size >= size && o->size > o->len, "allocated, capacity >= size and > length");
    /* the statement's own scenario: the first append on the fresh object */
    F(append_char)(o, 'x'); inv(o); CHK(o->len == want + 1 && o->s[want] == 'x', "first append_char after the constructor");
    F(done)(o); free(b);
}
static void replay(void)
{
    long size = (long) vn_get("w_size", 0), n1 = (long) vn_get("w_n1", 0), av, tl;
    if (small(n1) && size >= 0 && small(size) && n1 >= size) one(0, n1, n1, size);
    for (size = -2; size <= 6; size++) {
# if !defined(U_INIT_FROM_BUFF_NEG)
        if (size < 0) continue;
# else
        if (size >= 0) continue;
# endif
        one(1, 0, 0, size);
        for (av = 0; av <= 7; av++) for (tl = 0; tl <= av; tl++) {
            if (size >= 0 && !(av >= size || tl < av)) continue;      /* accessible: size bytes or a NUL inside */
            if (size < 0 && !(tl < av)) continue;
            one(0, av, tl, size);
        }
    }
}

#elif defined(U_DONE) || defined(U_DEL)
static void replay(void)
{
    long L, sl;
    FOR_STATES(L, sl) {
        T o = mk(0, L, SIZE_OF(L, sl));
        snprintf(ctx, sizeof(ctx), "self (len %ld, size %ld)", L, SIZE_OF(L, sl));
# ifdef U_DONE
        CHK(F(done)(o) == TRUE, "returns TRUE");
        CHK(o->s == NULL && o->len == 0 && o->size == 0, "done leaves the reusable empty state");
        F(append_char)(o, 'q'); inv(o); F(del)(o);
# else
        CHK(F(del)(o) == TRUE, "returns TRUE");
# endif
    }
}

#elif defined(U_APPEND_CHAR) || defined(U_PREPEND_CHAR) || defined(U_APPEND_FROM_PTR) || defined(U_PREPEND_FROM_PTR) || defined(U_APPEND) || defined(U_PREPEND)
static void one(long L, long S, int onull, long OL, long OS, int c)
{
    T s = mk(0, L, S), o = NULL; char *before = snap(s), *want = malloc(L + OL + 2), *src = NULL; spif_bool_t r; long n = OL;
# if defined(U_APPEND_CHAR) || defined(U_PREPEND_CHAR)
    char cc = (char) c; src = &cc; n = 1;
    snprintf(ctx, sizeof(ctx), "self (len %ld, size %ld), char 0x%02x", L, S, c & 0xff);
#  ifdef U_APPEND_CHAR
    r = F(append_char)(s, cc);
#  else
    r = F(prepend_char)(s, cc);
#  endif
    onull = 0;
# elif defined(U_APPEND) || defined(U_PREPEND)
    char *ob = NULL;
    if (!onull) { o = mk(1, OL, OS); ob = snap(o); src = ob; }
    snprintf(ctx, sizeof(ctx), "self (len %ld, size %ld), other %s (len %ld, size %ld)", L, S, onull ? "NULL" : "object", OL, OS);
#  ifdef U_APPEND
    r = F(append)(s, o);
#  else
    r = F(prepend)(s, o);
#  endif
    if (o) CHK(o->len == OL && o->size == OS && (OL == 0 || !memcmp(o->s, ob, OL)), "the argument is not modified");
# else
    if (!onull) src = mk_cstr(1, OL);
    snprintf(ctx, sizeof(ctx), "self (len %ld, size %ld), C string %s of length %ld", L, S, onull ? "NULL" : "", OL);
#  ifdef U_APPEND_FROM_PTR
    r = F(append_from_ptr)(s, (spif_charptr_t) src);
#  else
    r = F(prepend_from_ptr)(s, (spif_charptr_t) src);
#  endif
# endif
    if (onull) {
        CHK(r == FALSE, "NULL argument refused");
        same(s, before, L, "refused: text unchanged"); CHK(s->size == S, "refused: capacity unchanged");
    } else {
        CHK(r == TRUE, "returns TRUE");
# if defined(U_APPEND_CHAR) || defined(U_APPEND_FROM_PTR) || defined(U_APPEND)
        memcpy(want, before, L); memcpy(want + L, src, n);
        same(s, want, L + n, "append: s'[k] = k < len ? s[k] : other[k - len]");
# else
        memcpy(want, src, n); memcpy(want + n, before, L);
        same(s, want, L + n, "prepend: s'[k] = k < n ? other[k] : s[k - n]");
# endif
    }
    F(del)(s); free(before); free(want);
}
static void replay(void)
{
    long L = w_len(), S = w_size(), OL, OS, sl, osl; int c;
# if defined(U_APPEND) || defined(U_PREPEND)
    OL = (long) vn_get("vg_l2", 0); OS = (long) vn_get("vg_a2", 0); if (OS <= OL) OS = OL + 1;
# else
    OL = (long) vn_get("vg_n1", 0); OS = OL + 1;
# endif
    if (small(L) && small(S) && small(OL) && small(OS) && STATE_OK(L, 0)) one(L, S, 0, OL, OS, 'x');
    FOR_STATES(L, sl) {
# if defined(U_SLACK)
        if (sl < 2) continue;
# elif defined(U_TIGHT)
        if (sl > 1) continue;
# endif
# if defined(U_APPEND_CHAR) || defined(U_PREPEND_CHAR)
        for (c = 0; c < 3; c++) one(L, SIZE_OF(L, sl), 0, 1, 2, c == 0 ? 'x' : (c == 1 ? ' ' : 0xe9));
# else
        one(L, SIZE_OF(L, sl), 1, 0, 0, 0);
        for (OL = 0; OL <= 4; OL++) for (osl = -1; osl <= 2; osl++) {
#  if defined(U_APPEND) || defined(U_PREPEND)
            if (osl < 0 && OL != 0) continue;
            one(L, SIZE_OF(L, sl), 0, OL, SIZE_OF(OL, osl), 0);
#  else
            if (osl != 0) continue;
            one(L, SIZE_OF(L, sl), 0, OL, OL + 1, 0);
#  endif
        }
# endif
    }
}

#elif defined(U_INDEX) || defined(U_RINDEX) || defined(U_FIND) || defined(U_FIND_FROM_PTR)
static void replay(void)
{
    long L, sl, i, a, b;
    FOR_STATES(L, sl) {
        T s = mk(0, L, SIZE_OF(L, sl)); char *t = snap(s);
# if defined(U_INDEX) || defined(U_RINDEX)
        int c;
        for (c = 1; c < 256; c++) {
            long want = L, got;
            for (i = 0; i < L; i++) if (t[i] == (char) c) {
#  ifdef U_INDEX
                want = i; break;
#  else
                want = i;
#  endif
            }
            snprintf(ctx, sizeof(ctx), "self \"%s\" (size %ld), char 0x%02x", t, SIZE_OF(L, sl), c);
#  ifdef U_INDEX
            got = F(index)(s, (char) c);
#  else
            got = F(rindex)(s, (char) c);
#  endif
            CHK(got == want, "position of the character, 'not found' = len");
        }
# else
        /* every needle that is a slice of the text, one that is not, the empty one, NULL */
        for (a = 0; a <= L; a++) for (b = a; b <= L + 1; b++) {
            char nd[16]; long nl = b - a, want = L, got; char *hit;
            if (b == L + 1) { nl = 2; nd[0] = '#'; nd[1] = '#'; } else memcpy(nd, t + a, nl);
            nd[nl] = 0;
            hit = strstr(t, nd); if (hit) want = hit - t;
            snprintf(ctx, sizeof(ctx), "self \"%s\" (size %ld), needle \"%s\"", t, SIZE_OF(L, sl), nd);
#  ifdef U_FIND
            { T o = F(new_from_ptr)((spif_charptr_t) nd); got = F(find)(s, o); F(del)(o); }
#  else
            got = F(find_from_ptr)(s, (spif_charptr_t) nd);
#  endif
            CHK(got == want, "position of the first occurrence, 'not found' = len");
        }
#  ifdef U_FIND
        snprintf(ctx, sizeof(ctx), "self \"%s\", needle NULL / empty object", t);
        CHK(F(find)(s, (T) NULL) == -1, "NULL needle refused with -1");
#   if !defined(U_OTHER_NONEMPTY)
        { T e = F(new)(); CHK(F(find)(s, e) == 0, "a needle without text is found at 0"); F(del)(e); }
#   endif
#  else
        CHK(F(find_from_ptr)(s, (spif_charptr_t) NULL) == -1, "NULL needle refused with -1");
#  endif
# endif
        same(s, t, L, "queries do not change the text"); CHK(s->size == SIZE_OF(L, sl), "nor the capacity");
        F(del)(s); free(t);
    }
}

#elif defined(U_CMP) || defined(U_COMP) || defined(U_CASECMP) || defined(U_NCMP) || defined(U_NCASECMP) || \
      defined(U_CMP_WITH_PTR) || defined(U_CASECMP_WITH_PTR) || defined(U_NCMP_WITH_PTR) || defined(U_NCASECMP_WITH_PTR)
static int tocmp(int x) { return x < 0 ? SPIF_CMP_LESS : (x > 0 ? SPIF_CMP_GREATER : SPIF_CMP_EQUAL); }
static void replay(void)
{
    long L, sl, OL, cnt; int id;
    FOR_STATES(L, sl) for (OL = 0; OL <= 5; OL++) for (id = 0; id <= 1; id++) for (cnt = 0; cnt <= 7; cnt++) {
        T s = mk(0, L, SIZE_OF(L, sl)), o = mk(id, OL, OL + 1); char *a = snap(s), *b = snap(o); int want, got;
        snprintf(ctx, sizeof(ctx), "self \"%s\", other \"%s\", cnt %ld", a, b, cnt);
# if defined(U_CMP)
        want = strcmp(a, b); got = F(cmp)(s, o);
# elif defined(U_COMP)
        want = strcmp(a, b); got = F(comp)(s, o);
# elif defined(U_CASECMP)
        want = strcasecmp(a, b); got = F(casecmp)(s, o);
# elif defined(U_NCMP)
        want = strncmp(a, b, cnt); got = F(ncmp)(s, o, cnt);
# elif defined(U_NCASECMP)
        want = strncasecmp(a, b, cnt); got = F(ncasecmp)(s, o, cnt);
# elif defined(U_CMP_WITH_PTR)
        want = strcmp(a, b); got = F(cmp_with_ptr)(s, (spif_charptr_t) b);
# elif defined(U_CASECMP_WITH_PTR)
        want = strcasecmp(a, b); got = F(casecmp_with_ptr)(s, (spif_charptr_t) b);
# elif defined(U_NCMP_WITH_PTR)
        want = strncmp(a, b, cnt); got = F(ncmp_with_ptr)(s, (spif_charptr_t) b, cnt);
# else
        want = strncasecmp(a, b, cnt); got = F(ncasecmp_with_ptr)(s, (spif_charptr_t) b, cnt);
# endif
        CHK(got == tocmp(want), "the sign of libc's answer for the two texts");
        same(s, a, L, "queries do not change the text");
        F(del)(s); F(del)(o); free(a); free(b);
    }
# if defined(U_CMP) && !defined(U_EMPTY)
    { T x = mk(0, 3, 4); snprintf(ctx, sizeof(ctx), "NULL ordering");
      CHK(F(cmp)((T) NULL, x) == SPIF_CMP_LESS && F(cmp)(x, (T) NULL) == SPIF_CMP_GREATER && F(cmp)((T) NULL, (T) NULL) == SPIF_CMP_EQUAL, "NULL before every object"); }
# endif
}

#elif defined(U_SUBSTR) || defined(U_SUBSTR_TO_PTR)
static void one(long L, long S, long idx, long cnt)
{
    T s = mk(0, L, S); char *t = snap(s); long I = idx < 0 ? L + idx : idx, C = cnt <= 0 ? L - I + cnt : cnt; int ok = (I >= 0 && I < L && C >= 0);
    if (ok && C > L - I) C = L - I;
    snprintf(ctx, sizeof(ctx), "self \"%s\" (len %ld, size %ld), idx %ld, cnt %ld", t, L, S, idx, cnt);
# ifdef U_SUBSTR
    { T r = F(substr)(s, idx, cnt);
      if (!ok) CHK(r == NULL, "position outside the text: refused (NULL)");
      else { CHK(r != NULL && r != s && r->s != s->s, "a fresh object with its own buffer"); same(r, t + I, C, "result = text[I, I+C)"); F(del)(r); } }
# else
    { spif_charptr_t r = F(substr_to_ptr)(s, idx, cnt);
      if (!ok) CHK(r == NULL, "position outside the text: refused (NULL)");
      else { CHK(r != NULL && r != s->s, "a fresh buffer"); CHK((long) strlen((char *) r) == C && !memcmp(r, t + I, C), "result = text[I, I+C)"); free(r); } }
# endif
    same(s, t, L, "the source is not changed"); CHK(s->size == S, "nor its capacity");
    F(del)(s); free(t);
}
static void replay(void)
{
    long L = w_len(), S = w_size(), idx = (long) vn_get("w_idx", 0), cnt = (long) vn_get("w_cnt", 0), sl;
    if (small(L) && small(S) && STATE_OK(L, 0)) one(L, S, idx, cnt);
    FOR_STATES(L, sl) for (idx = -8; idx <= 8; idx++) for (cnt = -8; cnt <= 8; cnt++) one(L, SIZE_OF(L, sl), idx, cnt);
}

#elif defined(U_SPLICE) || defined(U_SPLICE_FROM_PTR)
static void one(long L, long S, long idx, long cnt, int onull, long OL, long OS)
{
    T s = mk(0, L, S), o = NULL; char *t = snap(s), *ins = NULL, *want = malloc(L + OL + 2); spif_bool_t r;
    long I = idx < 0 ? L + idx : idx, C = cnt < 0 ? L - I + cnt : cnt; int ok = (I >= 0 && I < L && C >= 0 && C <= L - I);
    if (onull) OL = 0;
# ifdef U_SPLICE
    if (!onull) { o = mk(1, OL, OS); ins = snap(o); }
    snprintf(ctx, sizeof(ctx), "self \"%s\" (len %ld, size %ld), idx %ld, cnt %ld, other %s (len %ld, size %ld)", t, L, S, idx, cnt, onull ? "NULL" : "object", OL, OS);
    r = F(splice)(s, idx, cnt, o);
    if (o) CHK(o->len == OL && o->size == OS, "the argument is not modified");
# else
    if (!onull) ins = mk_cstr(1, OL);
    snprintf(ctx, sizeof(ctx), "self \"%s\" (len %ld, size %ld), idx %ld, cnt %ld, C string %s of length %ld", t, L, S, idx, cnt, onull ? "NULL" : "", OL);
    r = F(splice_from_ptr)(s, idx, cnt, (spif_charptr_t) ins);
# endif
    if (!ok) {
        CHK(r == FALSE, "position / count outside the text: refused");
        same(s, t, L, "refused: text unchanged"); CHK(s->size == S, "refused: capacity unchanged");
    } else {
        CHK(r == TRUE, "returns TRUE");
        memcpy(want, t, I); if (OL) memcpy(want + I, ins, OL); memcpy(want + I + OL, t + I + C, L - I - C);
        same(s, want, L + OL - C, "splice: text[0,I) ++ other ++ text[I+C, len)");
        /* the capacity is trusted by the next operations: use it up */
        while (s->len + 1 < s->size) F(append_char)(s, 'z');
        inv(s);
    }
    F(del)(s); free(t); free(want);
}
static void replay(void)
{
    long L = w_len(), S = w_size(), idx = (long) vn_get("w_idx", 0), cnt = (long) vn_get("w_cnt", 0), sl, OL, osl;
    long wol = (long) vn_get("vg_l2", 0);
    if (small(L) && small(S) && small(wol) && STATE_OK(L, 0)) one(L, S, idx, cnt, 0, wol, wol + 1);
    FOR_STATES(L, sl) for (idx = -8; idx <= 8; idx++) for (cnt = -8; cnt <= 8; cnt++) {
# if defined(U_POSCNT)
        if (cnt < 0) continue;
# elif defined(U_NEGCNT)
        if (cnt >= 0) continue;
# endif
        one(L, SIZE_OF(L, sl), idx, cnt, 1, 0, 0);
        for (OL = 0; OL <= 3; OL++) for (osl = -1; osl <= 1; osl++) {
            if (osl < 0 && OL != 0) continue;
# ifdef U_SPLICE_FROM_PTR
            if (osl != 0) continue;
# endif
            one(L, SIZE_OF(L, sl), idx, cnt, 0, OL, SIZE_OF(OL, osl));
        }
    }
}

#elif defined(U_CLEAR) || defined(U_UPCASE) || defined(U_DOWNCASE) || defined(U_REVERSE) || defined(U_TRIM)
static int is_sp(char c) { unsigned char u = (unsigned char) c; return u == ' ' || (u >= '\t' && u <= '\r'); }
static void replay(void)
{
    long L, sl, i; int id;
    FOR_STATES(L, sl) for (id = 0; id <= 3; id++) {
        T s = mk(id == 3 ? 0 : id, L, SIZE_OF(L, sl)); char *t, *want = malloc(L + 2); long n = L; spif_bool_t r = TRUE;
        if (id == 3 && s->s) for (i = 0; i < L; i++) s->s[i] = (i & 1) ? '\t' : ' ';          /* all blank */
        t = snap(s);
        snprintf(ctx, sizeof(ctx), "self \"%s\" (len %ld, size %ld)", t, L, SIZE_OF(L, sl));
# if defined(U_CLEAR)
        r = F(clear)(s, '*'); for (i = 0; i < L; i++) want[i] = '*';
# elif defined(U_UPCASE)
        r = F(upcase)(s); for (i = 0; i < L; i++) want[i] = (t[i] >= 'a' && t[i] <= 'z') ? t[i] - 32 : t[i];
# elif defined(U_DOWNCASE)
        r = F(downcase)(s); for (i = 0; i < L; i++) want[i] = (t[i] >= 'A' && t[i] <= 'Z') ? t[i] + 32 : t[i];
# elif defined(U_REVERSE)
        r = F(reverse)(s); for (i = 0; i < L; i++) want[i] = t[L - 1 - i];
        if (sl < 0) r = TRUE;                        /* what reversing "no text yet" returns is left open */
# else
        { long a = 0, b = L; while (a < b && is_sp(t[a])) a++; while (b > a && is_sp(t[b - 1])) b--; n = b - a; memcpy(want, t + a, n); }
        r = F(trim)(s);
# endif
        CHK(r == TRUE, "returns TRUE");
        same(s, want, n, "the mapped / mirrored / trimmed text");
# if !defined(U_TRIM)
        CHK(s->size == SIZE_OF(L, sl), "capacity unchanged");
# endif
        F(del)(s); free(t); free(want);
    }
}

#elif defined(U_SPRINTF)
static void replay(void)
{
    long L, sl;
    FOR_STATES(L, sl) {
        T s = mk(0, L, SIZE_OF(L, sl)); char ref[64];
        snprintf(ctx, sizeof(ctx), "self (len %ld, size %ld)", L, SIZE_OF(L, sl));
        snprintf(ref, sizeof(ref), "n=%d s=%s", 42, "xy");
        CHK(F(sprintf)(s, (spif_charptr_t) "n=%d s=%s", 42, "xy") == TRUE, "sprintf returns TRUE"); same(s, ref, strlen(ref), "the formatted text");
        CHK(F(sprintf)(s, (spif_charptr_t) "") == TRUE, "empty format: TRUE"); same(s, "", 0, "empty text");
        CHK(F(sprintf)(s, (spif_charptr_t) NULL) == FALSE, "NULL format refused"); inv(s);
        F(del)(s);
    }
}

#elif defined(U_FP) || defined(U_NEWFP) || defined(U_FD) || defined(U_NEWFD)
static void one(long total, int newline)
{
    char *data = mk_cstr(0, total); T o; long want = total; char path[] = "/tmp/c01_replayXXXXXX"; int fd = mkstemp(path);
    unlink(path);
    snprintf(ctx, sizeof(ctx), "input of %ld bytes%s", total, newline ? " + newline + a second line" : "");
    if (total && write(fd, data, total) != total) exit(0);
# if defined(U_FP) || defined(U_NEWFP)
    if (newline && write(fd, "\nsecond line\n", 13) != 13) exit(0);
# endif
    lseek(fd, 0, SEEK_SET);
# if defined(U_FP) || defined(U_NEWFP)
    { FILE *fp = fdopen(fd, "r");
#  ifdef U_NEWFP
      o = F(new_from_fp)(fp);
#  else
      o = malloc(sizeof(*o)); memset(o, 0xa5, sizeof(*o)); CHK(F(init_from_fp)(o, fp) == TRUE, "returns TRUE");
#  endif
      fclose(fp); }
# else
    errno = 0;
#  ifdef U_NEWFD
    o = F(new_from_fd)(fd);
#  else
    o = malloc(sizeof(*o)); memset(o, 0xa5, sizeof(*o)); CHK(F(init_from_fd)(o, fd) == TRUE, "returns TRUE");
#  endif
    close(fd);
# endif
    same(o, data, want, "text = the line / everything up to end of file");
    CHK(o->s != NULL && o->size == o->len + 1, "allocated, capacity = length + 1");
    F(done)(o); free(data);
}
static void replay(void)
{
    static const long totals[] = { 0, 1, 10, 4094, 4095, 4096, 4097, 8190, 8191, 10000 };
    unsigned t;
    for (t = 0; t < sizeof(totals) / sizeof(totals[0]); t++) {
        one(totals[t], 0);
# if defined(U_FP) || defined(U_NEWFP)
        one(totals[t], 1);
# endif
    }
}

#elif defined(U_TO_NUM) || defined(U_TO_FLOAT) || defined(U_GET_LEN) || defined(U_GET_SIZE) || defined(U_SET_LEN) || defined(U_SET_SIZE)
static void replay(void)
{
    long L, sl;
    FOR_STATES(L, sl) {
        T s = mk(0, L, SIZE_OF(L, sl)); char *t = snap(s);
        snprintf(ctx, sizeof(ctx), "self \"%s\" (len %ld, size %ld)", t, L, SIZE_OF(L, sl));
# if defined(U_TO_NUM)
        CHK(F(to_num)(s, 10) == strtoul(t, NULL, 10), "to_num = strtoul of the text");
# elif defined(U_TO_FLOAT)
        CHK(F(to_float)(s) == strtod(t, NULL), "to_float = strtod of the text");
# elif defined(U_GET_LEN)
        CHK(F(get_len)(s) == L, "get_len");
# elif defined(U_GET_SIZE)
        CHK(F(get_size)(s) == SIZE_OF(L, sl), "get_size");
# endif
        same(s, t, L, "queries do not change the text");
        F(del)(s); free(t);
    }
}
#else
static void replay(void) { fprintf(stderr, "NATIVE-REPLAY: no template section for this unit's flags\n"); }
#endif

int main(void)
{
    replay();
    fprintf(stderr, "NATIVE-REPLAY: not reproduced (witness state and small-state sweep satisfy the postconditions)\n");
    return 0;
}
