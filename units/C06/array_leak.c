/* C06 (array map / list results): heap balance of a small CONCRETE history, checked with cbmc's
 * --memory-leak-check on the real array.c + objpair.c with real velem keys and values (all
 * element operations executed, nothing abstracted): bounded stand-in (tier B) that complements
 * the unbounded contract units, which state "the old value copy was freed" / "results are fresh"
 * per call.  History:  m = new map; set(k1,v1); set(k1,v2) [replace: the old value copy must be
 * released]; set(k2,v3); get_keys / get_values / get_pairs / to_array; remove(k2) [pair handed
 * back]; the caller deletes every result it was handed, the map, and its own k*, v* objects.
 * Afterwards no allocation may be left (memory-leak property), nothing is freed twice or used
 * after free (cbmc's free preconditions / pointer checks).  Keys are symbolic ints. */
/*@unit
name: array_map_leak.set
define: H_SET, U_SET
src: array.c, objpair.c, obj.c
native: array_map
native_includes: array.c
tier: B
bound: one map history: set(k,v1); set(k,v2) [replacement: the old value copy must be released]; get; delete everything (symbolic key value); loops unwound 4x
unwind: 4
backend: sat
flags: --memory-leak-check --slice-formula
mem: 16
timeout: 600
funcs: spif_array_set, spif_array_map_get, spif_array_done, spif_array_del, spif_objpair_set_value, spif_objpair_del
*/
/*@unit
name: array_map_leak.remove
define: H_REMOVE
src: array.c, objpair.c, obj.c
tier: B
bound: one map history: set(k,v1); remove(k) [pair handed back, deleted by the caller]; delete everything; loops unwound 4x
unwind: 4
backend: sat
flags: --memory-leak-check --slice-formula
mem: 16
timeout: 600
funcs: spif_array_set, spif_array_map_remove, spif_array_done, spif_array_del, spif_objpair_del
*/
/*@unit
name: array_map_leak.results
define: H_RESULTS
src: array.c, objpair.c, obj.c
tier: B
bound: one map with one entry; get_keys, get_values, get_pairs, to_array; the caller deletes the results and the map; loops unwound 4x
unwind: 4
backend: sat
flags: --memory-leak-check --slice-formula
mem: 16
timeout: 600
funcs: spif_array_get_keys, spif_array_get_values, spif_array_get_pairs, spif_array_to_array, spif_array_done, spif_array_del
*/
#include "vprelude.h"
#include "velem_map.h"                    /* phase 1: objpair.c works on real velems */
#define o_class obj_o_class
#include "rawsrc/obj.c"
#undef o_class
#include "rawsrc/objpair.c"

/* array.c: dispatch on the class of the receiver, as the class pointer does (pair | velem) */
static spif_const_class_t vd_velem_cls = { (spif_classname_t) "!velem!" };
static spif_cmp_t vd_comp(spif_obj_t a, spif_obj_t b)
{
    __CPROVER_assert(a != NULL, "SPIF_OBJ_COMP: receiver is not NULL");
    if (SPIF_OBJ_CLASS(a) == SPIF_CLASS_VAR(objpair)) return spif_objpair_comp((spif_objpair_t) a, b);
    return velem_comp((velem_t) a, (velem_t) b);
}
static spif_obj_t vd_dup(spif_obj_t a)
{
    __CPROVER_assert(a != NULL, "SPIF_OBJ_DUP: receiver is not NULL");
    if (SPIF_OBJ_CLASS(a) == SPIF_CLASS_VAR(objpair)) return (spif_obj_t) spif_objpair_dup((spif_objpair_t) a);
    return (spif_obj_t) velem_dup((velem_t) a);
}
static spif_bool_t vd_del(spif_obj_t a)
{
    __CPROVER_assert(a != NULL, "SPIF_OBJ_DEL: receiver is not NULL");
    if (SPIF_OBJ_CLASS(a) == SPIF_CLASS_VAR(objpair)) return spif_objpair_del((spif_objpair_t) a);
    return velem_del((velem_t) a);
}
#undef SPIF_OBJ_COMP
#undef SPIF_OBJ_DUP
#undef SPIF_OBJ_DEL
#undef SPIF_OBJ_SHOW
#define SPIF_OBJ_COMP(o1, o2) vd_comp((spif_obj_t) (o1), (spif_obj_t) (o2))
#define SPIF_OBJ_DUP(o)       vd_dup((spif_obj_t) (o))
#define SPIF_OBJ_DEL(o)       vd_del((spif_obj_t) (o))
#define SPIF_OBJ_SHOW(o, b, i) ((spif_str_t) (b))
/* result lists are array lists: direct calls instead of the spif_func_t class table */
#undef SPIF_LIST_NEW
#undef SPIF_LIST_APPEND
#define SPIF_LIST_NEW(type)       ((spif_list_t) spif_array_list_new())
#define SPIF_LIST_APPEND(o, item) spif_array_append((spif_array_t) (o), (spif_obj_t) (item))
#include "rawsrc/array.c"

static spif_obj_t mk(int key)
{
    velem_t e = (velem_t) malloc(sizeof(struct velem_struct));
    ((spif_obj_t) e)->cls = (spif_class_t) &vd_velem_cls;
    e->key = key;
    return (spif_obj_t) e;
}

void harness(void)
{
    int ka = nondet_int();
    spif_array_t m;
    spif_obj_t k1, v1;

    libast_debug_level = 0;
    spif_obj_class = &obj_o_class; spif_objpair_class = &o_class;
    spif_array_listclass = &a_class; spif_array_vectorclass = &av_class; spif_array_mapclass = &am_class;

    m = spif_array_map_new();
    k1 = mk(ka); v1 = mk(1);
    __CPROVER_assert(spif_array_set(m, k1, v1) == FALSE, "first set of a key inserts");
#if defined(H_SET)
    {
        spif_obj_t v2 = mk(2), got;
        __CPROVER_assert(spif_array_set(m, k1, v2) == TRUE, "second set of the key replaces");
        __CPROVER_assert(spif_array_count(m) == 1, "one entry");
        got = spif_array_map_get(m, k1);
        __CPROVER_assert(got != NULL && got != v2 && ((velem_t) got)->key == 2, "last value wins, stored as a copy");
        velem_del((velem_t) v2);
    }
#elif defined(H_REMOVE)
    {
        spif_obj_t removed = spif_array_map_remove(m, k1);
        __CPROVER_assert(removed != NULL && spif_array_count(m) == 0, "remove hands back the pair");
        spif_objpair_del((spif_objpair_t) removed);                       /* the caller owns the removed pair */
    }
#else
    {
        spif_array_t keys = (spif_array_t) spif_array_get_keys(m, (spif_list_t) NULL);
        spif_array_t values = (spif_array_t) spif_array_get_values(m, (spif_list_t) NULL);
        spif_array_t pairs = (spif_array_t) spif_array_get_pairs(m, (spif_list_t) NULL);
        spif_obj_t *arr = spif_array_to_array(m);
        __CPROVER_assert(keys->len == 1 && values->len == 1 && pairs->len == 1, "result lists have count entries");
        __CPROVER_assert(keys->items[0] != ((spif_objpair_t) m->items[0])->key && arr != m->items, "results are the caller's own objects");
        spif_array_del(keys); spif_array_del(values); spif_array_del(pairs); free(arr);   /* the caller owns the results */
    }
#endif
    spif_array_del(m);
    velem_del((velem_t) k1); velem_del((velem_t) v1);
    VERIF_CANARY();
}
