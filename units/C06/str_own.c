/* C06: ownership of str / ustr objects.
 * done  releases exactly the text buffer (and nothing else) and leaves the reusable empty state (NULL,0,0);
 * del   additionally releases the object itself;
 * substr / dup / substr_to_ptr / new_from_ptr hand the caller FRESH storage (object and buffer) that does not alias
 * the source, release nothing and do not write the source;
 * mutators that replace the buffer (append, trim ...) may release only self->s: that is the frees clause of every
 * C01 unit.  Double free / use after free are cbmc's own checks in all of these units.
 * lifecycle.*: plain runs with --memory-leak-check on  state -> operation -> del : nothing the operation allocated
 * survives the deletion of the objects the caller owns. */

/*@unit
name: str_own_done.nonempty
define: VP=str, U_DONE, U_NONEMPTY
src: str.c, obj.c
enforce: spif_str_done
*/
/*@unit
name: str_own_done.empty
define: VP=str, U_DONE, U_EMPTY
src: str.c, obj.c
enforce: spif_str_done
*/
/*@unit
name: str_own_del.nonempty
define: VP=str, U_DEL, U_NONEMPTY
src: str.c, obj.c
enforce: spif_str_del
*/
/*@unit
name: str_own_del.empty
define: VP=str, U_DEL, U_EMPTY
src: str.c, obj.c
enforce: spif_str_del
*/
/*@unit
name: str_own_substr
define: VP=str, U_SUBSTR, U_NONEMPTY
src: str.c, obj.c
enforce: spif_str_substr
backend: sat,z3
timeout: 200
flags: --slice-formula
*/
/*@unit
name: str_own_substr_to_ptr
define: VP=str, U_SUBSTR_TO_PTR, U_NONEMPTY
src: str.c, obj.c
enforce: spif_str_substr_to_ptr
backend: sat,z3
timeout: 200
flags: --slice-formula
*/
/*@unit
name: str_own_dup
define: VP=str, U_DUP, U_NONEMPTY, VSTR_STRDUP_RECORDS_LEN
src: str.c, obj.c
enforce: spif_str_dup
backend: sat,z3
timeout: 200
flags: --slice-formula
*/
/*@unit
name: str_lifecycle.append
define: VP=str, U_LIFE, U_LIFE_APPEND
src: str.c, obj.c
funcs: spif_str_new_from_ptr, spif_str_append_from_ptr, spif_str_del
flags: --memory-leak-check --slice-formula
backend: sat,z3
timeout: 200
*/
/*@unit
name: str_lifecycle.substr
define: VP=str, U_LIFE, U_LIFE_SUBSTR
src: str.c, obj.c
funcs: spif_str_new_from_ptr, spif_str_substr, spif_str_substr_to_ptr, spif_str_del
flags: --memory-leak-check --slice-formula
backend: sat,z3
timeout: 200
*/
/*@unit
name: str_lifecycle.done_reuse
define: VP=str, U_LIFE, U_LIFE_REUSE
src: str.c, obj.c
funcs: spif_str_new_from_ptr, spif_str_done, spif_str_init_from_ptr, spif_str_del
flags: --memory-leak-check --slice-formula
backend: sat,z3
timeout: 200
*/
/*@unit
name: ustr_own_done.nonempty
define: VP=ustr, U_DONE, U_NONEMPTY
src: ustr.c, obj.c
enforce: spif_ustr_done
*/
/*@unit
name: ustr_own_done.empty
define: VP=ustr, U_DONE, U_EMPTY
src: ustr.c, obj.c
enforce: spif_ustr_done
*/
/*@unit
name: ustr_own_del.nonempty
define: VP=ustr, U_DEL, U_NONEMPTY
src: ustr.c, obj.c
enforce: spif_ustr_del
*/
/*@unit
name: ustr_own_del.empty
define: VP=ustr, U_DEL, U_EMPTY
src: ustr.c, obj.c
enforce: spif_ustr_del
*/
/*@unit
name: ustr_own_substr
define: VP=ustr, U_SUBSTR, U_NONEMPTY
src: ustr.c, obj.c
enforce: spif_ustr_substr
backend: sat,z3
timeout: 200
flags: --slice-formula
*/
/*@unit
name: ustr_own_substr_to_ptr
define: VP=ustr, U_SUBSTR_TO_PTR, U_NONEMPTY
src: ustr.c, obj.c
enforce: spif_ustr_substr_to_ptr
backend: sat,z3
timeout: 200
flags: --slice-formula
*/
/*@unit
name: ustr_own_dup
define: VP=ustr, U_DUP, U_NONEMPTY, VSTR_STRDUP_RECORDS_LEN
src: ustr.c, obj.c
enforce: spif_ustr_dup
backend: sat,z3
timeout: 200
flags: --slice-formula
*/
/*@unit
name: ustr_lifecycle.append
define: VP=ustr, U_LIFE, U_LIFE_APPEND
src: ustr.c, obj.c
funcs: spif_ustr_new_from_ptr, spif_ustr_append_from_ptr, spif_ustr_del
flags: --memory-leak-check --slice-formula
backend: sat,z3
timeout: 200
*/
/*@unit
name: ustr_lifecycle.substr
define: VP=ustr, U_LIFE, U_LIFE_SUBSTR
src: ustr.c, obj.c
funcs: spif_ustr_new_from_ptr, spif_ustr_substr, spif_ustr_substr_to_ptr, spif_ustr_del
flags: --memory-leak-check --slice-formula
backend: sat,z3
timeout: 200
*/
/*@unit
name: ustr_lifecycle.done_reuse
define: VP=ustr, U_LIFE, U_LIFE_REUSE
src: ustr.c, obj.c
funcs: spif_ustr_new_from_ptr, spif_ustr_done, spif_ustr_init_from_ptr, spif_ustr_del
flags: --memory-leak-check --slice-formula
backend: sat,z3
timeout: 200
*/
#include "str.h"

#define R __CPROVER_return_value

#ifdef U_DONE
spif_bool_t VF(done)(VT self)
__CPROVER_requires(STR_SELF_PRE(self))
__CPROVER_assigns(self->s, self->len, self->size)          /* the fields only: no byte of any buffer is written */
__CPROVER_frees(self->s)
__CPROVER_ensures(R == TRUE && STR_EMPTY(self))
#ifdef U_NONEMPTY
__CPROVER_ensures(__CPROVER_was_freed(__CPROVER_old(self->s)))
#endif
;
void harness(void)
{
    VT self;
    STR_BIND_CLASS();
    VF(done)(self);
    VERIF_CANARY();
}
#endif

#ifdef U_DEL
spif_bool_t VF(del)(VT self)
__CPROVER_requires(STR_SELF_PRE(self))
__CPROVER_assigns(self->s, self->len, self->size)
__CPROVER_frees(self->s, self)
__CPROVER_ensures(R == TRUE && __CPROVER_was_freed(self))
#ifdef U_NONEMPTY
__CPROVER_ensures(__CPROVER_was_freed(__CPROVER_old(self->s)))
#endif
;
void harness(void)
{
    VT self;
    STR_BIND_CLASS();
    VF(del)(self);
    VERIF_CANARY();
}
#endif

#ifdef U_SUBSTR
/* accepted or refused: nothing released, source untouched; an accepted call returns fresh object + fresh buffer */
VT VF(substr)(VT self, VIDX idx, VIDX cnt)
__CPROVER_requires(STR_SELF_PRE(self))
__CPROVER_assigns(vg_slen, vg_slen_ptr)
__CPROVER_frees()
__CPROVER_ensures(R == NULL || (__CPROVER_is_fresh(R, sizeof(*R)) && R->s != NULL && __CPROVER_is_fresh(R->s, (size_t) R->size)))
__CPROVER_ensures(R == NULL || (R != self && R->s != self->s && !__CPROVER_same_object(R->s, self->s)))
;
void harness(void)
{
    VT self; VIDX idx, cnt;
    STR_BIND_CLASS();
    VF(substr)(self, idx, cnt);
    VERIF_CANARY();
}
#endif

#ifdef U_SUBSTR_TO_PTR
spif_charptr_t VF(substr_to_ptr)(VT self, VIDX idx, VIDX cnt)
__CPROVER_requires(STR_SELF_PRE(self))
__CPROVER_assigns()
__CPROVER_frees()
__CPROVER_ensures(R == NULL || (__CPROVER_is_fresh(R, 1) && !__CPROVER_same_object(R, self->s)))
;
void harness(void)
{
    VT self; VIDX idx, cnt;
    STR_BIND_CLASS();
    VF(substr_to_ptr)(self, idx, cnt);
    VERIF_CANARY();
}
#endif

#ifdef U_DUP
/* fresh object, fresh buffer (its capacity is C05.str_dup.*), nothing released, source untouched */
VT VF(dup)(VT self)
__CPROVER_requires(STR_SELF_PRE(self))
__CPROVER_assigns(vg_slen, vg_slen_ptr)
__CPROVER_frees()
__CPROVER_ensures(__CPROVER_is_fresh(R, sizeof(*R)) && R->s != NULL && __CPROVER_is_fresh(R->s, 1))
__CPROVER_ensures(R != self && !__CPROVER_same_object(R->s, self->s))
;
void harness(void)
{
    VT self;
    STR_BIND_CLASS();
    VF(dup)(self);
    VERIF_CANARY();
}
#endif

#ifdef U_LIFE
/* plain run (no contract instrumentation): every block allocated below must be gone at the end */
void harness(void)
{
    char text[8];
    size_t n = nondet_size_t();
    __CPROVER_assume(n >= 1 && n <= 7);       /* a non-empty text (the empty-state defects are C01 findings) */
    text[n] = 0;
    __CPROVER_assume(text[0] != 0);
    VT a = VF(new_from_ptr)((spif_charptr_t) text);
#ifdef U_LIFE_APPEND
    VF(append_from_ptr)(a, (spif_charptr_t) text);
    VF(append_char)(a, 'x');
    VF(del)(a);
#endif
#ifdef U_LIFE_SUBSTR
    VT b = VF(substr)(a, 0, 0);
    spif_charptr_t p = VF(substr_to_ptr)(a, 0, 0);
    VF(del)(a);
    if (b != NULL) VF(del)(b);
    free(p);
#endif
#ifdef U_LIFE_REUSE
    VF(done)(a);
    __CPROVER_assert(a->s == NULL && a->len == 0 && a->size == 0, "C06: done() leaves the reusable empty state");
    VF(init_from_ptr)(a, (spif_charptr_t) text);
    VF(del)(a);
#endif
    VERIF_CANARY();
}
#endif
