/* C06 (mbuff): ownership.
 *   done   frees exactly the buffer the object owns, leaves the (NULL,0,0) state (object reusable), nothing else written
 *   del    additionally frees the object
 *   subbuff / subbuff_to_ptr hand a FRESH object / block to the caller; deleting it leaves the source intact (lemma)
 *   leak   construct - grow - delete leaves no allocation behind (cbmc --memory-leak-check), for every length
 *          .empty behaviour: a zero-length construction keeps a malloc(0) block that del() never frees
 *          (known_findings C06.mbuff.json, C06-mbuff-zero-alloc-leak = C07-mbuff-zero-alloc)
 * The done/del body is also used by units/C07/lifecycle.c under C07 names. */
#ifndef MBUFF_OWN_BODY_ONLY
/*@unit
name: mbuff_done
define: U_DONE
src: mbuff.c
enforce: spif_mbuff_done
backend: sat
objbits: 6
*/
/*@unit
name: mbuff_done.reusable
define: VERIF_MB_GHOSTCOPY, U_DONE_REUSE
src: mbuff.c
enforce: lemma_done_reusable
backend: sat
objbits: 6
flags: --slice-formula
funcs: spif_mbuff_done, spif_mbuff_append_from_ptr
*/
/*@unit
name: mbuff_del
define: U_DEL
src: mbuff.c
enforce: spif_mbuff_del
backend: sat
objbits: 6
funcs: spif_mbuff_done
*/
/*@unit
name: mbuff_subbuff.owned
define: U_SUB_OWNED
src: mbuff.c, obj.c
enforce: lemma_subbuff_owned
backend: sat
objbits: 6
flags: --slice-formula
funcs: spif_mbuff_subbuff, spif_mbuff_subbuff_to_ptr, spif_mbuff_del
*/
/*@unit
name: mbuff_leak.nonempty
define: VERIF_MB_GHOSTCOPY, U_LEAK, U_NONEMPTY
src: mbuff.c, obj.c
backend: sat
flags: --memory-leak-check --slice-formula
funcs: spif_mbuff_new_from_ptr, spif_mbuff_append_from_ptr, spif_mbuff_dup, spif_mbuff_del
*/
/*@unit
name: mbuff_leak.empty
define: VERIF_MB_GHOSTCOPY, U_LEAK, U_EMPTY
src: mbuff.c, obj.c
backend: sat
flags: --memory-leak-check --slice-formula
funcs: spif_mbuff_new_from_ptr, spif_mbuff_del
*/
#endif
#include "vprelude.h"
#include "env_mbuff.h"
#include "mbuff.h"
#if defined(U_SUB_OWNED) || defined(U_LEAK)
# include "src/obj.c"
#endif
#include "src/mbuff.c"

#define RV  __CPROVER_return_value

#ifdef U_DONE
spif_bool_t spif_mbuff_done(spif_mbuff_t self)
__CPROVER_requires(MBUFF_INV(self))
__CPROVER_requires(MB_WIT_SELF(self))
__CPROVER_assigns(self->buff, self->len, self->size)
__CPROVER_frees(self->buff)
__CPROVER_ensures(RV == TRUE && MBUFF_STATE_EMPTY(self))
__CPROVER_ensures(__CPROVER_old(self->buff) == NULL || __CPROVER_was_freed(__CPROVER_old(self->buff)))
;
void harness(void)
{
    spif_mbuff_t self;
    spif_mbuff_done(self);
    VERIF_CANARY();
}
#endif

#ifdef U_DONE_REUSE
/* done() leaves an object that can be filled again: the next append sees the empty sequence */
static void lemma_done_reusable(spif_mbuff_t s, spif_byteptr_t p, spif_memidx_t n)
__CPROVER_requires(MBUFF_INV(s) && 0 < n && n <= VCAP && __CPROVER_is_fresh(p, (size_t) n))
__CPROVER_assigns(MBUFF_FRAME(s))
__CPROVER_frees(s->buff)
__CPROVER_ensures(MBUFF_POST(s) && s->len == n)
__CPROVER_ensures(!(vg_k < (size_t) n) || s->buff[vg_k] == p[vg_k])
{
    spif_mbuff_done(s);
    spif_mbuff_append_from_ptr(s, p, n);
}
void harness(void)
{
    spif_mbuff_t s; spif_byteptr_t p; spif_memidx_t n;
    lemma_done_reusable(s, p, n);
    VERIF_CANARY();
}
#endif

#ifdef U_DEL
spif_bool_t spif_mbuff_del(spif_mbuff_t self)
__CPROVER_requires(MBUFF_INV(self))
__CPROVER_requires(MB_WIT_SELF(self))
__CPROVER_assigns(self->buff, self->len, self->size)
__CPROVER_frees(self, self->buff)
__CPROVER_ensures(RV == TRUE)
__CPROVER_ensures(__CPROVER_was_freed(self))
__CPROVER_ensures(__CPROVER_old(self->buff) == NULL || __CPROVER_was_freed(__CPROVER_old(self->buff)))
;
void harness(void)
{
    spif_mbuff_t self;
    spif_mbuff_del(self);
    VERIF_CANARY();
}
#endif

#ifdef U_SUB_OWNED
/* the results of subbuff / subbuff_to_ptr belong to the caller: freeing them leaves the source as it was */
static void lemma_subbuff_owned(spif_mbuff_t s, spif_memidx_t idx, spif_memidx_t cnt)
__CPROVER_requires(MBUFF_INV_NONEMPTY(s) && -VCAP <= idx && idx <= VCAP && -VCAP <= cnt && cnt <= VCAP)
__CPROVER_assigns()
__CPROVER_ensures(MBUFF_UNCHANGED_FIELDS(s) && MBUFF_POST(s))
__CPROVER_ensures(!(vg_k < (size_t) s->len) || s->buff[vg_k] == __CPROVER_old(s->buff[VCLAMP(vg_k, s->len)]))
{
    spif_mbuff_t r = spif_mbuff_subbuff(s, idx, cnt);
    spif_byteptr_t p = spif_mbuff_subbuff_to_ptr(s, idx, cnt);
    if (r != NULL) {
        __CPROVER_assert(r != s && r->buff != s->buff, "subbuff: result shares nothing with the source");
        spif_mbuff_del(r);
    }
    if (p != NULL) {
        __CPROVER_assert(!__CPROVER_same_object(p, s->buff), "subbuff_to_ptr: result is a block of its own");
        free(p);
    }
}
void harness(void)
{
    spif_mbuff_t s; spif_memidx_t idx, cnt;
    lemma_subbuff_owned(s, idx, cnt);
    VERIF_CANARY();
}
#endif

#ifdef U_LEAK
/* plain run with cbmc's leak check: everything the operations allocated is released by del() */
void harness(void)
{
    spif_memidx_t n = nondet_long(), m = nondet_long();
# ifdef U_NONEMPTY
    __CPROVER_assume(0 < n && n <= VCAP && 0 <= m && m <= VCAP);
# else
    __CPROVER_assume(n == 0);
# endif
    spif_byteptr_t p = malloc((size_t) n);
    spif_mbuff_t a = spif_mbuff_new_from_ptr(p, n);
# ifdef U_NONEMPTY
    spif_byteptr_t q = malloc((size_t) m);
    spif_mbuff_t b;
    spif_mbuff_append_from_ptr(a, q, m);
    b = spif_mbuff_dup(a);
    spif_mbuff_del(b);
    free(q);
# endif
    spif_mbuff_del(a);
    free(p);
    VERIF_CANARY();
}
#endif
