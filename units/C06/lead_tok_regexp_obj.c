/* C06 (ownership) for the classes tok, regexp and obj: the same harnesses as units/C05/{tok_dup,regexp_dup,
 * obj_comp}.c, run here for their ownership obligations: every allocation made by new/dup/compile is released
 * exactly once by done/del (cbmc --memory-leak-check + double-free / use-after-free checks of free()), done()
 * leaves the object empty and reusable, deleting the original never invalidates the copy. */
/*@unit
name: tok.dup_del
define: U_DUP, INC_TOK
src: tok.c, str.c, obj.c
funcs: spif_tok_dup, spif_tok_del, spif_tok_done, spif_tok_new_from_ptr
backend: z3,sat
flags: --memory-leak-check
*/
/*@unit
name: tok.done_reuse
define: U_DONE, INC_TOK
src: tok.c, str.c, obj.c
funcs: spif_tok_done, spif_tok_del, spif_tok_init_from_ptr
backend: z3,sat
flags: --memory-leak-check
*/
/*@unit
name: regexp.dup_del
define: U_DUP, INC_REGEXP
src: regexp.c, str.c, obj.c
funcs: spif_regexp_dup, spif_regexp_del, spif_regexp_done, spif_regexp_compile
backend: z3,sat
flags: --memory-leak-check
*/
/*@unit
name: regexp.done_reuse
define: U_DONE, INC_REGEXP
src: regexp.c, str.c, obj.c
funcs: spif_regexp_done, spif_regexp_del, spif_regexp_init_from_ptr
backend: z3,sat
flags: --memory-leak-check
*/
/*@unit
name: obj.new_dup_del
define: U_DUP, INC_OBJ
src: obj.c
funcs: spif_obj_new, spif_obj_dup, spif_obj_del, spif_obj_done
backend: sat
flags: --memory-leak-check
*/
#ifdef INC_TOK
# include "../C05/tok_dup.c"
#endif
#ifdef INC_REGEXP
# include "../C05/regexp_dup.c"
#endif
#ifdef INC_OBJ
# include "../C05/obj_comp.c"
#endif
