/* C06 (url part): ownership across the URL lifecycle.
 *   url_init            -> empty text (NULL,0,0), all seven components absent, class = url
 *   url_new             -> fresh object in that state
 * (str calls of done/del: real str.c bodies, see below)
 *   url_done            -> every present component deleted (object and buffer), text buffer freed, object left in
 *                          the reusable empty state; nothing else touched
 *   url_del             -> done + the object itself freed
 *   url_init_from_ptr / _from_str, url_new_from_ptr / _from_str
 *                       -> text is a fresh copy of the argument (argument untouched), class = url, components as
 *                          spif_url_parse leaves them (parse by its contract: units C14.parse.*)
 * Tier P, loop-free.  str-class calls by the ASSUMED contracts of contracts/url.h.
 */
/*@unit
name: url_init
define: U_INIT
src: url.c
enforce: spif_url_init
replace: spif_str_init, spif_obj_set_class
backend: sat
*/
/*@unit
name: url_new
define: U_NEW
src: url.c
enforce: spif_url_new
replace: spif_url_init
backend: sat
*/
/*@unit
name: url_done
define: U_DONE, U_REAL_STR, U_PLAIN
src: url.c
backend: sat
native: self
flags: --memory-leak-check
funcs: spif_url_done, spif_str_del, spif_str_done
*/
/*@unit
name: url_del
define: U_DEL, U_REAL_STR, U_PLAIN
src: url.c
backend: sat
native: self
flags: --memory-leak-check
funcs: spif_url_del, spif_url_done, spif_str_del, spif_str_done
*/
/*@unit
name: url_init_from_ptr
define: U_INIT_FROM_PTR
src: url.c
enforce: spif_url_init_from_ptr
replace: spif_str_init_from_ptr, spif_obj_set_class, spif_url_parse
backend: sat
objbits: 9
*/
/*@unit
name: url_init_from_str
define: U_INIT_FROM_STR
src: url.c
enforce: spif_url_init_from_str
replace: spif_str_init_from_ptr, spif_obj_set_class, spif_url_parse
backend: sat
objbits: 9
*/
/*@unit
name: url_new_from_ptr
define: U_NEW_FROM_PTR
src: url.c
enforce: spif_url_new_from_ptr
replace: spif_url_init_from_ptr
backend: sat
objbits: 9
*/
/*@unit
name: url_new_from_str
define: U_NEW_FROM_STR
src: url.c
enforce: spif_url_new_from_str
replace: spif_url_init_from_str
backend: sat
objbits: 9
*/
#define VERIF_OWN_STRCHR
#define VERIF_STRCHR_TEXT_ONLY
#include "vprelude.h"
#include "env_net.h"
#ifdef U_REAL_STR
/* url_done / url_del: spif_str_done and spif_str_del are written out from str.c:293-311 (loop-free, six
 * statements; FREE() nulls its argument).  Contracts that say "was freed" cannot be used through
 * `replace:` here: DFCC wants every was_freed pointer unconditionally in the callee's frees clause, and
 * the buffer of an empty-state str is not.  Including the whole real str.c under DFCC ran out of memory. */
# define VERIF_NO_ASSUMED_STR_CONTRACTS
# include "url.h"
# ifdef VERIF_NATIVE             /* native replay: the linked str.c keeps its own names */
#  define spif_str_done vg_m_str_done
#  define spif_str_del vg_m_str_del
#  ifndef VCAP
#   define VCAP 0x3fffffffL
#  endif
# endif
spif_bool_t spif_str_done(spif_str_t self)
{
    ASSERT_RVAL(!SPIF_STR_ISNULL(self), FALSE);
    if (self->size) {
        FREE(self->s);
        self->len = 0;
        self->size = 0;
        self->s = (spif_charptr_t) NULL;
    }
    return TRUE;
}
spif_bool_t spif_str_del(spif_str_t self)
{
    ASSERT_RVAL(!SPIF_STR_ISNULL(self), FALSE);
    spif_str_done(self);
    SPIF_DEALLOC(self);
    return TRUE;
}
#else
# include "url.h"
#endif
#if defined(U_PLAIN) && defined(VERIF_NATIVE)
# include "rawsrc/url.c"
#else
# include "src/url.c"
#endif
#ifndef U_PLAIN
#define NET_URL_API
#include "url.h"
#endif

#ifdef U_PLAIN
/* url_done / url_del as PLAIN harnesses (loop-free, nothing unwound, sizes symbolic): under DFCC the 15
 * deallocations of one spif_url_done made a 7.2 M-variable instance (> 8 GB).  The harness builds any URL
 * object (text in either legal state, each component absent or present with a buffer of symbolic size),
 * calls the function and checks: reusable empty state / object gone; every block the object owned is
 * released exactly once (cbmc's double-free and use-after-free checks, --memory-leak-check with nothing
 * else live except a bystander block that must survive). */
static spif_str_t mk_comp(_Bool has, long len, long size)
{
    spif_str_t p;
    if (!has) return NULL;
    p = malloc(sizeof(spif_const_str_t));
    p->len = len; p->size = size;
    __CPROVER_assume(p->len >= 0 && p->len < p->size && p->size <= VCAP);
#ifdef VERIF_NATIVE              /* the witness' sizes may be huge: same shape, short buffers */
    if (p->size > 64) { p->len = p->len % 30; p->size = p->len + 1 + p->size % 5; }
#endif
    p->s = malloc(p->size);
    return p;
}
#define ANY_COMP(n) mk_comp(VND(bool, has_ ## n), VND(long, len_ ## n), VND(long, size_ ## n))
void harness(void)
{
    libast_debug_level = VND(uint, debug_level);          /* every run-time debug level */
    char *bystander = malloc(1);
    spif_url_t u = malloc(sizeof(spif_const_url_t));
#ifndef VERIF_NATIVE
    SPIF_CLASS_VAR(url) = &u_class;
#endif
    NSTR(u)->parent.cls = SPIF_CLASS_VAR(url);
    if (VND(bool, text_empty)) { NSTR(u)->s = NULL; NSTR(u)->len = 0; NSTR(u)->size = 0; }
    else {
        spif_str_t t = mk_comp(1, VND(long, len_text), VND(long, size_text));
        NSTR(u)->s = t->s; NSTR(u)->len = t->len; NSTR(u)->size = t->size; free(t);
    }
    u->proto = ANY_COMP(proto); u->user = ANY_COMP(user); u->passwd = ANY_COMP(passwd); u->host = ANY_COMP(host);
    u->port = ANY_COMP(port); u->path = ANY_COMP(path); u->query = ANY_COMP(query);
# ifdef U_DONE
    spif_bool_t r = spif_url_done(u);
    __CPROVER_assert(r == TRUE, "done returns TRUE");
    __CPROVER_assert(URL_COMPS_NULL(u), "done leaves every component absent");
    __CPROVER_assert(NSTR(u)->s == NULL && NSTR(u)->len == 0 && NSTR(u)->size == 0, "done leaves the text in the empty state");
    __CPROVER_assert(NSTR(u)->parent.cls == SPIF_CLASS_VAR(url), "done leaves the class alone");
    *bystander = 1;                      /* still live */
    VERIF_CANARY();
    free(u);                             /* the caller's own block; everything else must be gone already */
# else
    spif_bool_t r = spif_url_del(u);
    __CPROVER_assert(r == TRUE, "del returns TRUE");
    *bystander = 1;
    VERIF_CANARY();
# endif
    free(bystander);
}
#else
void harness(void)
{
#if defined(U_INIT)
    spif_url_t u; spif_url_init(u);
#elif defined(U_NEW)
    spif_url_new();
#elif defined(U_DONE)
    spif_url_t u; spif_url_done(u);
#elif defined(U_DEL)
    spif_url_t u; spif_url_del(u);
#elif defined(U_INIT_FROM_PTR)
    spif_url_t u; spif_charptr_t p; spif_url_init_from_ptr(u, p);
#elif defined(U_INIT_FROM_STR)
    spif_url_t u; spif_str_t s; spif_url_init_from_str(u, s);
#elif defined(U_NEW_FROM_PTR)
    spif_charptr_t p; spif_url_new_from_ptr(p);
#elif defined(U_NEW_FROM_STR)
    spif_str_t s; spif_url_new_from_str(s);
#endif
    VERIF_CANARY();
}
#endif
