/* C06 (url part): ownership across the URL lifecycle.
 *   url_init            -> empty text (NULL,0,0), all seven components absent, class = url
 *   url_new             -> fresh object in that state
 * (str calls of done/del: real str.c bodies, see below)
 *   url_done            -> every present component deleted (object and buffer), text buffer freed, object left in
 *                          the reusable empty state; nothing else touched
 *   url_del             -> done + the object itself freed
 *   url_init_from_ptr / _from_str, url_new_from_ptr / _from_str
 *                       -> text is a fresh copy of the argument (argument untouched), class = url, components as
 *                          spif_url_parse leaves them (parse by its contract: units C14.parse.*)
 * Tier P, loop-free.  str-class calls by the ASSUMED contracts of contracts/url.h.
 */
/*@unit
name: url_init
define: U_INIT
src: url.c
enforce: spif_url_init
replace: spif_str_init, spif_obj_set_class
backend: sat
*/
/*@unit
name: url_new
define: U_NEW
src: url.c
enforce: spif_url_new
replace: spif_url_init
backend: sat
*/
/*@unit
name: url_done
define: U_DONE, U_REAL_STR
src: url.c
enforce: spif_url_done
backend: cadical
objbits: 9
timeout: 250
funcs: spif_str_del, spif_str_done
*/
/*@unit
name: url_del
define: U_DEL, U_REAL_STR
src: url.c
enforce: spif_url_del
backend: cadical
objbits: 9
timeout: 250
funcs: spif_url_done, spif_str_del, spif_str_done
*/
/*@unit
name: url_init_from_ptr
define: U_INIT_FROM_PTR, NET_NO_CONTENT
src: url.c
enforce: spif_url_init_from_ptr
replace: spif_str_init_from_ptr, spif_obj_set_class, spif_url_parse
backend: sat
objbits: 9
*/
/*@unit
name: url_init_from_str
define: U_INIT_FROM_STR, NET_NO_CONTENT
src: url.c
enforce: spif_url_init_from_str
replace: spif_str_init_from_ptr, spif_obj_set_class, spif_url_parse
backend: sat
objbits: 9
*/
/*@unit
name: url_new_from_ptr
define: U_NEW_FROM_PTR
src: url.c
enforce: spif_url_new_from_ptr
replace: spif_url_init_from_ptr
backend: sat
objbits: 9
*/
/*@unit
name: url_new_from_str
define: U_NEW_FROM_STR
src: url.c
enforce: spif_url_new_from_str
replace: spif_url_init_from_str
backend: sat
objbits: 9
*/
#define VERIF_OWN_STRCHR
#define VERIF_STRCHR_TEXT_ONLY
#include "vprelude.h"
#include "env_net.h"
#ifdef U_REAL_STR
/* url_done / url_del: spif_str_done and spif_str_del are written out from str.c:293-311 (loop-free, six
 * statements; FREE() nulls its argument).  Contracts that say "was freed" cannot be used through
 * `replace:` here: DFCC wants every was_freed pointer unconditionally in the callee's frees clause, and
 * the buffer of an empty-state str is not.  Including the whole real str.c under DFCC ran out of memory. */
# define VERIF_NO_ASSUMED_STR_CONTRACTS
# include "url.h"
spif_bool_t spif_str_done(spif_str_t self)
{
    ASSERT_RVAL(!SPIF_STR_ISNULL(self), FALSE);
    if (self->size) {
        FREE(self->s);
        self->len = 0;
        self->size = 0;
        self->s = (spif_charptr_t) NULL;
    }
    return TRUE;
}
spif_bool_t spif_str_del(spif_str_t self)
{
    ASSERT_RVAL(!SPIF_STR_ISNULL(self), FALSE);
    spif_str_done(self);
    SPIF_DEALLOC(self);
    return TRUE;
}
#else
# include "url.h"
#endif
#include "src/url.c"
#define NET_URL_API
#include "url.h"

void harness(void)
{
#if defined(U_INIT)
    spif_url_t u; spif_url_init(u);
#elif defined(U_NEW)
    spif_url_new();
#elif defined(U_DONE)
    spif_url_t u; spif_url_done(u);
#elif defined(U_DEL)
    spif_url_t u; spif_url_del(u);
#elif defined(U_INIT_FROM_PTR)
    spif_url_t u; spif_charptr_t p; spif_url_init_from_ptr(u, p);
#elif defined(U_INIT_FROM_STR)
    spif_url_t u; spif_str_t s; spif_url_init_from_str(u, s);
#elif defined(U_NEW_FROM_PTR)
    spif_charptr_t p; spif_url_new_from_ptr(p);
#elif defined(U_NEW_FROM_STR)
    spif_str_t s; spif_url_new_from_str(s);
#endif
    VERIF_CANARY();
}
