/* same functions as the C03 map units */
#include "units/C03/native/array_map.c"
