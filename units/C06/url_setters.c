/* C06 (url part): the seven property setters (SPIF_DEFINE_PROPERTY_FUNC) delete the previous component
 * (object and buffer) and store the new one; getters return the stored pointer; nothing else changes.
 * Tier P, loop-free, PLAIN harness (see C06.url_done for why not DFCC).  The dispatch macro SPIF_OBJ_DEL
 * (call through spif_func_t) is re-bound to the str class's del - the components are declared as str -
 * written out from str.c:293-311 (stated deviation, DESIGN 2.1).
 * Precondition used: the new value is absent or a separately allocated str DIFFERENT from the stored one
 * (set_x(u, get_x(u)) would store a pointer to the object it has just deleted: the setter has no
 * self-assignment guard; documented as a limitation of the API, not claimed either way).
 */
/*@unit
name: url_set_proto
define: FIELD=proto
src: url.c
backend: sat
native: self
flags: --memory-leak-check
funcs: spif_url_set_proto, spif_url_get_proto
*/
/*@unit
name: url_set_user
define: FIELD=user
src: url.c
backend: sat
native: self
flags: --memory-leak-check
funcs: spif_url_set_user, spif_url_get_user
*/
/*@unit
name: url_set_passwd
define: FIELD=passwd
src: url.c
backend: sat
native: self
flags: --memory-leak-check
funcs: spif_url_set_passwd, spif_url_get_passwd
*/
/*@unit
name: url_set_host
define: FIELD=host
src: url.c
backend: sat
native: self
flags: --memory-leak-check
funcs: spif_url_set_host, spif_url_get_host
*/
/*@unit
name: url_set_port
define: FIELD=port
src: url.c
backend: sat
native: self
flags: --memory-leak-check
funcs: spif_url_set_port, spif_url_get_port
*/
/*@unit
name: url_set_path
define: FIELD=path
src: url.c
backend: sat
native: self
flags: --memory-leak-check
funcs: spif_url_set_path, spif_url_get_path
*/
/*@unit
name: url_set_query
define: FIELD=query
src: url.c
backend: sat
native: self
flags: --memory-leak-check
funcs: spif_url_set_query, spif_url_get_query
*/
#include "vprelude.h"
#include "env_net.h"
#define VERIF_NO_ASSUMED_STR_CONTRACTS
#include "url.h"
#ifdef VERIF_NATIVE             /* native replay: the linked str.c keeps its own names */
# define spif_str_done vg_m_str_done
# define spif_str_del vg_m_str_del
# ifndef VCAP
#  define VCAP 0x3fffffffL
# endif
# define __CPROVER_rw_ok(p, n) 1
#endif
spif_bool_t spif_str_done(spif_str_t self)
{
    ASSERT_RVAL(!SPIF_STR_ISNULL(self), FALSE);
    if (self->size) {
        FREE(self->s);
        self->len = 0;
        self->size = 0;
        self->s = (spif_charptr_t) NULL;
    }
    return TRUE;
}
spif_bool_t spif_str_del(spif_str_t self)
{
    ASSERT_RVAL(!SPIF_STR_ISNULL(self), FALSE);
    spif_str_done(self);
    SPIF_DEALLOC(self);
    return TRUE;
}
#undef SPIF_OBJ_DEL
#define SPIF_OBJ_DEL(o) spif_str_del((spif_str_t) (o))
#ifdef VERIF_NATIVE
# include "rawsrc/url.c"
#else
# include "src/url.c"
#endif

#define CAT_(a, b) a ## b
#define CAT(a, b) CAT_(a, b)
#define SETTER CAT(spif_url_set_, FIELD)
#define GETTER CAT(spif_url_get_, FIELD)

static spif_str_t mk_comp(_Bool has, long len, long size)
{
    spif_str_t p;
    if (!has) return NULL;
    p = malloc(sizeof(spif_const_str_t));
    p->len = len; p->size = size;
    __CPROVER_assume(p->len >= 0 && p->len < p->size && p->size <= VCAP);
#ifdef VERIF_NATIVE              /* the witness' sizes may be huge: same shape, short buffers */
    if (p->size > 64) { p->len = p->len % 30; p->size = p->len + 1 + p->size % 5; }
#endif
    p->s = malloc(p->size);
    return p;
}
#define ANY_COMP(n) mk_comp(VND(bool, has_ ## n), VND(long, len_ ## n), VND(long, size_ ## n))
static void rm_comp(spif_str_t p) { if (p) { free(p->s); free(p); } }

void harness(void)
{
    libast_debug_level = VND(uint, debug_level);          /* every run-time debug level */
    spif_url_t u = malloc(sizeof(spif_const_url_t));
    spif_const_url_t before;
    spif_str_t nv = ANY_COMP(nv);
    NSTR(u)->s = NULL; NSTR(u)->len = 0; NSTR(u)->size = 0;
    u->proto = ANY_COMP(proto); u->user = ANY_COMP(user); u->passwd = ANY_COMP(passwd); u->host = ANY_COMP(host);
    u->port = ANY_COMP(port); u->path = ANY_COMP(path); u->query = ANY_COMP(query);
    before = *u;
    __CPROVER_assert(GETTER(u) == u->FIELD, "getter returns the stored component");

    spif_bool_t r = SETTER(u, nv);

    __CPROVER_assert(r == TRUE, "setter returns TRUE");
    __CPROVER_assert(u->FIELD == nv && GETTER(u) == nv, "the new value is stored");
    before.FIELD = nv;
    __CPROVER_assert(u->proto == before.proto && u->user == before.user && u->passwd == before.passwd &&
                     u->host == before.host && u->port == before.port && u->path == before.path &&
                     u->query == before.query && NSTR(u)->s == NULL, "no other field changes");
    __CPROVER_assert(nv == NULL || (nv->len >= 0 && nv->len < nv->size && __CPROVER_rw_ok(nv->s, (size_t) nv->size)),
                     "the new value itself is untouched and alive");
    VERIF_CANARY();
    /* the previous value must be gone already: deleting what is reachable now leaves no block (leak check) */
    rm_comp(u->proto); rm_comp(u->user); rm_comp(u->passwd); rm_comp(u->host);
    rm_comp(u->port); rm_comp(u->path); rm_comp(u->query);
    free(u);
}
