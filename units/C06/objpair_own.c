/* C06 (objpair): done frees exactly the key and value copies the pair owns and leaves the empty,
 * reusable state; del additionally frees the pair; the setters free the previous object and take
 * ownership of the new one; a pair from new() is in the empty state (so done/del on it is safe). */
/*@unit
name: objpair_done
define: U_DONE
src: objpair.c, obj.c
enforce: spif_objpair_done
backend: sat
*/
/*@unit
name: objpair_del
define: U_DEL
src: objpair.c, obj.c
enforce: spif_objpair_del
funcs: spif_objpair_done
backend: sat
*/
/*@unit
name: objpair_set_value
define: U_SETV
src: objpair.c, obj.c
enforce: spif_objpair_set_value
backend: sat
*/
/*@unit
name: objpair_set_key
define: U_SETK
src: objpair.c, obj.c
enforce: spif_objpair_set_key
backend: sat
*/
/*@unit
name: objpair_new
define: U_NEW
src: objpair.c, obj.c
enforce: spif_objpair_new
funcs: spif_objpair_init
backend: sat
*/
#include "vprelude.h"
#include "velem_map.h"
#define o_class obj_o_class
#include "src/obj.c"
#undef o_class
#include "objpair.h"
#include "src/objpair.c"

/* a pair in any state its API can produce: key / value each NULL or an owned velem */
#define PAIR_ANY(p) (__CPROVER_is_fresh((p), sizeof(struct spif_objpair_t_struct)) && \
                     VELEM_OR_NULL((velem_t) (p)->key) && VELEM_OR_NULL((velem_t) (p)->value))
#define PAIR_OBJS(p) (p)->key != NULL: __CPROVER_object_whole((p)->key); (p)->value != NULL: __CPROVER_object_whole((p)->value)

#ifdef U_DONE
spif_bool_t spif_objpair_done(spif_objpair_t self)
__CPROVER_requires(PAIR_ANY(self))
__CPROVER_assigns(self->key, self->value; PAIR_OBJS(self))
__CPROVER_frees(self->key, self->value)
__CPROVER_ensures(__CPROVER_return_value == TRUE && self->key == NULL && self->value == NULL)
__CPROVER_ensures(__CPROVER_old(self->key) == NULL || __CPROVER_was_freed(__CPROVER_old(self->key)))
__CPROVER_ensures(__CPROVER_old(self->value) == NULL || __CPROVER_was_freed(__CPROVER_old(self->value)))
;
void harness(void) { spif_objpair_t p; spif_objpair_done(p); VERIF_CANARY(); }
#endif

#ifdef U_DEL
spif_bool_t spif_objpair_del(spif_objpair_t self)
__CPROVER_requires(PAIR_ANY(self))
__CPROVER_assigns(__CPROVER_object_whole(self); PAIR_OBJS(self))
__CPROVER_frees(self, self->key, self->value)
__CPROVER_ensures(__CPROVER_return_value == TRUE && __CPROVER_was_freed(self))
__CPROVER_ensures(__CPROVER_old(self->key) == NULL || __CPROVER_was_freed(__CPROVER_old(self->key)))
__CPROVER_ensures(__CPROVER_old(self->value) == NULL || __CPROVER_was_freed(__CPROVER_old(self->value)))
;
void harness(void) { spif_objpair_t p; spif_objpair_del(p); VERIF_CANARY(); }
#endif

#ifdef U_SETV
spif_bool_t spif_objpair_set_value(spif_objpair_t self, spif_obj_t new_value)
__CPROVER_requires(PAIR_ANY(self) && VELEM_OR_NULL((velem_t) new_value))
__CPROVER_assigns(self->value; self->value != NULL: __CPROVER_object_whole(self->value))
__CPROVER_frees(self->value)
__CPROVER_ensures(__CPROVER_return_value == TRUE && self->value == new_value && self->key == __CPROVER_old(self->key))
__CPROVER_ensures(__CPROVER_old(self->value) == NULL || __CPROVER_was_freed(__CPROVER_old(self->value)))
;
void harness(void) { spif_objpair_t p; spif_obj_t v; spif_objpair_set_value(p, v); VERIF_CANARY(); }
#endif

#ifdef U_SETK
spif_bool_t spif_objpair_set_key(spif_objpair_t self, spif_obj_t new_key)
__CPROVER_requires(PAIR_ANY(self) && VELEM_OR_NULL((velem_t) new_key))
__CPROVER_assigns(self->key; self->key != NULL: __CPROVER_object_whole(self->key))
__CPROVER_frees(self->key)
__CPROVER_ensures(__CPROVER_return_value == TRUE && self->key == new_key && self->value == __CPROVER_old(self->value))
__CPROVER_ensures(__CPROVER_old(self->key) == NULL || __CPROVER_was_freed(__CPROVER_old(self->key)))
;
void harness(void) { spif_objpair_t p; spif_obj_t k; spif_objpair_set_key(p, k); VERIF_CANARY(); }
#endif

#ifdef U_NEW
/* new(): a fresh pair of the objpair class in the EMPTY state (no key, no value), i.e. a state in
 * which done() / del() / the setters are safe */
spif_objpair_t spif_objpair_new(void)
__CPROVER_requires(spif_objpair_class == &o_class)
__CPROVER_assigns()
__CPROVER_ensures(__CPROVER_is_fresh(__CPROVER_return_value, sizeof(struct spif_objpair_t_struct)))
__CPROVER_ensures(SPIF_OBJ_CLASS(__CPROVER_return_value) == spif_objpair_class)
__CPROVER_ensures(__CPROVER_return_value->key == NULL && __CPROVER_return_value->value == NULL)
;
void harness(void) { spif_objpair_new(); VERIF_CANARY(); }
#endif
