/* C06, linked_list classes: every allocation is released exactly once.  Bounded stand-ins (tier B) run with
 * cbmc's --memory-leak-check: the harness builds EVERY container of 0..VL_MAXN nodes, performs ONE operation of
 * the real code, then deletes everything the PROGRAM owns according to the property statement (the container
 * through its real del method; removed elements / removed pairs / key, value and pair lists / to_array results /
 * dup results / the caller's own key and value objects).  Obligations:
 *   - no double free, no use after free (cbmc's free() preconditions and dereference checks on every access);
 *   - the heap is empty at the end (memory-leak obligation): the container freed every node and every element it
 *     still owned, and nothing the operation allocated was dropped;
 *   - the container never freed an element it handed back (the harness reads it, then frees it itself);
 *   - done() leaves the object empty and reusable (an append after done() works, the list is then deleted).
 */

/*@unit
name: llist_own_done
define: U_DONE, U_KIND_LIST
src: linked_list.c, obj.c
tier: B
native: self
backend: cadical
unwind: 8
unwind_thorough: 12
flags: --memory-leak-check
bound: list length <= 4, elements NULL placeholders or any key [thorough tier: lengths up to 5]
funcs: spif_linked_list_done, spif_linked_list_del, spif_linked_list_item_del, spif_linked_list_item_done, spif_linked_list_append
*/
/*@unit
name: llist_own_remove
define: U_REMOVE, U_KIND_LIST
src: linked_list.c, obj.c
tier: B
native: self
backend: cadical
unwind: 8
unwind_thorough: 12
flags: --memory-leak-check
bound: list length <= 4, all 2^32 index values, all key values [thorough tier: lengths up to 5]
funcs: spif_linked_list_remove_at, spif_linked_list_remove, spif_linked_list_del
*/
/*@unit
name: llist_own_insert_at
define: U_INSERT_AT, U_KIND_LIST, VL_MINN=1
src: linked_list.c, obj.c
tier: B
native: self
backend: cadical
unwind: 8
unwind_thorough: 12
flags: --memory-leak-check
bound: list length 1..4, index up to len+2 (placeholder nodes are created and must be freed by del) [thorough tier: lengths up to 5]
funcs: spif_linked_list_insert_at, spif_linked_list_del
*/
/*@unit
name: llist_own_results
define: U_RESULTS, U_KIND_LIST
src: linked_list.c, obj.c
tier: B
native: self
backend: cadical
unwind: 8
unwind_thorough: 12
flags: --memory-leak-check
bound: list length <= 4 [thorough tier: lengths up to 5]
funcs: spif_linked_list_to_array, spif_linked_list_iterator, spif_linked_list_iterator_del, spif_linked_list_del
*/
/*@unit
name: llist_own_dup
define: U_DUPDEL, U_KIND_LIST, VL_MINN=1
src: linked_list.c, obj.c
tier: B
native: self
backend: cadical
unwind: 8
unwind_thorough: 12
flags: --memory-leak-check
bound: list length 1..4, elements NULL placeholders or any key [thorough tier: lengths up to 5]
funcs: spif_linked_list_dup, spif_linked_list_del
*/
/*@unit
name: llist_own_map_set
define: U_MAP_SET, U_KIND_MAP
src: linked_list.c, objpair.c, obj.c
tier: B
native: self
backend: cadical
unwind: 8
unwind_thorough: 12
objbits: 10
flags: --memory-leak-check
bound: map size <= 4, all key and value keys (insert and overwrite) [thorough tier: lengths up to 5]
funcs: spif_linked_list_set, spif_objpair_set_value, spif_objpair_del, spif_objpair_done, spif_linked_list_del
*/
/*@unit
name: llist_own_map_remove
define: U_MAP_REMOVE, U_KIND_MAP
src: linked_list.c, objpair.c, obj.c
tier: B
native: self
backend: cadical
unwind: 8
unwind_thorough: 12
objbits: 10
flags: --memory-leak-check
bound: map size <= 4, all key and value keys [thorough tier: lengths up to 5]
funcs: spif_linked_list_map_remove, spif_objpair_del, spif_linked_list_del
*/
/*@unit
name: llist_own_map_lists
define: U_MAP_LISTS, U_KIND_MAP
src: linked_list.c, objpair.c, obj.c
tier: B
native: self
backend: cadical
unwind: 8
unwind_thorough: 12
objbits: 10
flags: --memory-leak-check
bound: map size <= 4, all key and value keys [thorough tier: lengths up to 5]
funcs: spif_linked_list_get_keys, spif_linked_list_get_values, spif_linked_list_get_pairs, spif_linked_list_del
*/
#include "vprelude.h"
#ifdef U_KIND_MAP
# define VL_WITH_PAIRS
#endif
#define VL_LISTRESULT_LLIST
#include "lists.h"
#define o_class vl_obj_o_class
#include "src/obj.c"
#undef o_class
#ifdef U_KIND_MAP
# define VL_SWITCH_ELEM
# include "lists.h"           /* inside objpair.c: keys and values are velems */
# include "src/objpair.c"
# define VL_SWITCH_OBJ
# include "lists.h"           /* list code: pair | list | velem */
#endif
#include "src/linked_list.c"

#define LT spif_linked_list_t
#define IT spif_linked_list_item_t
#define DEL spif_linked_list_del

#ifdef U_KIND_MAP
vl_map_t m;
# define BUILD(self, m) do { VL_INPUTS(vin, a); VL_BUILD_MAP(self, LT, IT, SPIF_MAPCLASS_VAR(linked_list), VL_SL, m, vin); } while (0)
#else
vl_seq_t m;
# define BUILD(self, m) do { VL_INPUTS(vin, a); VL_BUILD(self, LT, IT, SPIF_LISTCLASS_VAR(linked_list), VL_SL, m, vin, vl_data_list); } while (0)
#endif
vl_in_t vin;            /* the built container's inputs (VND: replayable natively) */
int w_n, w_idx;

void harness(void)
{
    LT self;
    spif_obj_t x, r;
    int k = (int) VND(int, k), v = (int) VND(int, v);
    spif_listidx_t idx = (spif_listidx_t) VND(int, idx);

    VL_HEAP_MARK();
    BUILD(self, m);
    w_n = m.len; w_idx = idx;

#ifdef U_DONE
    __CPROVER_assert(spif_linked_list_done(self) == TRUE, "llist done: returns TRUE");
    __CPROVER_assert(self->len == 0 && self->head == NULL, "llist done: leaves the empty state");
    /* reusable: fill again, then delete */
    x = (spif_obj_t) vl_elem(k);
    spif_linked_list_append(self, x);
    __CPROVER_assert(self->len == 1 && self->head != NULL && self->head->data == x && self->head->next == NULL, "llist done: the object is reusable");
    __CPROVER_assert(DEL(self) == TRUE, "llist del: returns TRUE");
#endif
#ifdef U_REMOVE
    if (VND(bool, c1)) {
        r = spif_linked_list_remove_at(self, idx);
    } else {
        x = (spif_obj_t) vl_elem(k);
        r = spif_linked_list_remove(self, x);
        free(x);
    }
    if (r != NULL) {            /* handed back: ours now - still alive, and the container does not free it later */
        DEL(self);
        w_idx = ((velem_t) r)->key;  /* a read: natively ASan judges it */
        __CPROVER_assert(VL_R_OK((velem_t) r, sizeof(struct velem_struct)), "llist remove: the element handed back is not freed by the container");
        free(r);
    } else {
        DEL(self);
    }
#endif
#ifdef U_INSERT_AT
    x = (spif_obj_t) vl_elem(k);
    __CPROVER_assume(idx >= 0 && idx <= m.len + VL_GROW);
    if (spif_linked_list_insert_at(self, x, idx) != TRUE)
        free(x);                /* refused: the element stays the caller's */
    DEL(self);                  /* frees the placeholder nodes and x (accepted: the list owns it now) */
#endif
#ifdef U_RESULTS
    {
        spif_obj_t *a = spif_linked_list_to_array(self);
        spif_linked_list_iterator_t it = (spif_linked_list_iterator_t) spif_linked_list_iterator(self);
        if (m.len > 0) spif_linked_list_iterator_next(it);
        __CPROVER_assert(spif_linked_list_iterator_del(it) == TRUE, "llist iterator del: returns TRUE");
        free(a);                /* the array is the caller's; the elements stay the list's */
        VL_CHECK(self, IT, VL_SL, m, "llist to_array/iterator (list untouched, elements alive)");
        DEL(self);
    }
#endif
#ifdef U_DUPDEL
    {
        LT copy = spif_linked_list_dup(self);
        DEL(self);
        DEL(copy);
    }
#endif
#ifdef U_MAP_SET
    {
        spif_obj_t key = (spif_obj_t) vl_elem(k), val = (spif_obj_t) vl_elem(v);
        spif_linked_list_set(self, key, val);
        /* the caller's objects are neither freed nor retained */
        __CPROVER_assert(((velem_t) key)->key == k && ((velem_t) val)->key == v, "llist map set: caller's key and value are alive");
        free(key); free(val);
        DEL(self);              /* on overwrite the previous value must already have been released */
    }
#endif
#ifdef U_MAP_REMOVE
    {
        spif_obj_t key = (spif_obj_t) vl_elem(k);
        r = spif_linked_list_map_remove(self, key);
        free(key);
        DEL(self);
        if (r != NULL) {
            __CPROVER_assert(((velem_t) ((spif_objpair_t) r)->key)->key == k, "llist map remove: the pair handed back is not freed by the container");
            spif_objpair_del((spif_objpair_t) r);
        }
    }
#endif
#ifdef U_MAP_LISTS
    {
        LT ks = (LT) spif_linked_list_get_keys(self, (spif_list_t) NULL);
        LT vs = (LT) spif_linked_list_get_values(self, (spif_list_t) NULL);
        LT ps = (LT) spif_linked_list_get_pairs(self, (spif_list_t) NULL);
        DEL(self);              /* the result lists are independent of the map ... */
        __CPROVER_assert(ks->len == m.len && vs->len == m.len && ps->len == m.len, "llist map get_*: one entry per pair");
        DEL(ks); DEL(vs); DEL(ps);      /* ... and owned by the caller */
    }
#endif
    VL_HEAP_CHECK();
    VERIF_CANARY();
}
