/* C06 (array): done deletes every element the container still owns exactly once (ghost slot:
 * vg_del_cnt counts the SPIF_OBJ_DEL calls on the live element items[vg_k]; deletion inside a
 * contracted loop is counted, not executed, see va_del in env_array.h), frees the slot array and leaves the
 * empty, reusable state; del additionally frees the container.  Placeholders are skipped. */
/*@unit
name: array_done
define: U_DONE
src: array.c
enforce: spif_array_done
backend: sat
loops: 1
*/
/*@unit
name: array_del
define: U_DEL
src: array.c
enforce: spif_array_del
replace: spif_array_done
backend: sat
*/
#define VA_ELEM_T spif_obj_t
#include "vprelude.h"
#include "env_array.h"
#include "array.h"
#include "src/array.c"

#define DONE_PRE (ARRAY_VALID_W(self) && (vg_k >= (size_t) self->len || VELEM_OR_NULL((velem_t) self->items[vg_k])) && \
                  SNAP_ITEM(self, vg_k, vg_old_k) && vg_del_cnt == 0)
static spif_bool_t spif_array_done(spif_array_t self)
__CPROVER_requires(DONE_PRE)
__CPROVER_assigns(self->len, self->items, vg_cur, vg_del_cnt; self->items != NULL: __CPROVER_object_whole(self->items))
__CPROVER_frees(self->items)
__CPROVER_ensures(__CPROVER_return_value == TRUE && self->len == 0 && self->items == NULL)
#ifdef U_DONE   /* (cbmc rejects a guarded was_freed in a contract that is USED at a call site) */
__CPROVER_ensures(OLD_ITEMS(self) == NULL || __CPROVER_was_freed(OLD_ITEMS(self)))
#endif
/* the element in slot vg_k was deleted exactly once; a placeholder (or no such slot): never */
__CPROVER_ensures(vg_del_cnt == ((vg_k < (size_t) OLD_LEN(self) && vg_old_k != (spif_obj_t) NULL) ? 1 : 0))
;
#ifdef U_DONE
void harness(void) { spif_array_t self; spif_array_done(self); VERIF_CANARY(); }
#endif

#ifdef U_DEL
static spif_bool_t spif_array_del(spif_array_t self)
__CPROVER_requires(DONE_PRE)
__CPROVER_assigns(__CPROVER_object_whole(self), vg_cur, vg_del_cnt; self->items != NULL: __CPROVER_object_whole(self->items))
__CPROVER_frees(self, self->items)
__CPROVER_ensures(__CPROVER_return_value == TRUE && __CPROVER_was_freed(self))
__CPROVER_ensures(vg_del_cnt == ((vg_k < (size_t) OLD_LEN(self) && vg_old_k != (spif_obj_t) NULL) ? 1 : 0))
;
void harness(void) { spif_array_t self; spif_array_del(self); VERIF_CANARY(); }
#endif
