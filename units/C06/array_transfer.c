/* C06 (array): ownership transfer.  The contracts are those of C02 / C03 (same files, included
 * below); what matters for C06 is their FRAME: the frees clause of remove / remove_at /
 * map_remove names the slot array only, so the element or pair handed back is not freed by the
 * container (any free of it would violate the clause) and is no longer in the view; to_array,
 * get_keys / get_values / get_pairs results are fresh blocks / fresh copies owned by the caller;
 * set stores copies: the caller's key and value are outside its assigns and frees clauses.
 * (All of them run in the quick tier: a C06 seed in set / remove must be caught by ./check C06.) */
/*@unit
name: array_remove_at.transfer
define: U_REMOVE_AT
src: array.c
native: array_list
native_includes: array.c
enforce: spif_array_remove_at
backend: sat
flags: --slice-formula
timeout: 600
*/
/*@unit
name: array_remove.transfer
define: U_REMOVE
src: array.c
native: array_list
native_includes: array.c
enforce: spif_array_remove
backend: sat
flags: --slice-formula
timeout: 600
loops: 1
*/
/*@unit
name: array_to_array.owned
define: U_TO_ARRAY
src: array.c
native: array_list
native_includes: array.c
enforce: spif_array_to_array
backend: sat
loops: 1
*/
#if defined(U_REMOVE_AT) || defined(U_REMOVE) || defined(U_TO_ARRAY)
#include "units/C02/array_list.c"
#endif
/*@unit
name: array_map_remove.transfer
define: U_MREMOVE, VA_COMP_KEY, VA_SLOTS_NONNULL
src: array.c, objpair.c, obj.c
native: array_map
native_includes: array.c
enforce: spif_array_map_remove
backend: sat
flags: --slice-formula
timeout: 600
loops: 1
*/
/*@unit
name: array_get_keys.owned
define: U_GET_KEYS, VA_COMP_KEY, VA_SLOTS_NONNULL
src: array.c, objpair.c, obj.c
native: array_map
native_includes: array.c
enforce: spif_array_get_keys
backend: sat
loops: 1
*/
/*@unit
name: array_get_pairs.owned
define: U_GET_PAIRS, VA_COMP_KEY, VA_SLOTS_NONNULL, VM_DUP_IS_PAIR, VM_PAIR_BY_INDEX
src: array.c, objpair.c, obj.c
native: array_map
native_includes: array.c
enforce: spif_array_get_pairs
backend: sat
loops: 1
*/
/*@unit
name: array_set.copies
define: U_SET, VA_COMP_KEY, VA_SLOTS_NONNULL, VM_PAIR_BY_INDEX
src: array.c, objpair.c, obj.c
native: array_map
native_includes: array.c
enforce: spif_array_set
replace: spif_array_insert
backend: sat
flags: --slice-formula
timeout: 600
loops: 1
*/
#if defined(U_MREMOVE) || defined(U_GET_KEYS) || defined(U_GET_PAIRS) || defined(U_SET)
#include "units/C03/array_map.c"
#endif
