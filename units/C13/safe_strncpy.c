/* C13: spiftool_safe_strncpy writes at most size bytes, leaves dest NUL-terminated,
 * stores the longest prefix of src that fits, returns TRUE iff nothing was cut. */
/*@unit
name: safe_strncpy
define: U_STRNCPY
src: strings.c
enforce: spiftool_safe_strncpy
backend: sat
loops: 1
native: strhelp
native_includes: strings.c
*/
#include "vprelude.h"
#include "strings.h"
#include "src/strings.c"

spif_bool_t spiftool_safe_strncpy(spif_charptr_t dest, const spif_charptr_t src, spif_int32_t size)
__CPROVER_requires(size > 0 && __CPROVER_is_fresh(dest, (size_t) size))
__CPROVER_requires(VCSTR_EXACT_AT(src, vg_n1, vg_j))
__CPROVER_assigns(__CPROVER_object_whole(dest), vg_exit)
/* terminated at L = min(strlen(src), size-1); prefix of length L copied; TRUE iff nothing cut */
__CPROVER_ensures(vg_exit != vg_j || dest[VMIN(vg_n1, (size_t) size - 1)] == 0)
__CPROVER_ensures(vg_exit != vg_j || !(vg_k < VMIN(vg_n1, (size_t) size - 1)) || dest[vg_k] == src[vg_k])
__CPROVER_ensures(vg_exit != vg_j || (__CPROVER_return_value == TRUE) == (vg_n1 <= (size_t) size - 1))
__CPROVER_ensures(__CPROVER_return_value == TRUE || __CPROVER_return_value == FALSE)
;

long w_size; unsigned long w_n1;     /* witness scalars for the native replay (units/C13/native/strhelp.c) */

void harness(void)
{
    spif_charptr_t dest, src; spif_int32_t size;
    w_size = size; w_n1 = vg_n1;
    spiftool_safe_strncpy(dest, src, size);
    VERIF_CANARY();
}
