/* C13, tier B: exact text produced by spiftool_chomp / spiftool_condense_whitespace / strrev for EVERY byte
 * string of length 0..8 (all 256 byte values per position, so empty, all-whitespace and high-bit strings are
 * included), against reference implementations written here from the property statement:
 *   chomp    = strip leading and trailing whitespace bytes;
 *   condense = every run of whitespace becomes one blank, then one trailing blank is dropped.  Neither the
 *              source nor ChangeLog/doc say anything about LEADING whitespace; reading taken: a leading
 *              run is a run like any other (it becomes one blank and stays);
 *   strrev   = reversal.
 *   whitespace = isspace() of the "C" locale applied to the byte as unsigned char: ' ' \t \n \v \f \r
 *              (bytes >= 0x80 are not whitespace).  NB the code passes plain (signed) char to isspace().
 * Also checked: return value, guard bytes before the start and behind the old terminator untouched.
 * Plain runs on the un-annotated source, loops unwound (--unwind 19 with unwinding assertions), exact
 * byte-loop strlen (env_strhelp.h).  Natively replayable from this file. */
/*@unit
name: chomp_exact
define: U_CHOMP
src: strings.c
funcs: spiftool_chomp
tier: B
bound: every byte string of length <= 8
unwind: 19
backend: sat
native: self
*/
/*@unit
name: strrev_exact
define: U_STRREV
src: strings.c
funcs: strrev
tier: B
bound: every byte string of length <= 8
unwind: 19
backend: sat
native: self
*/
/*@unit
name: condense_exact
define: U_CONDENSE, U_NONEMPTY
src: strings.c
funcs: spiftool_condense_whitespace
tier: B
bound: every byte string of length 1..8
unwind: 19
backend: sat
native: self
*/
/*@unit
name: condense_exact_empty
define: U_CONDENSE, U_EMPTY
src: strings.c
funcs: spiftool_condense_whitespace
tier: B
bound: the empty string
unwind: 19
backend: sat
native: self
*/
#define VERIF_OWN_STRLEN
#define VERIF_STRLEN_LOOP
#include "vprelude.h"
#ifndef VERIF_NATIVE
# include "env_strhelp.h"
#endif
#include "strings.h"
#include "rawsrc/strings.c"

#define ENS(c) __CPROVER_assert((c), "C13 exact: " #c)
#define MAXN 8
#define GUARD 4
#define PAT ((char) 0x5a)

static unsigned n_in;
static char in[MAXN + 1], ref[MAXN + 1];
static unsigned n_ref;

/* inputs are taken with VND in harness() itself (the driver's witness extraction looks there): length and
 * one named byte per position, so a native replay (-DVERIF_NATIVE) sees the verifier's string */
#define PICK_INPUT() do { \
    n_in = (unsigned) VND(uchar, len); \
    __CPROVER_assume(n_in <= MAXN); \
    in[0] = (char) VND(char, c0); in[1] = (char) VND(char, c1); in[2] = (char) VND(char, c2); in[3] = (char) VND(char, c3); \
    in[4] = (char) VND(char, c4); in[5] = (char) VND(char, c5); in[6] = (char) VND(char, c6); in[7] = (char) VND(char, c7); \
    for (i = 0; i < MAXN; i++) __CPROVER_assume(i >= n_in || in[i] != 0); \
    in[n_in] = 0; } while (0)
static int ref_space(char c) { int u = c; if (u < 0) u += 256; return V_ISSPACE(u); }   /* value as unsigned char */

#ifdef U_CHOMP
static void reference(void)
{
    unsigned a = 0, b = n_in, i;
    while (a < n_in && ref_space(in[a])) a++;
    while (b > a && ref_space(in[b - 1])) b--;
    for (i = a; i < b; i++) ref[i - a] = in[i];
    n_ref = b - a; ref[n_ref] = 0;
}
#endif
#ifdef U_STRREV
static void reference(void)
{
    unsigned i;
    for (i = 0; i < n_in; i++) ref[i] = in[n_in - 1 - i];
    n_ref = n_in; ref[n_ref] = 0;
}
#endif
#ifdef U_CONDENSE
static void reference(void)
{
    unsigned i = 0;
    n_ref = 0;
    while (i < n_in) {
        if (ref_space(in[i])) { ref[n_ref++] = ' '; while (i < n_in && ref_space(in[i])) i++; }
        else ref[n_ref++] = in[i++];
    }
    if (n_ref > 0 && ref[n_ref - 1] == ' ') n_ref--;
    ref[n_ref] = 0;
}
#endif

static void run_one(void)
{
    unsigned i;
    reference();
#if defined(U_CHOMP) || defined(U_STRREV)
    {
        /* GUARD pattern bytes | text | NUL | pattern bytes up to the end */
        char g[GUARD + MAXN + 1 + GUARD], *s = g + GUARD, *r;
        for (i = 0; i < sizeof(g); i++) g[i] = PAT;
        for (i = 0; i <= n_in; i++) s[i] = in[i];
# ifdef U_CHOMP
        r = (char *) spiftool_chomp((spif_charptr_t) s);
# else
        r = strrev(s);
# endif
        ENS(r == s);
        for (i = 0; i <= MAXN; i++) ENS(i > n_ref || s[i] == ref[i]);                 /* text and terminator */
        for (i = 0; i < GUARD; i++) ENS(g[i] == PAT);                                 /* before the start */
        for (i = 0; i < sizeof(g) - GUARD; i++) ENS(i <= n_in || s[i] == PAT);        /* behind the old terminator */
    }
#else
    {
        /* handed to realloc: exact heap block, nothing before s[0] / behind the terminator belongs to it */
        char *s, *r;
# ifdef U_NONEMPTY
        __CPROVER_assume(n_in >= 1);
# else
        __CPROVER_assume(n_in == 0);
# endif
        s = malloc(n_in + 1);
        for (i = 0; i <= n_in; i++) s[i] = in[i];
        r = (char *) spiftool_condense_whitespace((spif_charptr_t) s);
        ENS(r != NULL);
        for (i = 0; i <= MAXN; i++) ENS(i > n_ref || r[i] == ref[i]);
        free(r);
    }
#endif
}

void harness(void)
{
    unsigned i;
#ifdef VERIF_NATIVE
    if (!getenv("W_len")) {
        /* replay without a witness (the driver cannot fetch one when the first failing obligation is an
         * unwinding assertion): try every length with three fixed fillings instead of giving up */
        static const char fillc[3][4] = { { 'a', 'b', 'c', 'd' }, { ' ', 'x', '\t', ' ' }, { ' ', ' ', (char) 0xa0, 'y' } };
        unsigned f;
        for (f = 0; f < 3; f++)
            for (n_in = 0; n_in <= MAXN; n_in++) {
# if defined(U_CONDENSE) && defined(U_NONEMPTY)
                if (n_in == 0) continue;
# endif
# if defined(U_CONDENSE) && defined(U_EMPTY)
                if (n_in != 0) continue;
# endif
                for (i = 0; i < n_in; i++) in[i] = fillc[f][(i + n_in) % 4];
                in[n_in] = 0;
                run_one();
            }
        return;
    }
#endif
    PICK_INPUT();
    run_one();
    VERIF_CANARY();
}
