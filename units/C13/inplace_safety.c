/* C13: strrev / spiftool_chomp / spiftool_condense_whitespace, tier P SAFETY for every length:
 *  - never touch a byte before the start: the string starts its object, any such access fails a check;
 *  - never touch a byte after the terminator: the object has slack bytes behind the terminator and the
 *    function's frame is assigns(object_upto(s, n + 1)) (checked for every write);
 *  - never lengthen, result NUL-terminated: a NUL at an offset <= n afterwards.
 * strrev is also proved EXACT here (index loop): result[k] == old[n-1-k] for the ghost index.
 * strlen: env_strhelp.h model restricted to the deciding ghost instance (VERIF_STRLEN_N).
 * memmove (chomp): env_strhelp.h ghost-index over-approximation.  realloc (condense): env.h's
 * single-ghost-element over-approximation with element type char. */
/*@unit
name: strrev
define: U_STRREV
src: strings.c
enforce: strrev
backend: sat
loops: 1
native: strhelp
native_includes: strings.c
*/
/* strings of 2^31 .. 2^32 characters: the int length of strrev (finding carrier) */
/*@unit
name: strrev_huge
define: U_STRREV, U_HUGE
src: strings.c
enforce: strrev
backend: sat
loops: 1
timeout: 200
native: strhelp
native_includes: strings.c
*/
/*@unit
name: chomp
define: U_CHOMP, VERIF_STRHELP_MEMCPY_AT_K
src: strings.c
enforce: spiftool_chomp
backend: sat
loops: 1
native: strhelp
native_includes: strings.c
*/
/*@unit
name: condense
define: U_CONDENSE, U_NONEMPTY, VERIF_REALLOC_ELEM_T=char
src: strings.c
enforce: spiftool_condense_whitespace
backend: sat
loops: 1
native: strhelp
native_includes: strings.c
*/
/*@unit
name: condense_empty
define: U_CONDENSE, U_EMPTY, VERIF_REALLOC_ELEM_T=char
src: strings.c
enforce: spiftool_condense_whitespace
backend: sat
loops: 1
native: strhelp
native_includes: strings.c
*/
#define VERIF_OWN_STRLEN
#define VERIF_STRLEN_GHOST vg_j
#ifdef U_CONDENSE
/* strlen is applied to the REWRITTEN string: its length is the final write offset (vg_exit, recorded after
 * the loop), minus one when the trailing blank was dropped (then that byte is the new terminator) */
# define VERIF_STRLEN_N ((vg_exit > 0 && s[vg_exit - 1] == 0) ? vg_exit - 1 : vg_exit)
#else
# define VERIF_STRLEN_N vg_n1
#endif
#include "vprelude.h"
#include "env_strhelp.h"
#include "strings.h"
#include "src/strings.c"

unsigned long w_n, w_cap;

#ifdef U_STRREV
/* vg_k2 = mirror position of vg_k (set by the harness: __CPROVER_old needs a valid index for every ghost) */
char *strrev(register char *str)
# ifdef U_HUGE
__CPROVER_requires(vg_n1 >= 0x80000000UL && vg_n1 < vg_n2 && vg_n2 <= 0x100000000UL && __CPROVER_is_fresh(str, vg_n2) &&
                   str[vg_n1] == 0 && (!(vg_j < vg_n1) || str[vg_j] != 0))
# else
__CPROVER_requires(VCSTR_IN_BUF_AT(str, vg_n1, vg_n2, vg_j))
# endif
# ifdef U_HUGE
/* ghost indices kept below 2^30 (the loop clauses cast them to the type of i); safety and frame only */
__CPROVER_requires(vg_k < 0x3fffffffUL && vg_k2 < 0x3fffffffUL)
# else
__CPROVER_requires(vg_k < vg_n2 && vg_k2 == (vg_k < vg_n1 ? vg_n1 - 1 - vg_k : 0))
# endif
__CPROVER_assigns(__CPROVER_object_upto(str, vg_n1 + 1), vg_len_ret)
__CPROVER_ensures(__CPROVER_return_value == str)
__CPROVER_ensures(vg_len_ret == vg_n1)
# ifndef U_HUGE
/* exact reversal */
__CPROVER_ensures(!(vg_k < vg_n1) || str[vg_k] == __CPROVER_old(str[vg_k2]))
# endif
/* terminator (never longer, still terminated) and everything behind it untouched */
__CPROVER_ensures(!(vg_k >= vg_n1) || str[vg_k] == __CPROVER_old(str[vg_k]))
;
void harness(void)
{
    char *str;
    w_n = vg_n1; w_cap = vg_n2;
    strrev(str);
    VERIF_CANARY();
}
#endif

#ifdef U_CHOMP
spif_charptr_t spiftool_chomp(spif_charptr_t s)
__CPROVER_requires(VCSTR_IN_BUF_AT(s, vg_n1, vg_n2, vg_j))
__CPROVER_requires(vg_n1 == 0 || s[0] != 0)       /* exactness at index 0, stated outright */
__CPROVER_assigns(__CPROVER_object_upto(s, vg_n1 + 1), vg_len_ret, vg_exit)
__CPROVER_ensures(__CPROVER_return_value == s)
/* never longer, NUL-terminated: the new length is vg_exit (recorded behind the back scan); the byte is
 * seen through the ghost copy index of the memmove model */
__CPROVER_ensures(vg_n1 == 0 || vg_exit <= vg_n1)
__CPROVER_ensures(vg_n1 == 0 || vg_k != vg_exit || (vg_exit <= vg_n1 && s[vg_exit] == 0))
__CPROVER_ensures(vg_n1 != 0 || s[0] == 0)
;
void harness(void)
{
    spif_charptr_t s;
    w_n = vg_n1; w_cap = vg_n2;
    spiftool_chomp(s);
    VERIF_CANARY();
}
#endif

#ifdef U_CONDENSE
/* the block is handed to realloc: s must be a heap block; result = the (possibly moved) block */
spif_charptr_t spiftool_condense_whitespace(spif_charptr_t s)
__CPROVER_requires(VCSTR_IN_BUF_AT(s, vg_n1, vg_n2, vg_j))
# ifdef U_NONEMPTY
__CPROVER_requires(vg_n1 >= 1 && s[0] != 0)
# else
__CPROVER_requires(vg_n1 == 0)
# endif
__CPROVER_assigns(__CPROVER_object_upto(s, vg_n1 + 1), vg_len_ret, vg_exit)
__CPROVER_frees(s)
/* never longer; result block holds the text and its terminator */
__CPROVER_ensures(vg_len_ret <= vg_n1)
__CPROVER_ensures(__CPROVER_return_value != NULL && __CPROVER_rw_ok(__CPROVER_return_value, vg_len_ret + 1))
__CPROVER_ensures(vg_k != vg_len_ret || __CPROVER_return_value[vg_k] == 0)
;
void harness(void)
{
    spif_charptr_t s;
    w_n = vg_n1; w_cap = vg_n2;
    spiftool_condense_whitespace(s);
    VERIF_CANARY();
}
#endif
