/* C13: spiftool_substr(str, idx, cnt) returns exactly the requested in-range slice or refuses (NULL),
 * for ALL int32 idx / cnt pairs and every string (length symbolic up to VCAP).
 *
 * Reading of "the requested slice" (header comment of the str/ustr substr methods + test.c):
 *   L = strlen(str);  S = idx >= 0 ? idx : L + idx   (negative idx counts from the end)
 *   in range  <=>  0 <= S < L
 *   C = cnt > 0 ? min(cnt, L - S) : (L - S) + cnt    (cnt <= 0: "all but the last -cnt characters")
 *   C < 0 (more characters dropped than there are): no such slice -> refuse (NULL) or the empty slice.
 * memcpy: env_strhelp.h's ghost-index over-approximation (cbmc's array model does not terminate).
 * Behaviours: substr (idx >= 0, cnt > 0) / substr_wrap (idx < 0 or cnt <= 0; C >= 0 or S out of range) /
 * substr_negcount (C < 0).
 */
/*@unit
name: substr
define: U_MAIN, U_POS
src: strings.c
enforce: spiftool_substr
backend: sat
native: strhelp
native_includes: strings.c
*/
/* idx < 0 or cnt <= 0: the code computes len + idx and len - start + cnt in spif_uint32_t on purpose
 * (modular arithmetic, defined behaviour, the range test "start_pos < len" follows); cbmc's
 * --conversion-check flags the implicit int -> unsigned conversions of idx / cnt, so it is off here. */
/*@unit
name: substr_wrap
define: U_MAIN, U_WRAP
src: strings.c
enforce: spiftool_substr
backend: sat
checks_off: --conversion-check
native: strhelp
native_includes: strings.c
*/
/* carrier of a known finding: the failing run must build a counterexample, which runs out of memory
 * with a string of symbolic size up to VCAP, hence the small cap (tier B, no loop involved) */
/*@unit
name: substr_negcount
define: U_NEG
src: strings.c
enforce: spiftool_substr
backend: sat
tier: B
bound: string length <= 32 (loop-free; cap only keeps the counterexample small)
checks_off: --conversion-check
native: strhelp
native_includes: strings.c
*/
#define VERIF_OWN_STRLEN
#define VERIF_STRHELP_MEMCPY_AT_K
#include "vprelude.h"
#include "env_strhelp.h"
#include "strings.h"
#include "src/strings.c"

long w_idx, w_cnt; unsigned long w_len;

#define SL   ((long) vg_n1)
#define SS   ((long) idx >= 0 ? (long) idx : SL + (long) idx)
#define SIN  (SS >= 0 && SS < SL)
#define SC   ((long) cnt > 0 ? ((long) cnt < SL - SS ? (long) cnt : SL - SS) : SL - SS + (long) cnt)

spif_charptr_t spiftool_substr(spif_charptr_t str, spif_int32_t idx, spif_int32_t cnt)
__CPROVER_requires(VCSTR_EXACT_AT(str, vg_n1, vg_j2))
#ifdef U_MAIN
__CPROVER_requires(!SIN || SC >= 0)
# ifdef U_POS
__CPROVER_requires(idx >= 0 && cnt > 0)
# else
__CPROVER_requires(idx < 0 || cnt <= 0)
# endif
#else
__CPROVER_requires(SIN && SC < 0 && vg_n1 <= 32)
#endif
__CPROVER_assigns(vg_len_ret)
#ifdef U_MAIN
/* refusal exactly when the start is out of range */
__CPROVER_ensures(!VLEN_GUARD(vg_n1) || ((__CPROVER_return_value == NULL) == !SIN))
/* the slice: fresh block of C+1 bytes, terminated, bytes = str[S .. S+C) */
__CPROVER_ensures(!VLEN_GUARD(vg_n1) || !SIN || __CPROVER_is_fresh(__CPROVER_return_value, (size_t) SC + 1))
__CPROVER_ensures(!VLEN_GUARD(vg_n1) || !SIN || __CPROVER_return_value[SC] == 0)
__CPROVER_ensures(!VLEN_GUARD(vg_n1) || !SIN || !((long) vg_k < SC) || __CPROVER_return_value[vg_k] == str[SS + (long) vg_k])
#else
__CPROVER_ensures(!VLEN_GUARD(vg_n1) || __CPROVER_return_value == NULL || __CPROVER_return_value[0] == 0)
#endif
;

void harness(void)
{
    spif_charptr_t str; spif_int32_t idx = nondet_int(), cnt = nondet_int();
    w_idx = idx; w_cnt = cnt; w_len = vg_n1;
    __CPROVER_assume(vg_k <= VCAP);   /* ghost index: keeps (long) vg_k exact */
    spiftool_substr(str, idx, cnt);
    VERIF_CANARY();
}
