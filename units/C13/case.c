/* C13: spiftool_downcase_str / spiftool_upcase_str / spiftool_safe_str: per-character result (ghost index
 * vg_k), nothing after the terminator (resp. after len bytes) touched, length unchanged; a byte before the
 * start is outside the object (any access fails a pointer check).  The string sits at the start of a
 * larger object (cap bytes) so that "after the terminator" exists.
 * Reference ("C" locale, written from the C standard): only 'A'..'Z' / 'a'..'z' change case; control
 * characters are 0..31 and 127; bytes with the high bit set (negative as plain char) are neither. */
/*@unit
name: downcase_str
define: U_DOWN
src: strings.c
enforce: spiftool_downcase_str
backend: sat
loops: 1
native: strhelp
native_includes: strings.c
*/
/*@unit
name: upcase_str
define: U_UP
src: strings.c
enforce: spiftool_upcase_str
backend: sat
loops: 1
native: strhelp
native_includes: strings.c
*/
/*@unit
name: safe_str
define: U_SAFE
src: strings.c
enforce: spiftool_safe_str
backend: sat
loops: 1
native: strhelp
native_includes: strings.c
*/
#include "vprelude.h"
#include "strings.h"
#include "src/strings.c"

unsigned long w_n, w_cap;

#if defined(U_DOWN) || defined(U_UP)
# ifdef U_DOWN
#  define FN spiftool_downcase_str
#  define REF(c) V_TOLOWER(c)
# else
#  define FN spiftool_upcase_str
#  define REF(c) V_TOUPPER(c)
# endif
/* vg_n1 = exact length, vg_n2 = size of the object */
spif_charptr_t FN(spif_charptr_t str)
__CPROVER_requires(VCSTR_IN_BUF_AT(str, vg_n1, vg_n2, vg_j))
__CPROVER_requires(!(vg_k < vg_n1) || str[vg_k] != 0)        /* exactness, second instantiation point */
__CPROVER_assigns(__CPROVER_object_whole(str), vg_exit)
__CPROVER_ensures(__CPROVER_return_value == str)
/* the loop stopped at the true end (vg_j is arbitrary: see VCSTR_EXACT_AT in strings.h) */
__CPROVER_ensures(vg_exit != vg_j || vg_exit == vg_n1)
/* per character, for every index below the length */
__CPROVER_ensures(vg_exit != vg_j || !(vg_k < vg_n1) || str[vg_k] == REF(__CPROVER_old(str[vg_k])))
/* terminator and everything behind it untouched */
__CPROVER_ensures(!(vg_k >= vg_n1) || str[vg_k] == __CPROVER_old(str[vg_k]))
/* length unchanged: still terminated at n (clause above with vg_k = n) and no NUL appears before n */
__CPROVER_ensures(vg_exit != vg_j || !(vg_k < vg_n1) || str[vg_k] != 0)
;
void harness(void)
{
    spif_charptr_t str;
    __CPROVER_assume(vg_k < vg_n2);   /* ghost index inside the object (shapes an input) */
    w_n = vg_n1; w_cap = vg_n2;
    FN(str);
    VERIF_CANARY();
}
#endif

#ifdef U_SAFE
spif_charptr_t spiftool_safe_str(register spif_charptr_t str, unsigned short len)
__CPROVER_requires(vg_n2 <= VCAP && len < vg_n2 && __CPROVER_is_fresh(str, vg_n2))
__CPROVER_assigns(__CPROVER_object_whole(str))
__CPROVER_ensures(__CPROVER_return_value == str)
__CPROVER_ensures(!(vg_k < len) || str[vg_k] == (V_ISCNTRL(__CPROVER_old(str[vg_k])) ? '.' : __CPROVER_old(str[vg_k])))
/* nothing at or behind len touched (a terminator at str[len] stays) */
__CPROVER_ensures(!(vg_k >= len) || str[vg_k] == __CPROVER_old(str[vg_k]))
/* no NUL inside the first len bytes afterwards: with len == strlen(str) the length is unchanged */
__CPROVER_ensures(!(vg_k < len) || str[vg_k] != 0)
;
void harness(void)
{
    spif_charptr_t str; unsigned short len;
    __CPROVER_assume(vg_k < vg_n2);
    w_n = len; w_cap = vg_n2;
    spiftool_safe_str(str, len);
    VERIF_CANARY();
}
#endif
