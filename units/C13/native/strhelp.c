/* Native replay of the C13 contract units (owner strhelp).  The verifier's witness gives the SCALARS of the
 * failing pre-state (sizes, lengths, idx/cnt: the harnesses record them in w_* globals); string CONTENTS are
 * not in the witness (they live in objects the contract allocates), so they are rebuilt from fixed patterns
 * chosen to exercise the function (blanks at both ends and doubled inside, mixed case, control bytes).
 * Every buffer is an exact-size heap block: ASan judges "no byte before the start / behind the block"; the
 * postconditions of the unit are re-evaluated here in plain C.  Exit 3 = an obligation is false on the real
 * code, sanitizer report = memory-safety obligation false, 0 = not reproduced.
 * strings.c is #included (unit field native_includes: strings.c), the other repo sources are linked. */
#include <libast_internal.h>
#include "vnative.h"
#include "strings.c"

#define FAILS(msg) do { fprintf(stderr, "NATIVE-REPLAY: obligation fails on the real code: %s\n", msg); exit(3); } while (0)
#define OUTSIDE()  do { fprintf(stderr, "NATIVE-REPLAY: witness outside the precondition / too large to rebuild\n"); exit(0); } while (0)
#define NMAX (1UL << 30)
#define PAT ((char) 0x5a)

static char *mk_text(size_t n, size_t cap, int kind)
{
    /* n characters + NUL at the start of a block of cap bytes, slack filled with PAT */
    char *s = malloc(cap); size_t i;
    for (i = 0; i < cap; i++) s[i] = PAT;
    for (i = 0; i < n; i++) {
        switch (kind) {
            case 0: s[i] = (char) ('a' + i % 26); break;                                  /* position-dependent letters */
            case 1: s[i] = (i % 3 == 0) ? 'Q' : ((i % 3 == 1) ? 'q' : (char) 0xc4); break; /* mixed case + high-bit byte */
            case 2: s[i] = (i == 0 || i + 1 == n || i % 4 == 2 || i % 4 == 3) ? ((i & 1) ? '\t' : ' ') : 'x'; break; /* blanks */
            default: s[i] = (i % 2) ? (char) (1 + i % 31) : ((i % 4) ? 'k' : (char) 127); break;   /* control bytes */
        }
    }
    s[n] = 0;
    return s;
}

int main(void)
{
#if defined(U_STRNCPY)
    long size = (long) vn_get("w_size", 1); size_t n1 = (size_t) vn_get("w_n1", 0), L, i;
    char *dest, *src; spif_bool_t r;
    if (size <= 0 || (unsigned long) size > NMAX || n1 > NMAX) OUTSIDE();
    dest = malloc(size); memset(dest, PAT, size); src = mk_text(n1, n1 + 1, 0);
    r = spiftool_safe_strncpy((spif_charptr_t) dest, (spif_charptr_t) src, (spif_int32_t) size);
    L = n1 < (size_t) size - 1 ? n1 : (size_t) size - 1;
    if (dest[L] != 0) FAILS("dest[min(strlen(src), size-1)] == 0");
    for (i = 0; i < L; i++) if (dest[i] != src[i]) FAILS("dest[k] == src[k] for k < min(strlen(src), size-1)");
    if ((r == TRUE) != (n1 <= (size_t) size - 1)) FAILS("TRUE iff nothing was cut");
#elif defined(U_TERM) || defined(U_UNTERM)
    long size = (long) vn_get("w_size", 1); size_t n1 = (size_t) vn_get("w_n1", 0), n2 = (size_t) vn_get("w_n2", 0), room, A, i;
    char *dest, *src; spif_bool_t r;
    if (size <= 0 || (unsigned long) size > NMAX || n1 > NMAX) OUTSIDE();
    dest = malloc(size); memset(dest, PAT, size); src = mk_text(n1, n1 + 1, 0);
# ifdef U_TERM
    if (n2 >= (size_t) size) OUTSIDE();
    for (i = 0; i < n2; i++) dest[i] = (char) ('A' + i % 26);
    dest[n2] = 0;
    r = spiftool_safe_strncat((spif_charptr_t) dest, (spif_charptr_t) src, (spif_int32_t) size);
    room = (size_t) size - 1 - n2; A = n1 < room ? n1 : room;
    if (dest[n2 + A] != 0) FAILS("dest terminated at L + A");
    for (i = 0; i < n2; i++) if (dest[i] != (char) ('A' + i % 26)) FAILS("old text kept");
    for (i = 0; i < A; i++) if (dest[n2 + i] != src[i]) FAILS("appended text is the prefix of src");
    if ((r == TRUE) != (n1 <= room)) FAILS("TRUE iff nothing was cut");
# else
    r = spiftool_safe_strncat((spif_charptr_t) dest, (spif_charptr_t) src, (spif_int32_t) size);
    if (r != FALSE) FAILS("FALSE when dest holds no NUL within size");
    if (dest[size - 1] != 0) FAILS("dest[size - 1] == 0");
# endif
#elif defined(U_MAIN) || defined(U_NEG)
    long idx = (long) vn_get("w_idx", 0), cnt = (long) vn_get("w_cnt", 0), L = (long) vn_get("w_len", 0), S, C = 0, i;
    int in; char *str, *r;
    if (L < 0 || (unsigned long) L > NMAX || idx < INT_MIN || idx > INT_MAX || cnt < INT_MIN || cnt > INT_MAX) OUTSIDE();
    str = mk_text((size_t) L, (size_t) L + 1, 0);
    S = idx >= 0 ? idx : L + idx; in = (S >= 0 && S < L);
    if (in) C = cnt > 0 ? (cnt < L - S ? cnt : L - S) : L - S + cnt;
    r = (char *) spiftool_substr((spif_charptr_t) str, (spif_int32_t) idx, (spif_int32_t) cnt);
    if (!in) { if (r != NULL) FAILS("NULL when the start is out of range"); }
    else if (C < 0) { if (r != NULL && r[0] != 0) FAILS("NULL or the empty slice when more is dropped than there is"); }
    else {
        if (r == NULL) FAILS("a slice when the start is in range");
        for (i = 0; i < C; i++) if (r[i] != str[S + i]) FAILS("result[k] == str[S + k]");   /* ASan: block shorter than C+1 */
        if (r[C] != 0) FAILS("result[C] == 0");
    }
#elif defined(U_DOWN) || defined(U_UP) || defined(U_SAFE) || defined(U_STRREV) || defined(U_CHOMP) || defined(U_CONDENSE)
    size_t n = (size_t) vn_get("w_n", 0), cap = (size_t) vn_get("w_cap", 1), i, slack;
    char *s, *o, *r;
# ifdef U_HUGE
    if (n > (1UL << 32)) OUTSIDE();
# else
    if (n > NMAX) OUTSIDE();
# endif
    if (cap <= n) OUTSIDE();
    slack = cap - n - 1 > 8 ? 8 : cap - n - 1;                 /* keep a few slack bytes, not a gigabyte */
# if defined(U_CONDENSE)
    slack = 0;                                                  /* handed to realloc */
#  ifdef U_EMPTY
    if (n != 0) OUTSIDE();
#  else
    if (n == 0) OUTSIDE();
#  endif
# endif
# if defined(U_DOWN) || defined(U_UP)
    s = mk_text(n, n + 1 + slack, 1);
# elif defined(U_SAFE)
    if (n > 65535) OUTSIDE();
    s = mk_text(n, n + 1 + slack, 3);
# elif defined(U_STRREV)
    s = mk_text(n, n + 1 + slack, 0);
# else
    s = mk_text(n, n + 1 + slack, 2);
# endif
    o = malloc(n + 1); memcpy(o, s, n + 1);
# if defined(U_DOWN)
    r = (char *) spiftool_downcase_str((spif_charptr_t) s);
    for (i = 0; i < n; i++) if (s[i] != ((o[i] >= 'A' && o[i] <= 'Z') ? o[i] + 32 : o[i])) FAILS("per-character lower case");
# elif defined(U_UP)
    r = (char *) spiftool_upcase_str((spif_charptr_t) s);
    for (i = 0; i < n; i++) if (s[i] != ((o[i] >= 'a' && o[i] <= 'z') ? o[i] - 32 : o[i])) FAILS("per-character upper case");
# elif defined(U_SAFE)
    r = (char *) spiftool_safe_str((spif_charptr_t) s, (unsigned short) n);
    for (i = 0; i < n; i++) if (s[i] != (((o[i] >= 0 && o[i] < 32) || o[i] == 127) ? '.' : o[i])) FAILS("control bytes become '.', others stay");
# elif defined(U_STRREV)
    r = strrev(s);
    for (i = 0; i < n; i++) if (s[i] != o[n - 1 - i]) FAILS("result[k] == old[n-1-k]");
# elif defined(U_CHOMP)
    r = (char *) spiftool_chomp((spif_charptr_t) s);
    {
        size_t a = 0, b = n;
        while (a < n && isspace((unsigned char) o[a])) a++;
        while (b > a && isspace((unsigned char) o[b - 1])) b--;
        if (strlen(s) != b - a || memcmp(s, o + a, b - a)) FAILS("chomp = text without leading and trailing whitespace");
    }
# else
    r = (char *) spiftool_condense_whitespace((spif_charptr_t) s);
    if (r == NULL) FAILS("result block");
    if (strlen(r) > n) FAILS("never longer");                   /* ASan: no terminator inside the block */
    s = r;
# endif
# if !defined(U_CONDENSE)
    if (r != s) FAILS("returns its argument");
    for (i = n + 1; i < n + 1 + slack; i++) if (s[i] != PAT) FAILS("bytes behind the terminator untouched");
#  if !defined(U_CHOMP)
    if (s[n] != 0) FAILS("terminator untouched");
#  endif
# endif
#else
# error "units/C13/native/strhelp.c: no unit define"
#endif
    return 0;
}
