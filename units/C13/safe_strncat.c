/* C13: spiftool_safe_strncat(dest, src, size): writes at most size bytes, leaves dest NUL-terminated,
 * keeps the text already in dest, appends the longest prefix of src that fits, TRUE iff nothing cut.
 * safe_strncpy is NOT replaced by its contract: it is inlined with its loop contract.
 *
 * Two behaviours (disjoint preconditions, union = every prior destination content):
 *   safe_strncat         dest holds a NUL within its first size bytes (its length is vg_n2 < size)
 *   safe_strncat_unterm  dest holds no NUL within size bytes: the property still wants a terminator.
 */
/*@unit
name: safe_strncat.term
define: U_TERM, U_PART_TERM
src: strings.c
enforce: spiftool_safe_strncat
backend: sat
loops: 1
funcs: spiftool_safe_strncpy
native: strhelp
native_includes: strings.c
*/
/*@unit
name: safe_strncat.text
define: U_TERM, U_PART_TEXT
src: strings.c
enforce: spiftool_safe_strncat
backend: sat
loops: 1
funcs: spiftool_safe_strncpy
native: strhelp
native_includes: strings.c
*/
/*@unit
name: safe_strncat_unterm
define: U_UNTERM
src: strings.c
enforce: spiftool_safe_strncat
backend: sat
loops: 1
funcs: spiftool_safe_strncpy
native: strhelp
native_includes: strings.c
*/
#define VERIF_OWN_STRLEN
#ifdef U_TERM
# define VERIF_STRLEN_N vg_n2       /* declared exact length of the text in dest */
#else
# define VERIF_STRLEN_N 0xffffffffffffffffUL /* no NUL inside dest[0..size): "length" beyond every maxlen */
#endif
#define VERIF_STRHELP_NOCALL_MSGS      /* see env_strhelp.h: goto-instrument crash work-around */
#include "vprelude.h"
#include "env_strhelp.h"
#include "strings.h"
#include "src/strings.c"

long w_size; unsigned long w_n1, w_n2;

#ifdef U_TERM
/* L = vg_n2 = exact length of the text in dest (ghost-instantiated at vg_j2), n = vg_n1 = exact length
 * of src (instantiated at vg_j); room = size - 1 - L; A = min(n, room) characters are appended. */
#define ROOM ((size_t) size - 1 - vg_n2)
#define NAPP VMIN(vg_n1, ROOM)
spif_bool_t spiftool_safe_strncat(spif_charptr_t dest, const spif_charptr_t src, spif_int32_t size)
__CPROVER_requires(size > 0 && __CPROVER_is_fresh(dest, (size_t) size))
__CPROVER_requires(vg_n2 < (size_t) size && dest[vg_n2] == 0 && (!(vg_j2 < vg_n2) || dest[vg_j2] != 0))
__CPROVER_requires(VCSTR_EXACT_AT(src, vg_n1, vg_j))
__CPROVER_assigns(__CPROVER_object_whole(dest), vg_exit, vg_len_ret)
/* the strnlen model returned the true length (see env_strhelp.h, VERIF_STRLEN_N) */
__CPROVER_ensures(vg_len_ret == vg_n2)
#ifdef U_PART_TERM
/* terminated at L + A */
__CPROVER_ensures(vg_exit != vg_j || dest[vg_n2 + NAPP] == 0)
/* TRUE iff nothing cut */
__CPROVER_ensures(vg_exit != vg_j || (__CPROVER_return_value == TRUE) == (vg_n1 <= ROOM))
#endif
#ifdef U_PART_TEXT
/* old text kept (vg_k2 < L), appended text = prefix of src (vg_k < A) */
__CPROVER_ensures(!(vg_k2 < vg_n2) || dest[vg_k2] == __CPROVER_old(dest[vg_k2]))
__CPROVER_ensures(vg_exit != vg_j || !(vg_k < NAPP) || dest[vg_n2 + vg_k] == src[vg_k])
#endif
__CPROVER_ensures(__CPROVER_return_value == TRUE || __CPROVER_return_value == FALSE)
;
void harness(void)
{
    spif_charptr_t dest, src; spif_int32_t size;
    /* shapes inputs only: __CPROVER_old(dest[vg_k2]) must be a valid read for every ghost value */
    __CPROVER_assume(size > 0 && vg_k2 < (size_t) size);
    w_size = size; w_n1 = vg_n1; w_n2 = vg_n2;
    spiftool_safe_strncat(dest, src, size);
    VERIF_CANARY();
}
#endif

#ifdef U_UNTERM
/* no NUL in dest[0..size): stated through the ghost position vg_j2 (arbitrary).  The property asks for a
 * NUL-terminated destination "for every prior destination content": some byte of dest[0..size) is NUL
 * afterwards; the witness position is the only place a bounded writer can put it, size - 1, or earlier
 * if the function chooses to: expressed as "dest[size-1] == 0 or the function stored a NUL elsewhere"
 * is not quantifier-free, so the contract states the strongest reasonable form: dest[size - 1] == 0. */
spif_bool_t spiftool_safe_strncat(spif_charptr_t dest, const spif_charptr_t src, spif_int32_t size)
__CPROVER_requires(size > 0 && __CPROVER_is_fresh(dest, (size_t) size))
__CPROVER_requires(!(vg_j2 < (size_t) size) || dest[vg_j2] != 0)
__CPROVER_requires(VCSTR_EXACT_AT(src, vg_n1, vg_j))
__CPROVER_assigns(__CPROVER_object_whole(dest), vg_exit, vg_len_ret)
__CPROVER_ensures(vg_len_ret == (size_t) size)      /* the strnlen model returned the true value */
__CPROVER_ensures(__CPROVER_return_value == FALSE)
__CPROVER_ensures(dest[size - 1] == 0)
;
void harness(void)
{
    spif_charptr_t dest, src; spif_int32_t size;
    w_size = size; w_n1 = vg_n1;
    spiftool_safe_strncat(dest, src, size);
    VERIF_CANARY();
}
#endif
