/* C12 tier P: spif_tok_eval never reads beyond the terminator of its source string or of its
 * separator string, for every source length, every separator set and every quote/escape character;
 * every token handed to the list is no longer than the input that remained when the token began;
 * there are never more tokens than characters; every str / list method is called inside its
 * precondition.
 *
 * Environment of spif_tok_eval in this unit (callees replaced by the contracts below; see split.h):
 *   str class : spif_str_get_len, spif_str_new_from_buff, spif_str_clear, spif_str_append_char,
 *               spif_str_trim  -- abstract state (len, size, s != NULL); C01 owns their bodies.
 *               spif_str_trim is taken as C01 specifies it (total on valid strs; C01 proves it on str.c).
 *   list class: SPIF_LIST_NEW / SPIF_LIST_DEL / SPIF_LIST_APPEND are RE-BOUND (they dispatch through
 *               spif_func_t pointers, GUIDE "function pointers") to the abstract list vlist_new /
 *               vlist_del / vlist_append whose only state is the ghost counter vg_sp_cnt.
 *               SPIF_OBJ_DEL / SPIF_OBJ_SHOW / SPIF_OBJ_DUP are re-bound to bodiless functions so that the
 *               other methods of tok.c (not under contract here) compile without pointer dispatch.
 *   strchr    : env_split.h deterministic loop-free model (uninterpreted position). */

/*@unit
name: tok_eval.ws
define: U_TOKEVAL, U_SEP_NULL
src: tok.c
enforce: spif_tok_eval
replace: spif_str_get_len, spif_str_new_from_buff, spif_str_clear, spif_str_append_char, spif_str_trim, vlist_new, vlist_del, vlist_append
backend: cadical
objbits: 10
loops: 1
timeout: 1200
mem: 16
funcs: spif_str_get_len, spif_str_new_from_buff, spif_str_clear, spif_str_append_char, spif_str_trim
*/
/*@unit
name: tok_eval.sep
define: U_TOKEVAL, U_SEP_SET
src: tok.c
enforce: spif_tok_eval
replace: spif_str_get_len, spif_str_new_from_buff, spif_str_clear, spif_str_append_char, spif_str_trim, vlist_new, vlist_del, vlist_append
backend: cadical
objbits: 10
loops: 1
timeout: 1200
mem: 16
funcs: spif_str_get_len, spif_str_new_from_buff, spif_str_clear, spif_str_append_char, spif_str_trim
*/
#define VERIF_OWN_STRCHR
#define VERIF_SPLIT_STRCHR_UF
#include "vprelude.h"
#include "env_split.h"
#include "strings.h"
#include "split.h"

/* ---- abstract list ---- */
spif_list_t vlist_new(void)
__CPROVER_assigns(vg_sp_cnt)
__CPROVER_ensures(__CPROVER_is_fresh(__CPROVER_return_value, sizeof(struct spif_obj_t_struct)) && vg_sp_cnt == 0)
;
spif_bool_t vlist_del(spif_list_t l)
__CPROVER_requires(l != NULL)
__CPROVER_assigns()
;
/* a token handed to the list is a valid str no longer than the input that remained when it began */
spif_bool_t vlist_append(spif_list_t l, spif_str_t item)
__CPROVER_requires(l != NULL && item != NULL)
__CPROVER_requires((item->s == NULL && item->len == 0) || STRV(item))
__CPROVER_requires((size_t) item->len <= vg_n1 - vg_n3)
__CPROVER_assigns(vg_sp_cnt)
__CPROVER_ensures(vg_sp_cnt == __CPROVER_old(vg_sp_cnt) + 1)
;
spif_obj_t vobj_opaque1(spif_obj_t o);
spif_str_t vobj_opaque_show(spif_obj_t o, spif_str_t b, size_t i);

#undef SPIF_LIST_NEW
#undef SPIF_LIST_DEL
#undef SPIF_LIST_APPEND
#undef SPIF_OBJ_DEL
#undef SPIF_OBJ_SHOW
#undef SPIF_OBJ_DUP
#define SPIF_LIST_NEW(type)        vlist_new()
#define SPIF_LIST_DEL(o)           vlist_del(SPIF_LIST(o))
#define SPIF_LIST_APPEND(o, item)  vlist_append(SPIF_LIST(o), SPIF_STR(item))
#define SPIF_OBJ_DEL(o)            ((spif_bool_t) (vobj_opaque1(SPIF_OBJ(o)) != NULL))
#define SPIF_OBJ_SHOW(o, b, i)     vobj_opaque_show(SPIF_OBJ(o), (b), (i))
#define SPIF_OBJ_DUP(o)            vobj_opaque1(SPIF_OBJ(o))

/* ---- str class, as seen by spif_tok_eval ---- */
spif_stridx_t spif_str_get_len(spif_str_t self)
__CPROVER_requires(self != NULL && __CPROVER_r_ok(self, VSTR_SZ))
__CPROVER_assigns()
__CPROVER_ensures(__CPROVER_return_value == self->len)
;
spif_str_t spif_str_new_from_buff(spif_charptr_t buff, spif_stridx_t size)
__CPROVER_requires(buff != NULL && __CPROVER_r_ok(buff, 1) && size >= 0)
__CPROVER_assigns()
__CPROVER_ensures(__CPROVER_is_fresh(__CPROVER_return_value, VSTR_SZ) && STRV(__CPROVER_return_value))
__CPROVER_ensures(buff[0] != 0 || __CPROVER_return_value->len == 0)
;
spif_bool_t spif_str_clear(spif_str_t self, spif_char_t c)
__CPROVER_requires(self != NULL && STRV(self))
__CPROVER_assigns()
__CPROVER_ensures(__CPROVER_return_value == TRUE)
;
spif_bool_t spif_str_append_char(spif_str_t self, spif_char_t c)
__CPROVER_requires(self != NULL && STRV(self) && self->len < VCAP)
__CPROVER_assigns(self->len, self->size, self->s)
__CPROVER_ensures(STRV(self) && self->len == __CPROVER_old(self->len) + 1)
;
/* total on every valid str, as C01 specifies trim (result: a valid str that is not longer, or the
 * (NULL,0,0) state); where the real str.c runs with tok is the B unit tok.grammar */
spif_bool_t spif_str_trim(spif_str_t self)
__CPROVER_requires(self != NULL && STRV(self))
__CPROVER_assigns(self->len, self->size, self->s)
__CPROVER_ensures((self->s == NULL && self->len == 0 && self->size == 0) || STRV(self))
__CPROVER_ensures(self->len <= __CPROVER_old(self->len))
;

#include "src/tok.c"

#define TOK_SRC_OK(t) (__CPROVER_is_fresh((t)->src, VSTR_SZ) && VCSTR_FRESH((t)->src->s, vg_n1) && \
                       (t)->src->len == (spif_stridx_t) vg_n1 && (t)->src->size == (spif_stridx_t) vg_n1 + 1)
/* two behaviours (their union is every tok object): no separator string (whitespace) / a separator string */
#ifdef U_SEP_NULL
# define TOK_SEP_OK(t) ((t)->sep == NULL)
#else
# define TOK_SEP_OK(t) (__CPROVER_is_fresh((t)->sep, VSTR_SZ) && VCSTR_FRESH((t)->sep->s, vg_n2))
#endif

spif_bool_t spif_tok_eval(spif_tok_t self)
__CPROVER_requires(__CPROVER_is_fresh(self, sizeof(struct spif_tok_t_struct)))
__CPROVER_requires(TOK_SRC_OK(self))
__CPROVER_requires(TOK_SEP_OK(self))
__CPROVER_assigns(self->tokens, vg_sp_cnt, vg_n3, vg_sp_q, vg_exit)
__CPROVER_ensures(__CPROVER_return_value == TRUE && self->tokens != NULL)
__CPROVER_ensures(vg_sp_cnt <= vg_n1)
;

void harness(void)
{
    spif_tok_t t;
    spif_tok_eval(t);
    VERIF_CANARY();
}
