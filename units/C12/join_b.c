/* C12 tier B: joining plain tokens with a delimiter and splitting again returns the same tokens; join writes
 * exactly strlen(result)+1 bytes into its own allocation and reads its inputs only up to their terminators.
 *
 * Bound: 1..3 tokens, each of 1..2 characters over {a, b} ("plain": no delimiter, quote or backslash);
 * separators ":" (split with ":"), " " (split with NULL = whitespace), " :" (split with " :"), chosen
 * nondeterministically; plus join with sep == NULL / "" (result = concatenation).
 * P was not attempted for spiftool_join: its two loops call strlen/strcat on every element of a
 * NULL-terminated pointer array (needs "every element is a valid string", a quantified precondition) and the
 * buffer-size argument is a sum over all elements that env.h's nondeterministic strlen cannot carry from the
 * first loop to the second; within the bound below the real loop strlen/strcpy/strcat are executed instead.
 * Every token and the separator end at the last byte of their objects.  strings.c is the unannotated
 * rawsrc/strings.c of the tree under check.  Native replay (`native: self`): inputs W_cnt, W_sep, W_l0..W_l2,
 * W_t00..W_t21 (token lengths and characters), W_gk2. */

/*@unit
name: join.roundtrip
define: U_ROUNDTRIP
src: strings.c
tier: B
bound: 1..3 tokens of 1..2 characters over {a,b}; separators ":", " ", " :" (split with ":", NULL, " :"); loops unwound 12
unwind: 12
backend: cadical
native: self
timeout: 900
mem: 16
funcs: spiftool_join, spiftool_split
*/
/*@unit
name: join.concat
define: U_CONCAT
src: strings.c
tier: B
bound: 1..3 tokens of 0..2 characters over {a,b}; separator NULL or ""; loops unwound 12
unwind: 12
backend: cadical
native: self
timeout: 900
mem: 16
funcs: spiftool_join
*/
#define VERIF_OWN_STRLEN
#define VERIF_OWN_STRCHR
#define VERIF_SPLIT_PRECISE
#include "vprelude.h"
#include "env_split.h"
#include "split.h"
#define VERIF_MAXLEN 7
#include "ref.h"
#include "rawsrc/strings.c"

#define NTOK 3
#define TLEN 2
static char v_s1[2] = ":";
static char v_s2[2] = " ";
static char v_s3[3] = " :";
static char v_s0[1] = "";
unsigned w_cnt, w_sep, w_tl[NTOK];
char w_tok[NTOK][TLEN + 1];

/* a token of length lo..TLEN over {a,b}; cbmc: its terminator is the last byte of its object; native: exact malloc block */
static char *mk_token(unsigned lo, unsigned slot, unsigned len, int b0, int b1)
{
    unsigned j;
    char *t;
    __CPROVER_assume(len >= lo && len <= TLEN);
#ifdef VERIF_NATIVE
    t = (char *) malloc(len + 1);
#else
    t = (char *) __CPROVER_allocate(TLEN + 1, 0) + (TLEN - len);
#endif
    for (j = 0; j < len; j++) {
        t[j] = ((j == 0) ? b0 : b1) ? 'a' : 'b';
        w_tok[slot][j] = t[j];
    }
    t[len] = 0;
    w_tok[slot][len] = 0;
    w_tl[slot] = len;
    return t;
}

void harness(void)
{
    spif_charptr_t list[NTOK + 1];
    unsigned cnt = (unsigned) VND(uint, cnt), i, k;
    char *sep, *delim;
    spif_charptr_t joined;
    unsigned tl[NTOK];
    int tb[NTOK][TLEN];

    vg_k = 0;
    vg_k2 = (size_t) VND(size_t, gk2);
    __CPROVER_assume(cnt >= 1 && cnt <= NTOK);
    w_cnt = cnt;
    tl[0] = (unsigned) VND(uint, l0); tl[1] = (unsigned) VND(uint, l1); tl[2] = (unsigned) VND(uint, l2);
    tb[0][0] = (int) VND(bool, t00); tb[0][1] = (int) VND(bool, t01);
    tb[1][0] = (int) VND(bool, t10); tb[1][1] = (int) VND(bool, t11);
    tb[2][0] = (int) VND(bool, t20); tb[2][1] = (int) VND(bool, t21);
    for (i = 0; i < NTOK; i++) {
#ifdef U_ROUNDTRIP
        list[i] = (i < cnt) ? (spif_charptr_t) mk_token(1, i, tl[i], tb[i][0], tb[i][1]) : (spif_charptr_t) NULL;
#else
        list[i] = (i < cnt) ? (spif_charptr_t) mk_token(0, i, tl[i], tb[i][0], tb[i][1]) : (spif_charptr_t) NULL;
#endif
    }
    list[NTOK] = NULL;

    k = (unsigned) VND(uint, sep);
#ifdef U_ROUNDTRIP
    __CPROVER_assume(k < 3);
    sep = (k == 0) ? v_s1 : ((k == 1) ? v_s2 : v_s3);
    delim = (k == 0) ? v_s1 : ((k == 1) ? (char *) NULL : v_s3);
#else
    __CPROVER_assume(k < 2);
    sep = (k == 0) ? (char *) NULL : v_s0;
#endif
    w_sep = k;

    joined = spiftool_join((spif_charptr_t) sep, list);
    __CPROVER_assert(joined != NULL, "join: a string is returned for a non-empty list");
    if (joined == NULL) return;
    vs_check_block(joined);

#ifdef U_ROUNDTRIP
    {
        spif_charptr_t *l = spiftool_split((spif_charptr_t) delim, joined);
        __CPROVER_assert(l != NULL, "split(join(tokens)): a list is returned");
        if (l == NULL) return;
        for (i = 0; i < cnt; i++) {
            __CPROVER_assert(l[i] != NULL, "split(join(tokens)): as many tokens as were joined");
            if (l[i] == NULL) return;
            __CPROVER_assert(vr_streq((char *) l[i], (char *) list[i]), "split(join(tokens)): token i equals the joined token i");
        }
        __CPROVER_assert(l[cnt] == NULL, "split(join(tokens)): no additional token");
    }
#else
    {
        /* concatenation: character by character */
        unsigned pos = 0, j;
        for (i = 0; i < cnt; i++) {
            for (j = 0; j < w_tl[i]; j++) {
                __CPROVER_assert(joined[pos] == w_tok[i][j], "join without separator: result is the concatenation of the tokens");
                pos++;
            }
        }
        __CPROVER_assert(joined[pos] == 0, "join without separator: result ends after the last token");
    }
#endif
    VERIF_CANARY();
}
