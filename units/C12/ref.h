/* units/C12/ref.h — bounded-input builder and the EXECUTABLE REFERENCE GRAMMARS of property C12.
 *
 * Everything here is written from the property statement (properties.jsonl, C12), not from the code:
 *
 *  token grammar   "tokens are separated by runs of delimiters (whitespace by default), single and
 *                   double quotes group and are removed, a backslash makes a following delimiter or the
 *                   closing quote literal, an empty quoted string is an empty token"
 *  word grammar    "whitespace-separated, a word that opens with a quote runs to the matching quote"
 *  pword grammar   "the i-th whitespace-separated word"
 *
 * Readings fixed here where the statement is silent (each is the conventional shell-like reading):
 *   - inside a quoted section the OTHER quote character is an ordinary character;
 *   - a backslash that is followed by neither a delimiter nor (inside quotes) the closing quote is an
 *     ordinary character, also when it is the last character of the input;
 *   - an unterminated quote groups up to the end of the input;
 *   - with an explicit delimiter set only the characters of the set separate tokens;
 *   - word grammar: the text of a quoted word is what stands between the quotes; when no matching quote
 *     follows, the word runs to the end of the input; an unquoted word ends at the next whitespace; the next
 *     word may start right behind a closing quote; in any word a backslash in front of a quote character
 *     makes that character an ordinary one and is dropped (the same convention as "a backslash makes the
 *     closing quote literal" of the token grammar; without it a quoted word could not contain its quote).
 *
 * Inputs: every string of length <= VERIF_MAXLEN (default 7) over {a, b, space, ':', ''', '"', '\'}.
 * The terminator of the string is the last byte of its heap block, so that any read past the terminator
 * is an out-of-bounds read for cbmc's pointer checks.
 */
#ifndef VERIF_C12_REF_H
#define VERIF_C12_REF_H

#ifndef VERIF_MAXLEN
# ifndef VERIF_MAXLEN_T
#  define VERIF_MAXLEN_T 7            /* thorough tier: the bound of the property statement */
# endif
# ifndef VERIF_MAXLEN_Q
#  define VERIF_MAXLEN_Q 5            /* quick tier */
# endif
# ifdef VERIF_THOROUGH
#  define VERIF_MAXLEN VERIF_MAXLEN_T
# else
#  define VERIF_MAXLEN VERIF_MAXLEN_Q
# endif
#endif
#if VERIF_MAXLEN > 7
# error "vr_input supports lengths up to 7"
#endif
#define VR_MAXTOK ((VERIF_MAXLEN + 1) / 2 + 1)
#define VR_BUF (VERIF_MAXLEN + 1)

static const char vr_alpha[7] = { 'a', 'b', ' ', ':', '\'', '"', '\\' };

/* witness copies of the input (read back from the trace by the driver) */
char w_in[VR_BUF];
unsigned w_len;

/* Nondeterministic input of length <= VERIF_MAXLEN over the alphabet.  Length and every character are
 * NAMED inputs (VND): cbmc picks them, the native replay (driver field `native: self`) reads the witness
 * values W_len, W_c0..W_c6 and W_gk (the ghost index) from the environment.
 * cbmc: the string is placed at the END of one block of VERIF_MAXLEN+1 bytes, so that its terminator is the
 * last byte of the object: any read past the terminator is out of bounds, for every length, with a single
 * constant-size object (one object per length makes the encoding 7 times larger).  Reads BEFORE the first
 * character would stay inside the block; none of the scanners under test moves backwards, and the bytes
 * before the string are left uninitialised (arbitrary).
 * native: a malloc block of exactly length+1 bytes (ASan red zones on both sides). */
static char *vr_input_build(unsigned *plen, unsigned n, const unsigned char *k, size_t gk, size_t gk2)
{
    unsigned i;
    char *s;
    __CPROVER_assume(n <= VERIF_MAXLEN);
#ifdef VERIF_NATIVE
    s = (char *) malloc(n + 1);
#else
    s = (char *) __CPROVER_allocate(VERIF_MAXLEN + 1, 0) + (VERIF_MAXLEN - n);
#endif
    /* ghost indices are arbitrary in every B harness (plain cbmc zero-initialises globals) */
    vg_k = gk;
    vg_k2 = gk2;
    for (i = 0; i < n; i++) {
        __CPROVER_assume(k[i] < 7);
        s[i] = vr_alpha[k[i]];
        w_in[i] = s[i];
    }
    s[n] = 0;
    w_in[n] = 0;
    w_len = n;
    *plen = n;
    return s;
}
/* VR_INPUT(in, n): declares `char *in; unsigned n;` in the harness.  The named inputs must be taken in the
 * harness function itself (the driver's witness extraction reads vnd_* assignments of function harness). */
#define VR_INPUT(in, n) \
    unsigned n; \
    unsigned vr_len_ = (unsigned) VND(uint, len); \
    unsigned char vr_k_[7] = { (unsigned char) VND(uchar, c0), (unsigned char) VND(uchar, c1), (unsigned char) VND(uchar, c2), \
                               (unsigned char) VND(uchar, c3), (unsigned char) VND(uchar, c4), (unsigned char) VND(uchar, c5), \
                               (unsigned char) VND(uchar, c6) }; \
    size_t vr_gk_ = (size_t) VND(size_t, gk), vr_gk2_ = (size_t) VND(size_t, gk2); \
    char *in = vr_input_build(&n, vr_len_, vr_k_, vr_gk_, vr_gk2_)

static int vr_isspace(char c) { return c == ' ' || (c >= '\t' && c <= '\r'); }

/* delimiter test of the token grammar: delim == NULL means whitespace; NUL is never a delimiter */
static int vr_isdelim(const char *delim, char c)
{
    unsigned k;
    if (c == 0) return 0;
    if (delim == NULL) return vr_isspace(c);
    for (k = 0; delim[k] != 0; k++) {
        if (delim[k] == c) return 1;
    }
    return 0;
}

typedef struct {
    unsigned cnt;                      /* number of tokens */
    unsigned len[VR_MAXTOK];           /* their lengths */
    char t[VR_MAXTOK][VR_BUF];         /* their texts, NUL-terminated */
} vr_toks_t;

/* ---- token grammar ---------------------------------------------------------------------------- */
static void vr_tokenize(const char *delim, const char *s, vr_toks_t *r)
{
    unsigned i = 0, n;
    char q;
    r->cnt = 0;
    while (vr_isdelim(delim, s[i])) i++;
    while (s[i] != 0) {
        n = 0;
        q = 0;
        while (s[i] != 0 && (q != 0 || !vr_isdelim(delim, s[i]))) {
            char c = s[i];
            if (q != 0 && c == q) {                         /* closing quote: removed */
                q = 0; i++;
            } else if (q == 0 && (c == '\'' || c == '"')) { /* opening quote: removed */
                q = c; i++;
            } else if (c == '\\' && s[i + 1] != 0 &&
                       (vr_isdelim(delim, s[i + 1]) || (q != 0 && s[i + 1] == q))) {
                r->t[r->cnt][n++] = s[i + 1];               /* escaped delimiter / closing quote: literal */
                i += 2;
            } else {
                r->t[r->cnt][n++] = c;                      /* ordinary character */
                i++;
            }
        }
        r->t[r->cnt][n] = 0;
        r->len[r->cnt] = n;
        r->cnt++;
        while (vr_isdelim(delim, s[i])) i++;
    }
}

static int vr_streq(const char *a, const char *b)
{
    unsigned i;
    for (i = 0; i < VR_BUF; i++) {
        if (a[i] != b[i]) return 0;
        if (a[i] == 0) return 1;
    }
    return 0;
}

/* text with leading and trailing whitespace removed ("modulo tok's trimming"); out has VR_BUF bytes */
static void vr_trim(const char *a, char *out)
{
    unsigned b = 0, e = 0, i;
    while (a[e] != 0) e++;
    while (b < e && vr_isspace(a[b])) b++;
    while (e > b && vr_isspace(a[e - 1])) e--;
    for (i = 0; b + i < e; i++) out[i] = a[b + i];
    out[i] = 0;
}

/* ---- word grammar ("..." is one word) ------------------------------------------------------------
 * vr_word(s, k, out): text of the k-th word (k >= 1) into out, returns 1; returns 0 when s has fewer
 * than k words.  vr_nwords(s) counts them. */
static unsigned vr_word_scan(const char *s, unsigned want, char *out)
{
    unsigned i = 0, k = 0, n;
    for (;;) {
        char q = 0;
        while (vr_isspace(s[i])) i++;
        if (s[i] == 0) return k;
        k++;
        n = 0;
        if (s[i] == '\'' || s[i] == '"') q = s[i++];        /* the word opens with a quote */
        while (s[i] != 0 && (q != 0 ? s[i] != q : !vr_isspace(s[i]))) {
            /* a backslash before a quote character: that character is an ordinary one, the backslash is dropped */
            if (s[i] == '\\' && (s[i + 1] == '\'' || s[i + 1] == '"')) i++;
            if (k == want) out[n++] = s[i];
            i++;
        }
        if (q != 0 && s[i] == q) i++;                         /* the matching quote */
        if (k == want) { out[n] = 0; return k; }
    }
}
static unsigned vr_nwords(const char *s) { char dummy[VR_BUF]; return vr_word_scan(s, 0, dummy); }
static int vr_word(const char *s, unsigned k, char *out) { return vr_word_scan(s, k, out) == k && k != 0; }

/* ---- pword grammar: offset of the k-th whitespace-separated word (k >= 1), or -1 ------------------ */
static int vr_pword(const char *s, unsigned want)
{
    unsigned i = 0, k = 0;
    for (;;) {
        while (vr_isspace(s[i])) i++;
        if (s[i] == 0) return -1;
        k++;
        if (k == want) return (int) i;
        while (s[i] != 0 && !vr_isspace(s[i])) i++;
    }
}

#endif
