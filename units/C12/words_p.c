/* C12 tier P: the word utilities never read beyond the terminator of str and never write outside
 * their own allocation, for every input length and every word index.
 *
 * "Beyond the terminator" is rendered as "outside the object": str is a C string held in an object
 * of exactly vg_n1+1 bytes (VCSTR_FRESH).  Every C string of length L is the case vg_n1 == L with no
 * inner NUL; the functions' reads up to the first step past the terminator depend only on the bytes
 * up to the terminator, so a read past it is an out-of-bounds read of that object.
 *
 * strlen is env.h's loop-free stub (SOME NUL position); realloc (get_word) is env_split.h's
 * single-ghost-byte over-approximation. */

/*@unit
name: get_pword
define: U_PWORD
src: strings.c
enforce: spiftool_get_pword
backend: kissat,cadical
loops: 1
*/
/*@unit
name: num_words
define: U_NUMWORDS
src: strings.c
enforce: spiftool_num_words
backend: kissat,cadical
loops: 1
*/
/*@unit
name: get_word
define: U_GETWORD, VERIF_SPLIT_REALLOC
src: strings.c
enforce: spiftool_get_word
backend: kissat,cadical
loops: 1
*/
#include "vprelude.h"
#include "env_split.h"
#include "strings.h"
#include "split.h"
#include "src/strings.c"

unsigned long w_index;

#ifdef U_PWORD
/* result: NULL or a pointer to a non-NUL character inside str (so the word it points at is no longer
 * than the remaining input); nothing is written */
spif_charptr_t spiftool_get_pword(unsigned long index, const spif_charptr_t str)
__CPROVER_requires(VCSTR_FRESH(str, vg_n1))
__CPROVER_assigns()
__CPROVER_ensures(__CPROVER_return_value == NULL ||
                  (__CPROVER_same_object(__CPROVER_return_value, str) &&
                   __CPROVER_POINTER_OFFSET(__CPROVER_return_value) < vg_n1 &&
                   *__CPROVER_return_value != 0))
;
void harness(void)
{
    unsigned long index = nondet_ulong(); spif_charptr_t str;
    w_index = index;
    spiftool_get_pword(index, str);
    VERIF_CANARY();
}
#endif

#ifdef U_NUMWORDS
/* nothing is written; there are never more words than characters */
unsigned long spiftool_num_words(const spif_charptr_t str)
__CPROVER_requires(VCSTR_FRESH(str, vg_n1))
__CPROVER_assigns(vg_sp_c, vg_exit)
__CPROVER_ensures(__CPROVER_return_value <= vg_n1)
;
void harness(void)
{
    spif_charptr_t str;
    spiftool_num_words(str);
    VERIF_CANARY();
}
#endif

#ifdef U_GETWORD
/* result: NULL or a fresh block, not larger than the input (incl. terminator), whose last byte is NUL */
spif_charptr_t spiftool_get_word(unsigned long index, const spif_charptr_t str)
__CPROVER_requires(VCSTR_FRESH(str, vg_n1))
__CPROVER_assigns(vg_exit)
__CPROVER_ensures(__CPROVER_return_value == NULL ||
                  (__CPROVER_is_fresh(__CPROVER_return_value, 1) &&
                   __CPROVER_OBJECT_SIZE(__CPROVER_return_value) <= vg_n1 + 1 &&
                   (vg_k2 != __CPROVER_OBJECT_SIZE(__CPROVER_return_value) - 1 || __CPROVER_return_value[vg_k2] == 0)))
;
void harness(void)
{
    unsigned long index = nondet_ulong(); spif_charptr_t str;
    w_index = index;
    spiftool_get_word(index, str);
    VERIF_CANARY();
}
#endif
