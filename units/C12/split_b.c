/* C12 tier B: spiftool_split produces exactly the token list of the quoting grammar, for every input of
 * length <= 5 (quick tier) / <= 7 (thorough tier) over {a, b, space, ':', ''', '"', '\'} and the
 * delimiter sets NULL / ":" / " :"; it never reads beyond the terminator of the input or of the delimiter
 * set (both end at the last byte of their objects), leaves the input unchanged (ghost index) and writes no
 * byte beyond the requested size of any block it allocates (ghost-index canary of env_split.h, checked at
 * every realloc and on every returned block); the result array is NULL-terminated right after the last
 * token.
 *
 * The real strings.c is executed on the loop strlen/strchr and the fat-block malloc/realloc of
 * env_split.h and cbmc's own free; all loops unwound (--unwind 8 / 10 with unwinding assertions).
 * strings.c is included as "../src/strings.c" (= $REPO/include/../src/strings.c, the unannotated file of
 * the tree under check; B units apply no loop contracts).
 *
 * Input classes, one unit each per delimiter set (disjoint harness assumptions, so that a known defect of
 * one class cannot hide a regression in another): "mixed" = a quote character of the other kind occurs
 * inside quotes; "trailbs" = the input ends in an unescaped backslash (and is not mixed); "plain" = neither.
 * This is the stand-in for the missing tier P unit of spiftool_split (see prop.json). */

/*@unit
name: split.grammar.ws.plain
define: U_GRAMMAR, V_DELIM_KIND=0, V_CLASS=0
src: strings.c
tier: B
bound: input length <= 5 (quick tier) / <= 7 (thorough tier) over {a,b,space,:,',",\}; delimiter set NULL (whitespace); inputs without mixed quotes and without a trailing unescaped backslash; loops unwound 8 / 10
unwind: 8
unwind_thorough: 10
backend: cadical
timeout: 600
timeout_thorough: 3000
mem: 16
*/
/*@unit
name: split.grammar.ws.mixed
define: U_GRAMMAR, V_DELIM_KIND=0, V_CLASS=1
src: strings.c
tier: B
bound: input length <= 5 (quick tier) / <= 7 (thorough tier) over {a,b,space,:,',",\}; delimiter set NULL (whitespace); inputs with a quote character of the other kind inside quotes; loops unwound 8 / 10
unwind: 8
unwind_thorough: 10
backend: cadical
timeout: 600
timeout_thorough: 3000
mem: 16
*/
/*@unit
name: split.grammar.ws.trailbs
define: U_GRAMMAR, V_DELIM_KIND=0, V_CLASS=2
src: strings.c
tier: B
bound: input length <= 5 (quick tier) / <= 7 (thorough tier) over {a,b,space,:,',",\}; delimiter set NULL (whitespace); inputs ending in an unescaped backslash (no mixed quotes); loops unwound 8 / 10
unwind: 8
unwind_thorough: 10
backend: cadical
timeout: 600
timeout_thorough: 3000
mem: 16
*/
/*@unit
name: split.grammar.colon.plain
define: U_GRAMMAR, V_DELIM_KIND=1, V_CLASS=0
src: strings.c
tier: B
bound: input length <= 5 (quick tier) / <= 7 (thorough tier) over {a,b,space,:,',",\}; delimiter set ":"; inputs without mixed quotes and without a trailing unescaped backslash; loops unwound 8 / 10
unwind: 8
unwind_thorough: 10
backend: cadical
timeout: 600
timeout_thorough: 3000
mem: 16
*/
/*@unit
name: split.grammar.colon.mixed
define: U_GRAMMAR, V_DELIM_KIND=1, V_CLASS=1
src: strings.c
tier: B
bound: input length <= 5 (quick tier) / <= 7 (thorough tier) over {a,b,space,:,',",\}; delimiter set ":"; inputs with a quote character of the other kind inside quotes; loops unwound 8 / 10
unwind: 8
unwind_thorough: 10
backend: cadical
timeout: 600
timeout_thorough: 3000
mem: 16
*/
/*@unit
name: split.grammar.colon.trailbs
define: U_GRAMMAR, V_DELIM_KIND=1, V_CLASS=2
src: strings.c
tier: B
bound: input length <= 5 (quick tier) / <= 7 (thorough tier) over {a,b,space,:,',",\}; delimiter set ":"; inputs ending in an unescaped backslash (no mixed quotes); loops unwound 8 / 10
unwind: 8
unwind_thorough: 10
backend: cadical
timeout: 600
timeout_thorough: 3000
mem: 16
*/
/*@unit
name: split.grammar.spcolon.plain
define: U_GRAMMAR, V_DELIM_KIND=2, V_CLASS=0
src: strings.c
tier: B
bound: input length <= 5 (quick tier) / <= 7 (thorough tier) over {a,b,space,:,',",\}; delimiter set " :"; inputs without mixed quotes and without a trailing unescaped backslash; loops unwound 8 / 10
unwind: 8
unwind_thorough: 10
backend: cadical
timeout: 600
timeout_thorough: 3000
mem: 16
*/
/*@unit
name: split.grammar.spcolon.mixed
define: U_GRAMMAR, V_DELIM_KIND=2, V_CLASS=1
src: strings.c
tier: B
bound: input length <= 5 (quick tier) / <= 7 (thorough tier) over {a,b,space,:,',",\}; delimiter set " :"; inputs with a quote character of the other kind inside quotes; loops unwound 8 / 10
unwind: 8
unwind_thorough: 10
backend: cadical
timeout: 600
timeout_thorough: 3000
mem: 16
*/
/*@unit
name: split.grammar.spcolon.trailbs
define: U_GRAMMAR, V_DELIM_KIND=2, V_CLASS=2
src: strings.c
tier: B
bound: input length <= 5 (quick tier) / <= 7 (thorough tier) over {a,b,space,:,',",\}; delimiter set " :"; inputs ending in an unescaped backslash (no mixed quotes); loops unwound 8 / 10
unwind: 8
unwind_thorough: 10
backend: cadical
timeout: 600
timeout_thorough: 3000
mem: 16
*/
#define VERIF_OWN_STRLEN
#define VERIF_OWN_STRCHR
#define VERIF_SPLIT_PRECISE
#include "vprelude.h"
#include "env_split.h"
#include "split.h"
#include "ref.h"
#include "../src/strings.c"

#if V_DELIM_KIND == 0
# define V_DELIM ((spif_charptr_t) NULL)
#elif V_DELIM_KIND == 1
static char v_delim_buf[2] = ":";
# define V_DELIM ((spif_charptr_t) v_delim_buf)
#else
static char v_delim_buf[3] = " :";
# define V_DELIM ((spif_charptr_t) v_delim_buf)
#endif

#ifdef U_GRAMMAR
void harness(void)
{
    unsigned n, i;
    char *in = vr_input(&n);
    vr_toks_t R;
    spif_charptr_t *l;

    vr_tokenize(V_DELIM, in, &R);
#if V_CLASS == 0
    __CPROVER_assume(!R.f_mixed && !R.f_trailbs);
#elif V_CLASS == 1
    __CPROVER_assume(R.f_mixed);
#else
    __CPROVER_assume(!R.f_mixed && R.f_trailbs);
#endif
    l = spiftool_split(V_DELIM, (spif_charptr_t) in);

    /* the input is not modified (ghost index) */
    __CPROVER_assert(!(vg_k <= n) || in[vg_k] == w_in[vg_k], "split: input string unchanged");

#if V_CLASS == 0
# define CLS "[plain]"
#elif V_CLASS == 1
# define CLS "[mixed quotes]"
#else
# define CLS "[trailing backslash]"
#endif
    __CPROVER_assert((l == NULL) == (R.cnt == 0), "split " CLS ": NULL result iff the grammar has no token");
    if (l != NULL) {
        for (i = 0; i < R.cnt; i++) {
            __CPROVER_assert(l[i] != NULL, "split " CLS ": at least as many tokens as the grammar");
            if (l[i] == NULL) return;
            __CPROVER_assert(vr_streq((char *) l[i], R.t[i]), "split " CLS ": token text equals the grammar's token");
            vs_check_block(l[i]);
        }
        __CPROVER_assert(l[R.cnt] == NULL, "split " CLS ": array NULL-terminated right after the last grammar token");
        vs_check_block(l);
    }
    VERIF_CANARY();
}
#endif
