/* C12 tier B: spiftool_split produces exactly the token list of the quoting grammar, for every input of
 * length <= 7 over {a, b, space, ':', ''', '"', '\'} and the delimiter sets NULL / ":" / " :";
 * it never reads beyond the terminator of the input or of the delimiter set (input and set live in
 * exact-size objects) and writes only into its own allocations; the result array is NULL-terminated
 * exactly after the last token; no token is longer than the input.
 *
 * The real strings.c is executed on the real (loop) strlen/strchr of env_split.h, cbmc's own
 * malloc/realloc/free; all loops unwound (--unwind 10 with unwinding assertions).
 *
 * Input classes with their own assertion names (so that a known defect of one class cannot hide a
 * regression in another): "mixed quotes" = a quote character of the other kind occurs inside quotes;
 * "trailing backslash" = the input ends in an unescaped backslash; "plain" = neither. */

/*@unit
name: split.grammar.ws
define: U_GRAMMAR, V_DELIM_KIND=0
src: strings.c
tier: B
bound: input length <= 7 over {a,b,space,:,',",\}; delimiter set NULL (whitespace)
unwind: 10
backend: kissat,cadical
timeout: 600
*/
/*@unit
name: split.grammar.colon
define: U_GRAMMAR, V_DELIM_KIND=1
src: strings.c
tier: B
bound: input length <= 7 over {a,b,space,:,',",\}; delimiter set ":"
unwind: 10
backend: kissat,cadical
timeout: 600
*/
/*@unit
name: split.grammar.spcolon
define: U_GRAMMAR, V_DELIM_KIND=2
src: strings.c
tier: B
bound: input length <= 7 over {a,b,space,:,',",\}; delimiter set " :"
unwind: 10
backend: kissat,cadical
timeout: 600
*/
#define VERIF_OWN_STRLEN
#define VERIF_OWN_STRCHR
#define VERIF_SPLIT_PRECISE
#include "vprelude.h"
#include "env_split.h"
#include "split.h"
#include "ref.h"
#include "src/strings.c"

#if V_DELIM_KIND == 0
# define V_DELIM ((spif_charptr_t) NULL)
#elif V_DELIM_KIND == 1
static char v_delim_buf[2] = ":";
# define V_DELIM ((spif_charptr_t) v_delim_buf)
#else
static char v_delim_buf[3] = " :";
# define V_DELIM ((spif_charptr_t) v_delim_buf)
#endif

#ifdef U_GRAMMAR
void harness(void)
{
    unsigned n, i;
    char *in = vr_input(&n);
    vr_toks_t R;
    spif_charptr_t *l;

    vr_tokenize(V_DELIM, in, &R);
    l = spiftool_split(V_DELIM, (spif_charptr_t) in);

    /* the input is not modified (ghost index) */
    __CPROVER_assert(!(vg_k <= n) || in[vg_k] == w_in[vg_k], "split: input string unchanged");

    if (R.f_mixed) {
        __CPROVER_assert((l == NULL) == (R.cnt == 0), "split [mixed quotes]: NULL result iff the grammar has no token");
        if (l != NULL) {
            for (i = 0; i < R.cnt; i++) {
                __CPROVER_assert(l[i] != NULL, "split [mixed quotes]: at least as many tokens as the grammar");
                if (l[i] == NULL) return;
                __CPROVER_assert(vr_streq((char *) l[i], R.t[i]), "split [mixed quotes]: token text equals the grammar's token");
            }
            __CPROVER_assert(l[R.cnt] == NULL, "split [mixed quotes]: array NULL-terminated right after the last grammar token");
        }
    } else if (R.f_trailbs) {
        __CPROVER_assert((l == NULL) == (R.cnt == 0), "split [trailing backslash]: NULL result iff the grammar has no token");
        if (l != NULL) {
            for (i = 0; i < R.cnt; i++) {
                __CPROVER_assert(l[i] != NULL, "split [trailing backslash]: at least as many tokens as the grammar");
                if (l[i] == NULL) return;
                __CPROVER_assert(vr_streq((char *) l[i], R.t[i]), "split [trailing backslash]: token text equals the grammar's token");
            }
            __CPROVER_assert(l[R.cnt] == NULL, "split [trailing backslash]: array NULL-terminated right after the last grammar token");
        }
    } else {
        __CPROVER_assert((l == NULL) == (R.cnt == 0), "split [plain]: NULL result iff the grammar has no token");
        if (l != NULL) {
            for (i = 0; i < R.cnt; i++) {
                __CPROVER_assert(l[i] != NULL, "split [plain]: at least as many tokens as the grammar");
                if (l[i] == NULL) return;
                __CPROVER_assert(vr_streq((char *) l[i], R.t[i]), "split [plain]: token text equals the grammar's token");
            }
            __CPROVER_assert(l[R.cnt] == NULL, "split [plain]: array NULL-terminated right after the last grammar token");
        }
    }
    VERIF_CANARY();
}
#endif
