/* C12 tier B: spiftool_split produces exactly the token list of the quoting grammar, for every input of
 * length <= 5 (quick tier) / <= 7 (thorough tier) over {a, b, space, ':', ''', '"', '\'} and the
 * delimiter sets NULL / ":" / " :" (one unit each); it never reads beyond the terminator of the input or
 * of the delimiter set (both end at the last byte of their objects), leaves the input unchanged (ghost
 * index) and writes no byte beyond the requested size of any block it allocates (ghost-index canary of
 * env_split.h, checked at every realloc and on every returned block); the result array is NULL-terminated
 * right after the last token.
 *
 * The real strings.c (rawsrc/ = the unannotated file of the tree under check; B units apply no loop
 * contracts) is executed on the loop strlen/strchr and the fat-block malloc/realloc of env_split.h and
 * cbmc's own free; all loops unwound (--unwind 8 / 10 with unwinding assertions).
 * This is the stand-in for the missing tier P unit of spiftool_split (see prop.json).
 * Native replay (`native: self`): the same harness, inputs W_len, W_c0..W_c6, W_gk, real libc under ASan. */

/*@unit
name: split.grammar.ws
define: V_DELIM_KIND=0
src: strings.c
tier: B
bound: input length <= 5 (quick tier) / <= 7 (thorough tier) over {a,b,space,:,',",\}; delimiter set NULL (whitespace); loops unwound 8 / 10
unwind: 8
unwind_thorough: 10
backend: cadical
native: self
timeout: 900
timeout_thorough: 6000
mem: 16
funcs: spiftool_split
*/
/*@unit
name: split.grammar.colon
define: V_DELIM_KIND=1
src: strings.c
tier: B
bound: input length <= 5 (quick tier) / <= 7 (thorough tier) over {a,b,space,:,',",\}; delimiter set ":"; loops unwound 8 / 10
unwind: 8
unwind_thorough: 10
backend: cadical
native: self
timeout: 900
timeout_thorough: 6000
mem: 16
funcs: spiftool_split
*/
/*@unit
name: split.grammar.spcolon
define: V_DELIM_KIND=2
src: strings.c
tier: B
bound: input length <= 5 (quick tier) / <= 7 (thorough tier) over {a,b,space,:,',",\}; delimiter set " :"; loops unwound 8 / 10
unwind: 8
unwind_thorough: 10
backend: cadical
native: self
timeout: 900
timeout_thorough: 6000
mem: 16
funcs: spiftool_split
*/
#define VERIF_OWN_STRLEN
#define VERIF_OWN_STRCHR
#define VERIF_SPLIT_PRECISE
#include "vprelude.h"
#include "env_split.h"
#include "split.h"
#include "ref.h"
#include "rawsrc/strings.c"

#if V_DELIM_KIND == 0
# define V_DELIM ((spif_charptr_t) NULL)
#elif V_DELIM_KIND == 1
static char v_delim_buf[2] = ":";
# define V_DELIM ((spif_charptr_t) v_delim_buf)
#else
static char v_delim_buf[3] = " :";
# define V_DELIM ((spif_charptr_t) v_delim_buf)
#endif

void harness(void)
{
    unsigned i;
    VR_INPUT(in, n);
    vr_toks_t R;
    spif_charptr_t *l;

    vr_tokenize(V_DELIM, in, &R);
    l = spiftool_split(V_DELIM, (spif_charptr_t) in);

    /* the input is not modified (ghost index) */
    __CPROVER_assert(!(vg_k <= n) || in[vg_k] == w_in[vg_k], "split: input string unchanged");

    __CPROVER_assert((l == NULL) == (R.cnt == 0), "split: NULL result iff the grammar has no token");
    if (l != NULL) {
        for (i = 0; i < R.cnt; i++) {
            __CPROVER_assert(l[i] != NULL, "split: at least as many tokens as the grammar");
            if (l[i] == NULL) return;
            __CPROVER_assert(vr_streq((char *) l[i], R.t[i]), "split: token text equals the grammar's token");
            vs_check_block(l[i]);
        }
        __CPROVER_assert(l[R.cnt] == NULL, "split: array NULL-terminated right after the last grammar token");
        vs_check_block(l);
    }
    VERIF_CANARY();
}
