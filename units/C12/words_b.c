/* C12 tier B: the word utilities are mutually consistent on every input of length <= 5 (quick) / 7
 * (thorough) over {a, b, space, ':', ''', '"', '\'}:
 *   num_words(s) equals the number of words of the word grammar;
 *   for every i in 1..num_words(s): get_word(i, s) is the i-th word of the word grammar (whitespace-
 *   separated; a word that opens with a quote runs to the matching quote) and get_pword(i, s) points at
 *   the i-th whitespace-separated word.
 * The real strings.c is executed (unannotated "../src/strings.c" of the tree under check) on the loop
 * strlen of env_split.h and the fat-block allocator; the input's terminator is the last byte of its object.
 *
 * "points at the i-th whitespace-separated word": the returned pointer is the first character of that
 * word; for a word that opens with a quote character and has more characters it is the character behind
 * the quote (what spiftool_get_pword documents: "..." counts as 1 word).
 *
 * Input classes (disjoint assumptions; a known defect of one class cannot hide a regression in another):
 *   plain      no quote character, no backslash
 *   quoted     contains a quote character or a backslash, but not the pattern of the third class
 *   escquote   (count, get_word) a backslash stands directly in front of a quote character
 *   lonequote  (get_pword) the indexed whitespace-separated word is one quote character and ends the input */

/*@unit
name: words.count.plain
define: U_COUNT, V_CLASS=0
src: strings.c
tier: B
bound: input length <= 5 (quick tier) / <= 7 (thorough tier) over {a,b,space,:,',",\}; inputs without quote characters and backslashes; every index 1..num_words; loops unwound 10
unwind: 10
backend: cadical
timeout: 600
timeout_thorough: 3000
funcs: spiftool_num_words
*/
/*@unit
name: words.count.quoted
define: U_COUNT, V_CLASS=1
src: strings.c
tier: B
bound: input length <= 5 (quick tier) / <= 7 (thorough tier) over {a,b,space,:,',",\}; inputs with a quote character or a backslash, no backslash directly in front of a quote character; every index 1..num_words; loops unwound 10
unwind: 10
backend: cadical
timeout: 600
timeout_thorough: 3000
funcs: spiftool_num_words
*/
/*@unit
name: words.count.escquote
define: U_COUNT, V_CLASS=2
src: strings.c
tier: B
bound: input length <= 5 (quick tier) / <= 7 (thorough tier) over {a,b,space,:,',",\}; inputs with a backslash directly in front of a quote character; every index 1..num_words; loops unwound 10
unwind: 10
backend: cadical
timeout: 600
timeout_thorough: 3000
funcs: spiftool_num_words
*/
/*@unit
name: words.get_word.plain
define: U_GETWORD, V_CLASS=0
src: strings.c
tier: B
bound: input length <= 5 (quick tier) / <= 7 (thorough tier) over {a,b,space,:,',",\}; inputs without quote characters and backslashes; every index 1..num_words; loops unwound 10
unwind: 10
backend: cadical
timeout: 600
timeout_thorough: 3000
funcs: spiftool_get_word, spiftool_num_words
*/
/*@unit
name: words.get_word.quoted
define: U_GETWORD, V_CLASS=1
src: strings.c
tier: B
bound: input length <= 5 (quick tier) / <= 7 (thorough tier) over {a,b,space,:,',",\}; inputs with a quote character or a backslash, no backslash directly in front of a quote character; every index 1..num_words; loops unwound 10
unwind: 10
backend: cadical
timeout: 600
timeout_thorough: 3000
funcs: spiftool_get_word, spiftool_num_words
*/
/*@unit
name: words.get_word.escquote
define: U_GETWORD, V_CLASS=2
src: strings.c
tier: B
bound: input length <= 5 (quick tier) / <= 7 (thorough tier) over {a,b,space,:,',",\}; inputs with a backslash directly in front of a quote character; every index 1..num_words; loops unwound 10
unwind: 10
backend: cadical
timeout: 600
timeout_thorough: 3000
funcs: spiftool_get_word, spiftool_num_words
*/
/*@unit
name: words.get_pword.plain
define: U_GETPWORD, V_CLASS=0
src: strings.c
tier: B
bound: input length <= 5 (quick tier) / <= 7 (thorough tier) over {a,b,space,:,',",\}; inputs without quote characters and backslashes; every index 1..num_words; loops unwound 10
unwind: 10
backend: cadical
timeout: 600
timeout_thorough: 3000
funcs: spiftool_get_pword, spiftool_num_words
*/
/*@unit
name: words.get_pword.quoted
define: U_GETPWORD, V_CLASS=1
src: strings.c
tier: B
bound: input length <= 5 (quick tier) / <= 7 (thorough tier) over {a,b,space,:,',",\}; inputs with a quote character or a backslash, no word that is a lone quote character at the end of the input; every index 1..num_words; loops unwound 10
unwind: 10
backend: cadical
timeout: 600
timeout_thorough: 3000
funcs: spiftool_get_pword, spiftool_num_words
*/
/*@unit
name: words.get_pword.lonequote
define: U_GETPWORD, V_CLASS=2
src: strings.c
tier: B
bound: input length <= 5 (quick tier) / <= 7 (thorough tier) over {a,b,space,:,',",\}; the indexed whitespace-separated word is a single quote character at the end of the input; every index 1..num_words; loops unwound 10
unwind: 10
backend: cadical
timeout: 600
timeout_thorough: 3000
funcs: spiftool_get_pword, spiftool_num_words
*/
#define VERIF_OWN_STRLEN
#define VERIF_OWN_STRCHR
#define VERIF_SPLIT_PRECISE
#define VERIF_SPLIT_OWN_MEM
#define VS_FAT 8                  /* get_word's scratch buffer is strlen(str)+1 <= 8 bytes */
#include "vprelude.h"
#include "env_split.h"
#include "split.h"
#include "ref.h"
#include "../src/strings.c"

#if V_CLASS == 0
# define CLS "[plain]"
#elif V_CLASS == 1
# define CLS "[quotes/backslash]"
#elif defined(U_GETPWORD)
# define CLS "[lone trailing quote]"
#else
# define CLS "[backslash-quote]"
#endif

unsigned long w_index;

void harness(void)
{
    unsigned n, i;
    char *in = vr_input(&n);
    int special = 0, escq = 0;
    unsigned long nw, idx;
    unsigned rn;

    for (i = 0; i < n; i++) {
        if (in[i] == '\'' || in[i] == '"' || in[i] == '\\') special = 1;
        if (in[i] == '\\' && (in[i + 1] == '\'' || in[i + 1] == '"')) escq = 1;
    }
#if V_CLASS == 0
    __CPROVER_assume(!special);
#elif !defined(U_GETPWORD)
    __CPROVER_assume(special && (V_CLASS == 2) == (escq != 0));
#else
    __CPROVER_assume(special);
#endif

    nw = spiftool_num_words((spif_charptr_t) in);
    rn = vr_nwords(in);
#ifdef U_COUNT
    __CPROVER_assert(nw == rn, "num_words " CLS ": equals the number of words of the word grammar");
#endif

    idx = nondet_ulong();
    w_index = idx;
    __CPROVER_assume(idx >= 1 && idx <= nw);

#ifdef U_GETWORD
    {
        char want[VR_BUF];
        spif_charptr_t w = spiftool_get_word(idx, (spif_charptr_t) in);
        int have = vr_word(in, (unsigned) idx, want);
        __CPROVER_assert(w != NULL, "get_word " CLS ": a word is returned for every index 1..num_words");
        if (w != NULL) {
            __CPROVER_assert(have, "get_word " CLS ": the word grammar has a word with that index");
            if (have) {
                __CPROVER_assert(vr_streq((char *) w, want), "get_word " CLS ": text equals the word of the word grammar");
            }
            vs_check_block(w);
        }
    }
#endif
#ifdef U_GETPWORD
    {
        spif_charptr_t p;
        int off = vr_pword(in, (unsigned) idx);
        int lone = (off >= 0 && (in[off] == '\'' || in[off] == '"') && in[off + 1] == 0);
#if V_CLASS == 1
        __CPROVER_assume(!lone);
#elif V_CLASS == 2
        __CPROVER_assume(lone);
#endif
        p = spiftool_get_pword(idx, (spif_charptr_t) in);
        /* num_words counts quote-delimited words, so it may exceed the number of whitespace-separated words */
        __CPROVER_assert((p != NULL) == (off >= 0), "get_pword " CLS ": a pointer is returned iff there is an i-th whitespace-separated word");
        if (p != NULL && off >= 0) {
            /* spiftool_get_pword documents that the pointer is set behind the opening quote of a quoted word */
            int skip = ((in[off] == '\'' || in[off] == '"') && in[off + 1] != 0) ? 1 : 0;
            __CPROVER_assert((char *) p == in + off + skip,
                             "get_pword " CLS ": points at the i-th whitespace-separated word (behind its opening quote, if it has one)");
        }
    }
#endif
    __CPROVER_assert(!(vg_k <= n) || in[vg_k] == w_in[vg_k], "words " CLS ": input string unchanged");
    VERIF_CANARY();
}
