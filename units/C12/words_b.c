/* C12 tier B: the word utilities are mutually consistent on every input of length <= 5 (quick) / 7
 * (thorough) over {a, b, space, ':', ''', '"', '\'}:
 *   num_words(s) equals the number of words of the word grammar;
 *   for every i in 1..num_words(s): get_word(i, s) is the i-th word of the word grammar (whitespace-
 *   separated; a word that opens with a quote runs to the matching quote) and get_pword(i, s) points at
 *   the i-th whitespace-separated word.
 * The real strings.c is executed (rawsrc/ = the unannotated file of the tree under check) on the loop
 * strlen of env_split.h and the fat-block allocator; the input's terminator is the last byte of its object.
 *
 * "points at the i-th whitespace-separated word": the returned pointer is the first character of that
 * word; for a word that opens with a quote character and has more characters it is the character behind
 * the quote (what spiftool_get_pword documents: "..." counts as 1 word).  num_words counts quote-delimited
 * words, so it may exceed the number of whitespace-separated words: get_pword(i) is NULL exactly when
 * there is no i-th whitespace-separated word.
 * Native replay (`native: self`): inputs W_len, W_c0..W_c6, W_idx, W_gk. */

/*@unit
name: words.count
define: U_COUNT
src: strings.c
tier: B
bound: input length <= 5 (quick tier) / <= 7 (thorough tier) over {a,b,space,:,',",\}; loops unwound 10
unwind: 10
backend: cadical
native: self
timeout: 900
timeout_thorough: 6000
mem: 16
funcs: spiftool_num_words
*/
/*@unit
name: words.get_word
define: U_GETWORD
src: strings.c
tier: B
bound: input length <= 5 (quick tier) / <= 7 (thorough tier) over {a,b,space,:,',",\}; every index 1..num_words; loops unwound 10
unwind: 10
backend: cadical
native: self
timeout: 900
timeout_thorough: 6000
mem: 16
funcs: spiftool_get_word, spiftool_num_words
*/
/*@unit
name: words.get_pword
define: U_GETPWORD
src: strings.c
tier: B
bound: input length <= 5 (quick tier) / <= 7 (thorough tier) over {a,b,space,:,',",\}; every index 1..num_words; loops unwound 10
unwind: 10
backend: cadical
native: self
timeout: 900
timeout_thorough: 6000
mem: 16
funcs: spiftool_get_pword, spiftool_num_words
*/
#define VERIF_OWN_STRLEN
#define VERIF_OWN_STRCHR
#define VERIF_SPLIT_PRECISE
#define VERIF_SPLIT_OWN_MEM
#define VS_FAT 8                  /* get_word's scratch buffer is strlen(str)+1 <= 8 bytes */
#include "vprelude.h"
#include "env_split.h"
#include "split.h"
#include "ref.h"
#include "rawsrc/strings.c"

unsigned long w_index;

void harness(void)
{
    VR_INPUT(in, n);
    unsigned long nw, idx;
    unsigned rn;

    nw = spiftool_num_words((spif_charptr_t) in);
    rn = vr_nwords(in);
#ifdef U_COUNT
    __CPROVER_assert(nw == rn, "num_words: equals the number of words of the word grammar");
#endif

    idx = (unsigned long) VND(ulong, idx);
    w_index = idx;
    __CPROVER_assume(idx >= 1 && idx <= nw);

#ifdef U_GETWORD
    {
        char want[VR_BUF];
        spif_charptr_t w = spiftool_get_word(idx, (spif_charptr_t) in);
        int have = vr_word(in, (unsigned) idx, want);
        __CPROVER_assert(w != NULL, "get_word: a word is returned for every index 1..num_words");
        if (w != NULL) {
            __CPROVER_assert(have, "get_word: the word grammar has a word with that index");
            if (have) {
                __CPROVER_assert(vr_streq((char *) w, want), "get_word: text equals the word of the word grammar");
            }
            vs_check_block(w);
        }
    }
#endif
#ifdef U_GETPWORD
    {
        spif_charptr_t p = spiftool_get_pword(idx, (spif_charptr_t) in);
        int off = vr_pword(in, (unsigned) idx);
        __CPROVER_assert((p != NULL) == (off >= 0), "get_pword: a pointer is returned iff there is an i-th whitespace-separated word");
        if (p != NULL && off >= 0) {
            /* spiftool_get_pword documents that the pointer is set behind the opening quote of a quoted word */
            int skip = ((in[off] == '\'' || in[off] == '"') && in[off + 1] != 0) ? 1 : 0;
            __CPROVER_assert((char *) p == in + off + skip,
                             "get_pword: points at the i-th whitespace-separated word (behind its opening quote, if it has one)");
        }
    }
#endif
    __CPROVER_assert(!(vg_k <= n) || in[vg_k] == w_in[vg_k], "words: input string unchanged");
    VERIF_CANARY();
}
