/* C12 tier B: the tok class produces the token list of the quoting grammar modulo its trimming, and agrees
 * with spiftool_split token for token modulo that trimming, for every input of length <= 3 (quick) / 4
 * (thorough) over {a, b, space, ':', ''', '"', '\'} and the delimiter sets NULL / ":" / " :" (chosen
 * nondeterministically inside each unit).  Memory-safety obligations of everything executed (tok.c, str.c,
 * dlinked_list.c, obj.c, strings.c) are part of each unit; input and delimiter strings end at the last byte
 * of their objects.
 *
 * The REAL tok.c, str.c, dlinked_list.c, obj.c and strings.c are executed.  Re-bound dispatch macros
 * (object/list methods are called through spif_func_t pointers that cbmc cannot resolve; GUIDE
 * "function pointers"); each is bound to the method the class table holds for the objects that reach it in
 * this TU (tokens are str objects, the token list is a dlinked_list):
 *     SPIF_LIST_NEW(type)       -> spif_dlinked_list_new()        (tok.c asks for dlinked_list)
 *     SPIF_LIST_DEL(o)          -> spif_dlinked_list_del(o)
 *     SPIF_LIST_APPEND(o, item) -> spif_dlinked_list_append(o, item)
 *     SPIF_OBJ_DEL(o)           -> spif_str_del(o)                (list items and tok's src/sep are strs)
 *     SPIF_OBJ_DUP(o)           -> spif_str_dup(o)
 *     SPIF_OBJ_COMP(a, b)       -> spif_str_comp(a, b)
 *     SPIF_OBJ_SHOW(o, b, i)    -> spif_str_show(o, "", b, i)
 *     SPIF_ALLOC(type)          -> exact-size typed allocation of sizeof(type) bytes (env_split.h VS_ALLOC_OBJ;
 *                                  plain MALLOC/REALLOC requests use the fat-block model of env_split.h)
 * The sources are included as "../src/x.c" (= $REPO/include/../src/x.c, the unannotated file of the tree
 * under check): B units apply no loop contracts, and this keeps them independent of other owners'
 * annotation tables for str.c / dlinked_list.c (which is also why the unit headers list only tok.c under src:).
 * "Modulo tok's trimming": a tok token is compared with the split / grammar token after removal of leading
 * and trailing whitespace (vr_trim); a str whose buffer is NULL (what spif_str_trim leaves for an empty
 * string) counts as the empty string.
 *
 * Input classes (disjoint assumptions, one unit each, so that a known defect of one class cannot hide a
 * regression in another):
 *   clean    none of the following
 *   mixed    a quote character of the other kind inside quotes                 (split defect)
 *   trailbs  explicit delimiter set and input ends in an unescaped backslash   (split + tok defect)
 *   empty    some grammar token is empty ('' or "")                            (spif_str_trim reads s[-1])
 *   blank    some grammar token is non-empty and all whitespace                (spif_str_trim keeps one blank)
 *   multi    two or more of mixed / trailbs / empty / blank
 * Bounds: 3 characters need ~4 CPU-minutes per unit, 4 characters ~10, 6 characters exceed 16 GB (str.c
 * re-allocates on every appended character and every moved block is one more candidate object for each
 * later access); the 7-character bound of the statement is reached for split and the word utilities only.
 * Quick tier: tok.clean and tok.defects (= every class but clean, in one unit); the five per-class units run
 * in the thorough tier.  Agreement with spiftool_split follows from the split.grammar.* units: split equals
 * the grammar's tokens and tok equals the trimmed grammar tokens on the same inputs. */

/*@unit
name: tok.clean
define: V_CLASS=0, VERIF_MAXLEN_Q=3, VERIF_MAXLEN_T=4, VS_OBJS=1024
src: tok.c
tier: B
bound: input length <= 3 (quick tier) / <= 4 (thorough tier) over {a,b,space,:,',",\}; delimiter sets NULL, ":", " :"; inputs of class clean; loops unwound 5 / 6 (token loop 5)
unwind: 5
unwind_thorough: 6
flags: --unwindset spif_tok_eval.5:5
objbits: 10
backend: cadical
quick: yes
timeout: 1500
timeout_thorough: 6000
mem: 16
funcs: spif_tok_eval, spif_tok_new_from_ptr, spif_tok_set_sep, spif_str_new_from_ptr, spif_str_new_from_buff, spif_str_clear, spif_str_append_char, spif_str_trim, spif_dlinked_list_append, spif_dlinked_list_get
*/
/*@unit
name: tok.defects
define: V_CLASS=6, VERIF_MAXLEN_Q=3, VERIF_MAXLEN_T=4, VS_OBJS=1024
src: tok.c
tier: B
bound: input length <= 3 (quick tier) / <= 4 (thorough tier) over {a,b,space,:,',",\}; delimiter sets NULL, ":", " :"; inputs of any class other than clean (the five classes below together); loops unwound 5 / 6 (token loop 5)
unwind: 5
unwind_thorough: 6
flags: --unwindset spif_tok_eval.5:5
objbits: 10
backend: cadical
quick: yes
timeout: 1500
timeout_thorough: 6000
mem: 16
funcs: spif_tok_eval, spif_tok_new_from_ptr, spif_tok_set_sep, spif_str_new_from_ptr, spif_str_new_from_buff, spif_str_clear, spif_str_append_char, spif_str_trim, spif_dlinked_list_append, spif_dlinked_list_get
*/
/*@unit
name: tok.mixed
define: V_CLASS=1, VERIF_MAXLEN_Q=3, VERIF_MAXLEN_T=4, VS_OBJS=1024
src: tok.c
tier: B
bound: input length <= 3 (quick tier) / <= 4 (thorough tier) over {a,b,space,:,',",\}; delimiter sets NULL, ":", " :"; inputs of class mixed; loops unwound 5 / 6 (token loop 5)
unwind: 5
unwind_thorough: 6
flags: --unwindset spif_tok_eval.5:5
objbits: 10
backend: cadical
quick: no
timeout: 1500
timeout_thorough: 6000
mem: 16
funcs: spif_tok_eval, spif_tok_new_from_ptr, spif_tok_set_sep, spif_str_new_from_ptr, spif_str_new_from_buff, spif_str_clear, spif_str_append_char, spif_str_trim, spif_dlinked_list_append, spif_dlinked_list_get
*/
/*@unit
name: tok.trailbs
define: V_CLASS=2, VERIF_MAXLEN_Q=3, VERIF_MAXLEN_T=4, VS_OBJS=1024
src: tok.c
tier: B
bound: input length <= 3 (quick tier) / <= 4 (thorough tier) over {a,b,space,:,',",\}; delimiter sets NULL, ":", " :"; inputs of class trailbs; loops unwound 5 / 6 (token loop 5)
unwind: 5
unwind_thorough: 6
flags: --unwindset spif_tok_eval.5:5
objbits: 10
backend: cadical
quick: no
timeout: 1500
timeout_thorough: 6000
mem: 16
funcs: spif_tok_eval, spif_tok_new_from_ptr, spif_tok_set_sep, spif_str_new_from_ptr, spif_str_new_from_buff, spif_str_clear, spif_str_append_char, spif_str_trim, spif_dlinked_list_append, spif_dlinked_list_get
*/
/*@unit
name: tok.empty
define: V_CLASS=3, VERIF_MAXLEN_Q=3, VERIF_MAXLEN_T=4, VS_OBJS=1024
src: tok.c
tier: B
bound: input length <= 3 (quick tier) / <= 4 (thorough tier) over {a,b,space,:,',",\}; delimiter sets NULL, ":", " :"; inputs of class empty; loops unwound 5 / 6 (token loop 5)
unwind: 5
unwind_thorough: 6
flags: --unwindset spif_tok_eval.5:5
objbits: 10
backend: cadical
quick: no
timeout: 1500
timeout_thorough: 6000
mem: 16
funcs: spif_tok_eval, spif_tok_new_from_ptr, spif_tok_set_sep, spif_str_new_from_ptr, spif_str_new_from_buff, spif_str_clear, spif_str_append_char, spif_str_trim, spif_dlinked_list_append, spif_dlinked_list_get
*/
/*@unit
name: tok.blank
define: V_CLASS=4, VERIF_MAXLEN_Q=3, VERIF_MAXLEN_T=4, VS_OBJS=1024
src: tok.c
tier: B
bound: input length <= 3 (quick tier) / <= 4 (thorough tier) over {a,b,space,:,',",\}; delimiter sets NULL, ":", " :"; inputs of class blank; loops unwound 5 / 6 (token loop 5)
unwind: 5
unwind_thorough: 6
flags: --unwindset spif_tok_eval.5:5
objbits: 10
backend: cadical
quick: no
timeout: 1500
timeout_thorough: 6000
mem: 16
funcs: spif_tok_eval, spif_tok_new_from_ptr, spif_tok_set_sep, spif_str_new_from_ptr, spif_str_new_from_buff, spif_str_clear, spif_str_append_char, spif_str_trim, spif_dlinked_list_append, spif_dlinked_list_get
*/
/*@unit
name: tok.multi
define: V_CLASS=5, VERIF_MAXLEN_Q=3, VERIF_MAXLEN_T=4, VS_OBJS=1024
src: tok.c
tier: B
bound: input length <= 3 (quick tier) / <= 4 (thorough tier) over {a,b,space,:,',",\}; delimiter sets NULL, ":", " :"; inputs of class multi; loops unwound 5 / 6 (token loop 5)
unwind: 5
unwind_thorough: 6
flags: --unwindset spif_tok_eval.5:5
objbits: 10
backend: cadical
quick: no
timeout: 1500
timeout_thorough: 6000
mem: 16
funcs: spif_tok_eval, spif_tok_new_from_ptr, spif_tok_set_sep, spif_str_new_from_ptr, spif_str_new_from_buff, spif_str_clear, spif_str_append_char, spif_str_trim, spif_dlinked_list_append, spif_dlinked_list_get
*/
#define VERIF_OWN_STRLEN
#define VERIF_OWN_STRCHR
#define VERIF_SPLIT_PRECISE
#define VERIF_SPLIT_OWN_MEM
#define VS_FAT 8                  /* every buffer request of tok/str on inputs <= 7 characters fits 8 bytes */
#include "vprelude.h"
#include "env_split.h"
#include "split.h"
#include "ref.h"

#undef SPIF_ALLOC
#define SPIF_ALLOC(type)           VS_ALLOC_OBJ(type)
#undef SPIF_LIST_NEW
#undef SPIF_LIST_DEL
#undef SPIF_LIST_APPEND
#undef SPIF_OBJ_DEL
#undef SPIF_OBJ_DUP
#undef SPIF_OBJ_COMP
#undef SPIF_OBJ_SHOW
#define SPIF_LIST_NEW(type)        ((spif_list_t) spif_dlinked_list_new())
#define SPIF_LIST_DEL(o)           spif_dlinked_list_del((spif_dlinked_list_t) (o))
#define SPIF_LIST_APPEND(o, item)  spif_dlinked_list_append((spif_dlinked_list_t) (o), (spif_obj_t) (item))
#define SPIF_OBJ_DEL(o)            spif_str_del((spif_str_t) (o))
#define SPIF_OBJ_DUP(o)            ((spif_obj_t) spif_str_dup((spif_str_t) (o)))
#define SPIF_OBJ_COMP(a, b)        spif_str_comp((spif_str_t) (a), (spif_str_t) (b))
#define SPIF_OBJ_SHOW(o, b, i)     spif_str_show((spif_str_t) (o), (spif_charptr_t) "", (b), (i))

#include "../src/obj.c"
#include "../src/str.c"
#include "../src/dlinked_list.c"
#include "../src/tok.c"

static char v_d1[2] = ":";
static char v_d2[3] = " :";
unsigned w_delim_kind;

#if V_CLASS == 0
# define CLS "[clean]"
#elif V_CLASS == 1
# define CLS "[mixed quotes]"
#elif V_CLASS == 2
# define CLS "[trailing backslash]"
#elif V_CLASS == 3
# define CLS "[empty token]"
#elif V_CLASS == 4
# define CLS "[blank token]"
#elif V_CLASS == 5
# define CLS "[several classes]"
#else
# define CLS "[any defect class]"
#endif

void harness(void)
{
    unsigned n, i, k, flags;
    char *in = vr_input(&n);
    char *delim;
    vr_toks_t R;
    spif_tok_t t;
    spif_dlinked_list_t toks;
    int f_empty = 0, f_blank = 0, f_trail;
    char want[VR_BUF];

#ifdef V_DELIM_KIND
    k = V_DELIM_KIND;                 /* constant delimiter set (one unit per set) */
#else
    k = nondet_uint();
    __CPROVER_assume(k < 3);
#endif
    w_delim_kind = k;
    delim = (k == 0) ? (char *) NULL : ((k == 1) ? v_d1 : v_d2);

    vr_tokenize(delim, in, &R);
    for (i = 0; i < R.cnt; i++) {
        vr_trim(R.t[i], want);
        if (R.len[i] == 0) f_empty = 1;
        else if (want[0] == 0) f_blank = 1;
    }
    f_trail = (R.f_trailbs && delim != NULL);
    flags = (R.f_mixed != 0) + (f_trail != 0) + (f_empty != 0) + (f_blank != 0);
#if V_CLASS == 0
    __CPROVER_assume(flags == 0);
#elif V_CLASS == 1
    __CPROVER_assume(flags == 1 && R.f_mixed);
#elif V_CLASS == 2
    __CPROVER_assume(flags == 1 && f_trail);
#elif V_CLASS == 3
    __CPROVER_assume(flags == 1 && f_empty);
#elif V_CLASS == 4
    __CPROVER_assume(flags == 1 && f_blank);
#elif V_CLASS == 5
    __CPROVER_assume(flags >= 2);
#else
    __CPROVER_assume(flags >= 1);
#endif

    spif_str_strclass = &s_class;     /* class pointers as the library initialises them */
    t = spif_tok_new_from_ptr((spif_charptr_t) in);
    if (delim != NULL) {
        spif_tok_set_sep(t, spif_str_new_from_ptr((spif_charptr_t) delim));
    }
    __CPROVER_assert(spif_tok_eval(t) == TRUE, "tok " CLS ": eval succeeds");
    toks = (spif_dlinked_list_t) t->tokens;

    __CPROVER_assert(!(vg_k <= n) || in[vg_k] == w_in[vg_k], "tok " CLS ": input string unchanged");
    __CPROVER_assert((unsigned) spif_dlinked_list_count(toks) == R.cnt, "tok " CLS ": number of tokens equals the grammar's");
    for (i = 0; i < R.cnt && i < (unsigned) spif_dlinked_list_count(toks); i++) {
        spif_str_t s = (spif_str_t) spif_dlinked_list_get(toks, (spif_listidx_t) i);
        const char *txt = (s->s != NULL) ? (const char *) s->s : "";
        vr_trim(R.t[i], want);
        __CPROVER_assert(vr_streq(txt, want), "tok " CLS ": token text equals the trimmed grammar token");
        if (s->s != NULL) vs_check_block(s->s);
    }
    VERIF_CANARY();
}
