/* C12 tier B: the tok class produces the token list of the quoting grammar modulo its trimming, for every
 * input of length <= 3 (quick) / 4 (thorough) over {a, b, space, ':', ''', '"', '\'} and the delimiter
 * sets NULL / ":" / " :" (chosen nondeterministically).  Agreement with spiftool_split token for token
 * modulo that trimming follows from the split.grammar.* units: split equals the grammar's tokens and tok
 * equals the trimmed grammar tokens on the same inputs.  Memory-safety obligations of everything executed
 * (tok.c, str.c, dlinked_list.c, obj.c) are part of the unit; input and delimiter strings end at the last
 * byte of their objects; no heap write beyond a requested block size (env_split.h canary).
 *
 * The REAL tok.c, str.c, dlinked_list.c and obj.c are executed, included as "../src/x.c" (= $REPO/include/
 * ../src/x.c, the unannotated files of the tree under check; B units apply no loop contracts).  The unit has
 * no `src:` line on purpose: it must not depend on the loop-contract tables of tok.c / str.c being applicable
 * (a mutant that restructures the loops of spif_tok_eval makes the tok_eval P units undecidable, this unit
 * still runs and judges the tokens).  Re-bound dispatch macros (object/list methods are
 * called through spif_func_t pointers that cbmc cannot resolve; GUIDE "function pointers"); each is bound
 * to the method the class table holds for the objects that reach it in this TU (tokens are str objects,
 * the token list is a dlinked_list):
 *     SPIF_LIST_NEW(type)       -> spif_dlinked_list_new()        (tok.c asks for dlinked_list)
 *     SPIF_LIST_DEL(o)          -> spif_dlinked_list_del(o)
 *     SPIF_LIST_APPEND(o, item) -> spif_dlinked_list_append(o, item)
 *     SPIF_OBJ_DEL(o)           -> spif_str_del(o)                (list items and tok's src/sep are strs)
 *     SPIF_OBJ_DUP(o)           -> spif_str_dup(o)
 *     SPIF_OBJ_COMP(a, b)       -> spif_str_comp(a, b)
 *     SPIF_OBJ_SHOW(o, b, i)    -> spif_str_show(o, "", b, i)
 *     SPIF_ALLOC(type)          -> exact-size typed allocation of sizeof(type) bytes (env_split.h VS_ALLOC_OBJ;
 *                                  plain MALLOC/REALLOC requests use the fat-block model of env_split.h)
 * "Modulo tok's trimming": a tok token is compared with the grammar token after removal of leading and
 * trailing whitespace (vr_trim); a str whose buffer is NULL (what spif_str_trim leaves for an empty string)
 * counts as the empty string.
 * Bounds: 3 characters need ~4 CPU-minutes, 4 characters ~10, 6 characters exceed 16 GB (str.c re-allocates
 * on every appended character and every moved block is one more candidate object for each later access); the
 * 7-character bound of the statement is reached for split and the word utilities only.
 * Native replay (`native: self`): inputs W_len, W_c0..W_c6, W_dk (delimiter set), W_gk, W_gk2. */

/*@unit
name: tok.grammar
define: VERIF_MAXLEN_Q=3, VERIF_MAXLEN_T=4, VS_OBJS=1024
native_includes: tok.c, str.c, dlinked_list.c, obj.c
tier: B
bound: input length <= 3 (quick tier) / <= 4 (thorough tier) over {a,b,space,:,',",\}; delimiter sets NULL, ":", " :"; loops unwound 5 / 6 (token loop 5)
unwind: 5
unwind_thorough: 6
flags: --unwindset spif_tok_eval.5:5
objbits: 10
backend: cadical
native: self
timeout: 1500
timeout_thorough: 6000
mem: 16
funcs: spif_tok_eval, spif_tok_new_from_ptr, spif_tok_set_sep, spif_str_new_from_ptr, spif_str_new_from_buff, spif_str_clear, spif_str_append_char, spif_str_trim, spif_dlinked_list_append, spif_dlinked_list_get
*/
#define VERIF_OWN_STRLEN
#define VERIF_OWN_STRCHR
#define VERIF_SPLIT_PRECISE
#define VERIF_SPLIT_OWN_MEM
#define VS_FAT 8                  /* every buffer request of tok/str on inputs <= 7 characters fits 8 bytes */
#include "vprelude.h"
#include "env_split.h"
#include "split.h"
#include "ref.h"

#undef SPIF_ALLOC
#define SPIF_ALLOC(type)           VS_ALLOC_OBJ(type)
#undef SPIF_LIST_NEW
#undef SPIF_LIST_DEL
#undef SPIF_LIST_APPEND
#undef SPIF_OBJ_DEL
#undef SPIF_OBJ_DUP
#undef SPIF_OBJ_COMP
#undef SPIF_OBJ_SHOW
#define SPIF_LIST_NEW(type)        ((spif_list_t) spif_dlinked_list_new())
#define SPIF_LIST_DEL(o)           spif_dlinked_list_del((spif_dlinked_list_t) (o))
#define SPIF_LIST_APPEND(o, item)  spif_dlinked_list_append((spif_dlinked_list_t) (o), (spif_obj_t) (item))
#define SPIF_OBJ_DEL(o)            spif_str_del((spif_str_t) (o))
#define SPIF_OBJ_DUP(o)            ((spif_obj_t) spif_str_dup((spif_str_t) (o)))
#define SPIF_OBJ_COMP(a, b)        spif_str_comp((spif_str_t) (a), (spif_str_t) (b))
#define SPIF_OBJ_SHOW(o, b, i)     spif_str_show((spif_str_t) (o), (spif_charptr_t) "", (b), (i))

#include "../src/obj.c"
#include "../src/str.c"
#include "../src/dlinked_list.c"
#include "../src/tok.c"

static char v_d1[2] = ":";
static char v_d2[3] = " :";
unsigned w_delim_kind;

void harness(void)
{
    unsigned i, k;
    VR_INPUT(in, n);
    char *delim;
    vr_toks_t R;
    spif_tok_t t;
    spif_dlinked_list_t toks;
    char want[VR_BUF];

    k = (unsigned) VND(uint, dk);
    __CPROVER_assume(k < 3);
    w_delim_kind = k;
    delim = (k == 0) ? (char *) NULL : ((k == 1) ? v_d1 : v_d2);

    vr_tokenize(delim, in, &R);

    spif_str_strclass = &s_class;     /* class pointers as the library initialises them */
    t = spif_tok_new_from_ptr((spif_charptr_t) in);
    if (delim != NULL) {
        spif_tok_set_sep(t, spif_str_new_from_ptr((spif_charptr_t) delim));
    }
    __CPROVER_assert(spif_tok_eval(t) == TRUE, "tok: eval succeeds");
    toks = (spif_dlinked_list_t) t->tokens;

    __CPROVER_assert(!(vg_k <= n) || in[vg_k] == w_in[vg_k], "tok: input string unchanged");
    __CPROVER_assert((unsigned) spif_dlinked_list_count(toks) == R.cnt, "tok: number of tokens equals the grammar's");
    for (i = 0; i < R.cnt && i < (unsigned) spif_dlinked_list_count(toks); i++) {
        spif_str_t s = (spif_str_t) spif_dlinked_list_get(toks, (spif_listidx_t) i);
        const char *txt = (s->s != NULL) ? (const char *) s->s : "";
        vr_trim(R.t[i], want);
        __CPROVER_assert(vr_streq(txt, want), "tok: token text equals the trimmed grammar token");
        if (s->s != NULL) vs_check_block(s->s);
    }
    VERIF_CANARY();
}
