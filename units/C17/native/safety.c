/* Native replay of C17.safety: the witness carries the two string lengths (w_n1, w_n2); the contents are
 * rebuilt as ONE run each (letters, then digits, then punctuation: the three copy-loop pairs), because the
 * unit's obligations are about run lengths.  Exact-size heap strings; ASan/UBSan judge memory safety
 * and arithmetic; result must be one of the three comparison values and the same on a second call. */
#include <libast_internal.h>
#include "vnative.h"
#include "strings.c"
static char *run(size_t n, char c) { char *s = malloc(n + 1); memset(s, c, n); s[n] = 0; return s; }
int main(void)
{
    size_t n1 = (size_t) vn_get("w_n1", 0), n2 = (size_t) vn_get("w_n2", 0);
    static const char fill[3][2] = { { 'a', 'b' }, { '7', '8' }, { '.', '-' } };
    int k;
    if (n1 > (1UL << 28) || n2 > (1UL << 28)) { fprintf(stderr, "NATIVE-REPLAY: witness too large to rebuild\n"); return 0; }
    for (k = 0; k < 3; k++) {
        char *v1 = run(n1, fill[k][0]), *v2 = run(n2, fill[k][1]);
        int r1, r2;
        if (n1) v1[n1 - 1] = fill[k][1];             /* runs differ only in their last character */
        r1 = (int) spiftool_version_compare((spif_charptr_t) v1, (spif_charptr_t) v2);
        r2 = (int) spiftool_version_compare((spif_charptr_t) v1, (spif_charptr_t) v2);
        if (!(r1 == SPIF_CMP_LESS || r1 == SPIF_CMP_EQUAL || r1 == SPIF_CMP_GREATER)) { fprintf(stderr, "NATIVE-REPLAY: result is not a comparison value\n"); return 3; }
        if (r1 != r2) { fprintf(stderr, "NATIVE-REPLAY: two calls with the same arguments disagree\n"); return 3; }
        free(v1); free(v2);
    }
    return 0;
}
