/* C17, tier B: the ordering rules of the property statement on GENERATED well-formed versions
 *      version = N { '.' N } [ word [ D ] ]     N = number from {1,2,9,10,12}, D = digit,
 *      word in { snap, pre, alpha, beta, rc } or another word ( a, pl ).
 * Oracle = the rule as the statement words it, evaluated on the generating tuple (never on the text):
 *   rule_numeric   same number of components, no suffix: order of the first differing component, numerically
 *   rule_words     same numeric prefix, two different pre-release words: snap < pre < alpha < beta < rc
 *   rule_suffix    prefix+word[+digit] against the bare prefix: snap/pre/alpha/beta below, any other word above
 *   rule_longer    a bare version is below every bare version that extends it by further components
 * Each unit also checks the reverse call (antisymmetry on these pairs).  The pairs are enumerated
 * CONCRETELY by the harness loops (symbolic components of symbolic length did not finish in 10 minutes):
 * cbmc executes the real function on each pair.  Plain runs on the un-annotated source, exact libc
 * byte-loop models (env_strhelp.h).  --max-field-sensitivity-array-size 200 makes symex track the 128-byte
 * scratch buffers per element, so each call is executed concretely (about 0.2 s). */
/*@unit
name: rule_numeric_1
define: U_NUMERIC, RN=1
src: strings.c
funcs: spiftool_version_compare
tier: B
bound: 1 component(s) from {1,2,9,10,12}: all ordered pairs in the last component (concrete enumeration)
unwind: 20
backend: sat
native: self
flags: --max-field-sensitivity-array-size 200
objbits: 14
timeout: 600
*/
/*@unit
name: rule_numeric_2
define: U_NUMERIC, RN=2
src: strings.c
funcs: spiftool_version_compare
tier: B
bound: 2 component(s) from {1,2,9,10,12}: all ordered pairs in the last component, and in the first component with the last one reversed (concrete enumeration)
unwind: 20
backend: sat
native: self
flags: --max-field-sensitivity-array-size 200
objbits: 14
timeout: 600
*/
/*@unit
name: rule_numeric_3
define: U_NUMERIC, RN=3
src: strings.c
funcs: spiftool_version_compare
tier: B
bound: 3 component(s) from {1,2,9,10,12}: all ordered pairs in the last component, and in the first component with the last one reversed (concrete enumeration)
unwind: 20
backend: sat
native: self
flags: --max-field-sensitivity-array-size 200
objbits: 14
timeout: 600
*/
/*@unit
name: rule_words_1
define: U_WORDS, RN=1
src: strings.c
funcs: spiftool_version_compare
tier: B
bound: prefix of 1 component(s), all 20 ordered pairs of different pre-release words, without and with a digit behind them (concrete enumeration)
unwind: 20
backend: sat
native: self
flags: --max-field-sensitivity-array-size 200
objbits: 14
timeout: 600
*/
/*@unit
name: rule_words_2
define: U_WORDS, RN=2
src: strings.c
funcs: spiftool_version_compare
tier: B
bound: prefix of 2 component(s), all 20 ordered pairs of different pre-release words, without and with a digit behind them (concrete enumeration)
unwind: 20
backend: sat
native: self
flags: --max-field-sensitivity-array-size 200
objbits: 14
timeout: 600
*/
/*@unit
name: rule_suffix
define: U_SUFFIX
src: strings.c
funcs: spiftool_version_compare
tier: B
bound: prefixes 1 / 2.10 / 9.2.12, word in {snap,pre,alpha,beta,rc,a,pl}, without and with a digit (concrete enumeration)
unwind: 20
backend: sat
native: self
flags: --max-field-sensitivity-array-size 200
objbits: 14
timeout: 600
*/
/*@unit
name: rule_suffix_number
define: U_SUFNUM
src: strings.c
funcs: spiftool_version_compare
tier: B
bound: prefix 2.10 and the same word from {pre,rc,a,pl} on both sides [thorough tier: prefixes 2 / 2.10, all seven words] followed by digits from {1,2,9}: the number behind the suffix is ordered numerically (concrete enumeration; added by the lead after seed C17-s2)
unwind: 20
backend: sat
native: self
flags: --max-field-sensitivity-array-size 200
objbits: 14
timeout: 600
*/
/*@unit
name: rule_longer
define: U_LONGER
src: strings.c
funcs: spiftool_version_compare
tier: B
bound: 1..2 components extended by 1..2 more, values from {1,2,9,10,12} (concrete enumeration)
unwind: 20
backend: sat
native: self
flags: --max-field-sensitivity-array-size 200
objbits: 14
timeout: 600
*/
/* components beyond 16 and 32 bits: "numerically" must not depend on the width of an intermediate type
 * (finding C17-numeric-wrap, seed C17-s3) */
/*@unit
name: rule_numeric_big
define: U_NUMBIG
src: strings.c
funcs: spiftool_version_compare
tier: B
bound: 1..2 components, the last one all ordered pairs from {9, 32768, 65537, 4294967296} (concrete enumeration)
unwind: 20
backend: sat
native: self
flags: --max-field-sensitivity-array-size 200
objbits: 14
timeout: 600
*/
#define VERIF_OWN_STRCMP
#define VERIF_STRHELP_EXACT_LIBC
#include "vprelude.h"
#ifndef VERIF_NATIVE
# include "env_strhelp.h"
#endif
#include "strings.h"
#include "rawsrc/strings.c"

#define ENS(c) __CPROVER_assert((c), "C17 rule: " #c)
#define VLEN 16
static const char *const words[8] = { "", "snap", "pre", "alpha", "beta", "rc", "a", "pl" };

static unsigned put_num(char *s, unsigned at, unsigned v)
{
    if (v >= 10) s[at++] = (char) ('0' + v / 10);
    s[at++] = (char) ('0' + v % 10);
    return at;
}
static unsigned put_big(char *s, unsigned at, unsigned long v)
{
    char tmp[12]; unsigned k = 0;
    do { tmp[k++] = (char) ('0' + (int) (v % 10)); v /= 10; } while (v);
    while (k) s[at++] = tmp[--k];
    return at;
}
/* ncomp components, word index w (0 = none), digit d (10 = none) */
static void render(char *s, unsigned ncomp, const unsigned *comp, unsigned w, unsigned d)
{
    unsigned at = 0, i;
    for (i = 0; i < ncomp; i++) {
        if (i) s[at++] = '.';
        at = put_num(s, at, comp[i]);
    }
    for (i = 0; words[w][i]; i++) s[at++] = words[w][i];
    if (w && d < 10) s[at++] = (char) ('0' + d);
    s[at] = 0;
}
#define CMP(a, b) ((int) spiftool_version_compare((spif_charptr_t) (a), (spif_charptr_t) (b)))
/* component values: one and two digits, so that numeric and textual order differ (9 < 10, 2 < 12) */
static const unsigned vals[5] = { 1, 2, 9, 10, 12 };
#define NV 5

static void check(const char *a, const char *b, int want)
{
    ENS(CMP(a, b) == want);
    ENS(CMP(b, a) == -want);        /* antisymmetry on the same pair */
}

void harness(void)
{
    char a[VLEN], b[VLEN];
    unsigned ca[4], cb[4], i, j, k, l, n;
    libast_debug_level = 0;
#ifdef U_NUMERIC
    /* RN components, the first RN-1 equal, the last one all ordered pairs; and (RN > 1) differing FIRST
     * component with the last components pointing the other way */
    n = RN;
    for (i = 0; i < NV; i++)
        for (j = 0; j < NV; j++) {
            ca[0] = cb[0] = vals[1]; ca[1] = cb[1] = vals[3]; ca[2] = cb[2] = vals[0];
            ca[n - 1] = vals[i]; cb[n - 1] = vals[j];
            render(a, n, ca, 0, 10); render(b, n, cb, 0, 10);
            check(a, b, i < j ? -1 : (i > j ? 1 : 0));
            if (n > 1 && i != j) {
                ca[0] = vals[i]; cb[0] = vals[j]; ca[n - 1] = vals[j]; cb[n - 1] = vals[i];
                render(a, n, ca, 0, 10); render(b, n, cb, 0, 10);
                check(a, b, i < j ? -1 : 1);
            }
        }
#endif
#ifdef U_WORDS
    n = RN;
    for (i = 1; i <= 5; i++)
        for (j = 1; j <= 5; j++)
            for (l = 0; l < 2; l++) {           /* no digit / a digit behind both words */
                if (i == j) continue;
                ca[0] = cb[0] = vals[1]; ca[1] = cb[1] = vals[3];
                render(a, n, ca, i, l ? 7 : 10); render(b, n, cb, j, l ? 3 : 10);
                check(a, b, i < j ? -1 : 1);    /* table order = snap < pre < alpha < beta < rc */
            }
#endif
#ifdef U_SUFFIX
    for (n = 1; n <= 3; n++)
        for (i = 1; i <= 7; i++)
            for (l = 0; l < 2; l++) {
                ca[0] = cb[0] = vals[n == 1 ? 0 : (n == 2 ? 1 : 2)]; ca[1] = cb[1] = vals[n == 2 ? 3 : 1]; ca[2] = cb[2] = vals[4];
                render(a, n, ca, i, l ? 4 : 10); render(b, n, cb, 0, 10);
                check(a, b, i <= 4 ? -1 : 1);   /* snap/pre/alpha/beta below the bare version, others above */
            }
#endif
#ifdef U_SUFNUM
    {
        static const unsigned dg[3] = { 1, 2, 9 };
#ifdef VERIF_THOROUGH
        for (n = 1; n <= 2; n++)
            for (i = 1; i <= 7; i++)
#else
        for (n = 2; n <= 2; n++)
            for (i = 2; i <= 7; i += (i == 2 ? 3 : 1))     /* pre, rc, a, pl */
#endif
                for (j = 0; j < 3; j++)
                    for (k = 0; k < 3; k++) {
                        ca[0] = cb[0] = vals[1]; ca[1] = cb[1] = vals[3];
                        render(a, n, ca, i, dg[j]); render(b, n, cb, i, dg[k]);
                        check(a, b, j < k ? -1 : (j > k ? 1 : 0));   /* "optional word suffix and number": the number is a numeric component */
                    }
    }
#endif
#ifdef U_NUMBIG
    {
        static const unsigned long big[4] = { 9UL, 32768UL, 65537UL, 4294967296UL };
        for (n = 1; n <= 2; n++)
            for (i = 0; i < 4; i++)
                for (j = 0; j < 4; j++) {
                    unsigned at = 0;
                    if (n == 2) { a[0] = b[0] = '2'; a[1] = b[1] = '.'; at = 2; }
                    a[put_big(a, at, big[i])] = 0; b[put_big(b, at, big[j])] = 0;
                    check(a, b, i < j ? -1 : (i > j ? 1 : 0));
                }
    }
#endif
#ifdef U_LONGER
    for (n = 1; n <= 2; n++)
        for (l = 1; l <= 2; l++)
            for (k = 0; k < NV; k++)
                for (i = 0; i < NV; i++) {
                    ca[0] = cb[0] = vals[k]; ca[1] = cb[1] = vals[(k + 3) % NV];
                    cb[n] = vals[i]; cb[n + 1 < 4 ? n + 1 : 3] = vals[(i + 2) % NV];
                    render(a, n, ca, 0, 10); render(b, n + l, cb, 0, 10);
                    check(a, b, -1);
                }
#endif
    VERIF_CANARY();
}
