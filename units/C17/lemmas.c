/* C17, tier B: lemma harnesses over spiftool_version_compare for ALL strings of length <= MAXN (6, 4 or 3, see each unit's bound) over the
 * alphabet {a, r, c, 1, 2, '.', '-'} (plain runs on the un-annotated source, loops unwound, exact libc
 * byte-loop models from env_strhelp.h; scratch buffers are uninitialised locals = arbitrary bytes per call).
 *
 * "shape" of a string = its sequence of run classes (letters / digits / other).  When one shape is a prefix
 * of the other the mixed-class branch cannot be reached; the *_mixed units take the remaining pairs.
 *   refl            cmp(a,a) == EQUAL
 *   antisym         cmp(a,b) == -cmp(b,a)             shape-compatible pairs
 *   det             two calls with the same arguments agree   shape-compatible pairs
 *   antisym_mixed / det_mixed   the same claims on the other pairs, length <= 3 (known finding: uninitialised
 *                   scratch).  strcasecmp there: exact on the first 4 positions, arbitrary beyond (only
 *                   garbage can get that far), so that the 128 garbage bytes need not be followed
 */
/*@unit
name: refl
define: U_REFL, MAXN=6
src: strings.c
funcs: spiftool_version_compare
tier: B
bound: all strings of length <= 6 over {a,r,c,1,2,.,-}
unwind: 7
backend: sat
native: self
flags: --max-field-sensitivity-array-size 200
*/
/*@unit
name: antisym
define: U_ANTISYM, U_COMPAT, MAXN=4
src: strings.c
funcs: spiftool_version_compare
tier: B
bound: all shape-compatible pairs of strings of length <= 4 over {a,r,c,1,2,.,-}
unwind: 5
backend: sat
native: self
flags: --max-field-sensitivity-array-size 200
*/
/*@unit
name: det
define: U_DET, U_COMPAT, MAXN=4
src: strings.c
funcs: spiftool_version_compare
tier: B
bound: all shape-compatible pairs of strings of length <= 4 over {a,r,c,1,2,.,-}
unwind: 5
backend: sat
native: self
flags: --max-field-sensitivity-array-size 200
*/
/* the same two lemmas up to length 6: 8 minutes each, thorough tier only */
/*@unit
name: antisym6
define: U_ANTISYM, U_COMPAT, MAXN=6
src: strings.c
funcs: spiftool_version_compare
tier: B
bound: all shape-compatible pairs of strings of length <= 6 over {a,r,c,1,2,.,-}
unwind: 7
backend: sat
native: self
flags: --max-field-sensitivity-array-size 200
quick: no
timeout: 1200
*/
/*@unit
name: det6
define: U_DET, U_COMPAT, MAXN=6
src: strings.c
funcs: spiftool_version_compare
tier: B
bound: all shape-compatible pairs of strings of length <= 6 over {a,r,c,1,2,.,-}
unwind: 7
backend: sat
native: self
flags: --max-field-sensitivity-array-size 200
quick: no
timeout: 1200
*/
/*@unit
name: det_mixed
define: U_DET, U_MIXED, MAXN=3, VERIF_STRHELP_CASECMP_PREFIX=4
src: strings.c
funcs: spiftool_version_compare
tier: B
bound: all shape-incompatible pairs of strings of length <= 3 over {a,r,c,1,2,.,-}
unwind: 7
backend: sat
native: self
flags: --max-field-sensitivity-array-size 200
*/
/*@unit
name: antisym_mixed
define: U_ANTISYM, U_MIXED, MAXN=3, VERIF_STRHELP_CASECMP_PREFIX=4
src: strings.c
funcs: spiftool_version_compare
tier: B
bound: all shape-incompatible pairs of strings of length <= 3 over {a,r,c,1,2,.,-}
unwind: 7
backend: sat
native: self
flags: --max-field-sensitivity-array-size 200
*/
#define VERIF_OWN_STRCMP
#define VERIF_STRHELP_EXACT_LIBC
#include "vprelude.h"
#ifndef VERIF_NATIVE
# include "env_strhelp.h"
#endif
#include "strings.h"
#include "rawsrc/strings.c"

#define ENS(c) __CPROVER_assert((c), "C17 lemma: " #c)
static const char alphabet[7] = { 'a', 'r', 'c', '1', '2', '.', '-' };

/* one string: length and one alphabet index per position, taken with VND in harness() so that the native
 * replay (-DVERIF_NATIVE, real libc, real stack contents) sees the verifier's strings */
#define PICK(s, L, X0, X1, X2, X3, X4, X5) do { \
    unsigned pk_n = (unsigned) VND(uchar, L), pk_x[6], pk_i; \
    __CPROVER_assume(pk_n <= MAXN); \
    pk_x[0] = (unsigned) VND(uchar, X0); pk_x[1] = (unsigned) VND(uchar, X1); pk_x[2] = (unsigned) VND(uchar, X2); \
    pk_x[3] = (unsigned) VND(uchar, X3); pk_x[4] = (unsigned) VND(uchar, X4); pk_x[5] = (unsigned) VND(uchar, X5); \
    for (pk_i = 0; pk_i < MAXN; pk_i++) { __CPROVER_assume(pk_x[pk_i] < 7); (s)[pk_i] = alphabet[pk_x[pk_i]]; } \
    (s)[pk_n] = 0; } while (0)
static int cls(char c) { return (c >= 'a' && c <= 'z') ? 1 : ((c >= '0' && c <= '9') ? 2 : 3); }
/* one run-class sequence is a prefix of the other */
static int compatible(const char *a, const char *b)
{
    unsigned i = 0, j = 0;
    while (a[i] && b[j]) {
        int ca = cls(a[i]), cb = cls(b[j]);
        if (ca != cb) return 0;
        while (a[i] && cls(a[i]) == ca) i++;
        while (b[j] && cls(b[j]) == cb) j++;
    }
    return 1;
}

void harness(void)
{
    char a[MAXN + 1], b[MAXN + 1];
    PICK(a, la, a0, a1, a2, a3, a4, a5);
    PICK(b, lb, b0, b1, b2, b3, b4, b5);
    libast_debug_level = 0;
#ifdef U_COMPAT
    __CPROVER_assume(compatible(a, b));
#endif
#ifdef U_MIXED
    __CPROVER_assume(!compatible(a, b));
#endif
#ifdef U_REFL
    ENS(spiftool_version_compare((spif_charptr_t) a, (spif_charptr_t) a) == SPIF_CMP_EQUAL);
#endif
#ifdef U_ANTISYM
    {
        int ab = (int) spiftool_version_compare((spif_charptr_t) a, (spif_charptr_t) b);
        int ba = (int) spiftool_version_compare((spif_charptr_t) b, (spif_charptr_t) a);
        ENS(ab == -ba);
        ENS(ab == SPIF_CMP_LESS || ab == SPIF_CMP_EQUAL || ab == SPIF_CMP_GREATER);
    }
#endif
#ifdef U_DET
    {
        int r1 = (int) spiftool_version_compare((spif_charptr_t) a, (spif_charptr_t) b);
        int r2 = (int) spiftool_version_compare((spif_charptr_t) a, (spif_charptr_t) b);
        ENS(r1 == r2);
    }
#endif
    VERIF_CANARY();
}
