/* C17, tier P: spiftool_version_compare touches no memory outside its arguments and its own locals and
 * terminates, for ALL lengths of alphabetic / numeric / punctuation runs (string lengths symbolic up to
 * VCAP).  Every loop is closed by a loop contract (annot/strings.c.ann): the six copy loops carry
 * "p stays inside its 128-byte scratch buffer", the outer loop the termination measure.
 * spiftool_downcase_str is represented by a FRAME contract (may rewrite the whole buffer it is given, returns
 * it); its own proof is C13.downcase_str.  Not mechanised: that the buffer handed to it is a C string (it is
 * terminated by "*p1 = *p2 = 0" two lines above).  libc comparison/conversion functions: env.h stubs
 * (arbitrary result) - the RESULT is dealt with in the tier B units. */
/*@unit
name: safety
src: strings.c
enforce: spiftool_version_compare
replace: spiftool_downcase_str
backend: sat
loops: 1
funcs: spiftool_downcase_str
timeout: 300
native: safety
native_includes: strings.c
*/
#include "vprelude.h"
#include "strings.h"
#include "src/strings.c"

unsigned long w_n1, w_n2;

spif_charptr_t spiftool_downcase_str(spif_charptr_t str)
__CPROVER_requires(str != NULL && __CPROVER_rw_ok(str, 1))
__CPROVER_assigns(__CPROVER_object_whole(str))
__CPROVER_ensures(__CPROVER_return_value == str)
;

spif_cmp_t spiftool_version_compare(spif_charptr_t v1, spif_charptr_t v2)
__CPROVER_requires(VCSTR_FRESH(v1, vg_n1) && VCSTR_FRESH(v2, vg_n2))
__CPROVER_assigns()
__CPROVER_ensures(__CPROVER_return_value == SPIF_CMP_LESS || __CPROVER_return_value == SPIF_CMP_EQUAL ||
                  __CPROVER_return_value == SPIF_CMP_GREATER)
;

void harness(void)
{
    spif_charptr_t v1, v2;
    w_n1 = vg_n1; w_n2 = vg_n2;
    spiftool_version_compare(v1, v2);
    VERIF_CANARY();
}
